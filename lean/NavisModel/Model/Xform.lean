/-
Model of `navis.transforms.xfm_funcs.xform` / `mirror` and `navis.transforms.templates.mirror_brain` /
`symmetrize_brain` (C16).  Import-free, total, computable; exact rationals.

What the code does (and what is modelled, line by line):

* `xform(neuron, transform)`: copy; collate ONE coordinate block
  `xyz = nodes|vertices|points  ++  helper points (k-less Dotprops only)  ++  connectors (if non-empty)`,
  transform the block once (`xyz_xf`), then slice back *by counts*:
  `xyz_xf[:n]` → nodes/vertices/points, `xyz_xf[n : 2n]` → helper points, `xyz_xf[-n_connectors:]` → connectors.
  The transform is an arbitrary row function `f : V3 → V3` here (`blk.map f`); an affine map / a sequence of
  affine maps is one instance (`Aff.apply`, `seqApply`).
* `_guess_change` (mean ratio of pairwise distances of a random sample → `round(log10 ·)`; `0` when no pair of
  sampled rows has a usable distance, e.g. all rows coincide) is NOT modelled:
  the detected order of magnitude is the parameter `guess : Int`; the model only says what is done with it
  (`radius *= 10**m`, `units /= 10**m`, numeric `soma_radius *= 10**m`, and `m = 0` when the block has < 2 rows).
* k-less Dotprops: helper point `p + vect * sampling_resolution` (`* 2` in `mirror_brain`); afterwards
  `vect = (p' - hp') / ‖p' - hp'‖`.  The square root is not rational: the model keeps the *direction*
  `p' - hp'`; `Props/C16.tangent_from_helper_unit` states the normalisation in squared-norm form.
  `sampling_resolution` (a KD-tree query) is the parameter `res`.
* `mirror(points, size, axis, warp)`: homogeneous matrix `eye(4)` with `[ix, ix] = -1`, `[ix, 3] = size`
  (so `x ↦ size − x`), then the optional warp.  `mirror_brain` takes `size = bbox[ix].sum() = lo + hi` and, for
  meshes, re-winds the faces (`faces[:, ::-1]`).
* a table is its coordinate columns plus *every other column* kept row-wise as an opaque value of an arbitrary
  type (`cols`): "all other columns unchanged" is a statement about `cols`.
-/
namespace Navis.Xform

/-! ## points, row functions, affine maps -/

/-- One row of an `(N, 3)` coordinate array. -/
structure V3 where
  x : Rat
  y : Rat
  z : Rat
deriving DecidableEq, Repr, Inhabited

namespace V3
def add (a b : V3) : V3 := ⟨a.x + b.x, a.y + b.y, a.z + b.z⟩
def sub (a b : V3) : V3 := ⟨a.x - b.x, a.y - b.y, a.z - b.z⟩
def neg (a : V3) : V3 := ⟨-a.x, -a.y, -a.z⟩
def smul (k : Rat) (a : V3) : V3 := ⟨k * a.x, k * a.y, k * a.z⟩
def dot (a b : V3) : Rat := a.x * b.x + a.y * b.y + a.z * b.z
def cross (a b : V3) : V3 := ⟨a.y * b.z - a.z * b.y, a.z * b.x - a.x * b.z, a.x * b.y - a.y * b.x⟩
def normSq (a : V3) : Rat := dot a a
end V3

/-- What a transform does to one row. -/
abbrev RowFn := V3 → V3

/-- First three rows `[A | t]` of navis' homogeneous 4×4 matrix. -/
structure Aff where
  a11 : Rat
  a12 : Rat
  a13 : Rat
  t1 : Rat
  a21 : Rat
  a22 : Rat
  a23 : Rat
  t2 : Rat
  a31 : Rat
  a32 : Rat
  a33 : Rat
  t3 : Rat
deriving DecidableEq, Repr

/-- `AffineTransform.xform` on one row: `np.dot(M, [p, 1]ᵀ)[:3]`. -/
def Aff.apply (T : Aff) (p : V3) : V3 :=
  ⟨T.a11 * p.x + T.a12 * p.y + T.a13 * p.z + T.t1,
   T.a21 * p.x + T.a22 * p.y + T.a23 * p.z + T.t2,
   T.a31 * p.x + T.a32 * p.y + T.a33 * p.z + T.t3⟩

/-- Linear part only (what an affine map does to a difference of two points). -/
def Aff.lin (T : Aff) (v : V3) : V3 :=
  ⟨T.a11 * v.x + T.a12 * v.y + T.a13 * v.z,
   T.a21 * v.x + T.a22 * v.y + T.a23 * v.z,
   T.a31 * v.x + T.a32 * v.y + T.a33 * v.z⟩

def Aff.det (T : Aff) : Rat :=
  T.a11 * (T.a22 * T.a33 - T.a23 * T.a32) - T.a12 * (T.a21 * T.a33 - T.a23 * T.a31)
    + T.a13 * (T.a21 * T.a32 - T.a22 * T.a31)

/-- `TransformSequence.xform`: the transforms are applied one after the other, in list order. -/
def seqApply (ts : List Aff) : RowFn := fun p => ts.foldl (fun q T => T.apply q) p

/-! ## the collated block and its slices (`xfm_funcs.xform`) -/

/-- `np.vstack` of the three parts. -/
def stack (pts helpers conns : List V3) : List V3 := pts ++ helpers ++ conns

/-- `xyz_xf[:n]`. -/
def sliceFront (n : Nat) (blk : List V3) : List V3 := blk.take n

/-- `xyz_xf[n : 2 * n]` (the helper points of a k-less Dotprops with `n` points). -/
def sliceHelpers (n : Nat) (blk : List V3) : List V3 := (blk.drop n).take n

/-- `xyz_xf[-k:]` for `k > 0` (the code only evaluates it under `has_connectors`, i.e. `k > 0`;
for `k = 0` numpy's `[-0:]` would be the whole block). -/
def sliceBack (k : Nat) (blk : List V3) : List V3 :=
  if k = 0 then blk else blk.drop (blk.length - k)

/-! ## tables and neurons -/

/-- A DataFrame / array with coordinate columns: `xyz` = the `x, y, z` columns, `cols` = every other column,
row-wise, as an opaque value (ids, parent links, connector→node links, types, labels, …). -/
structure Table (α : Type) where
  xyz : List V3
  cols : List α
deriving DecidableEq, Repr

/-- `df[['x','y','z']] = block` — pandas/numpy raise when the number of rows differs. -/
def Table.setXYZ {α} (t : Table α) (blk : List V3) : Option (Table α) :=
  if blk.length = t.xyz.length then some { t with xyz := blk } else none

/-- The specification-side counterpart: move every row by `f`, leave the rest alone. -/
def Table.mapXYZ {α} (f : RowFn) (t : Table α) : Table α := { t with xyz := t.xyz.map f }

inductive Kind where
  | tree
  | mesh
  | dots
deriving DecidableEq, Repr

/-- One mesh face: three vertex indices. -/
structure Face where
  a : Nat
  b : Nat
  c : Nat
deriving DecidableEq, Repr

/-- `faces[:, ::-1]`. -/
def rewind (f : Face) : Face := ⟨f.c, f.b, f.a⟩

/-- Everything `xform` / `mirror_brain` can see of a neuron.  `α` = other node/vertex/point columns,
`β` = other connector columns, `μ` = everything else (name, id, tags, soma, …). -/
structure Neuron (α β μ : Type) where
  kind : Kind
  /-- nodes / vertices / points -/
  pts : Table α
  /-- TreeNeuron: the `radius` column if the node table has one (`none` inside = NaN) -/
  radius : Option (List (Option Rat))
  /-- Dotprops `_vect` (`none` = regenerate on demand from `k`) -/
  vect : Option (List V3)
  /-- Dotprops `_alpha` -/
  alpha : Option (List Rat)
  /-- Dotprops `k` -/
  k : Option Int
  /-- Dotprops `sampling_resolution` (derived by a KD-tree query in navis; a parameter here) -/
  res : Rat
  /-- MeshNeuron faces -/
  faces : List Face
  /-- connector table (`None` or a table, possibly empty) -/
  conns : Option (Table β)
  /-- magnitude of `.units` if it is a pint unit / quantity -/
  units : Option Rat
  /-- `soma_radius` if it is a number (`none` = a column name / absent) -/
  somaRadius : Option Rat
  info : μ
deriving DecidableEq, Repr

/-- `10 ** m` for an integer order of magnitude. -/
def pow10 (m : Int) : Rat :=
  if 0 ≤ m then ((10 : Rat) ^ m.toNat) else 1 / ((10 : Rat) ^ (-m).toNat)

/-- `isinstance(xf.k, type(None)) or xf.k <= 0`. -/
def usesHelpers (k : Option Int) : Bool :=
  match k with
  | none => true
  | some k => decide (k ≤ 0)

/-- `points + vect * c` — `none` when `_vect` is missing (navis raises: nothing to regenerate it from) or the
shapes do not match (numpy raises). -/
def helperPts (c : Rat) (pts : List V3) (vect : Option (List V3)) : Option (List V3) :=
  match vect with
  | none => none
  | some v => if v.length = pts.length then some (List.zipWith (fun p w => V3.add p (V3.smul c w)) pts v) else none

/-- `xf.points - hp` (row-wise; the code then divides every row by its norm). -/
def tangentDirs (pts hp : List V3) : List V3 := List.zipWith V3.sub pts hp

/-- coordinate rows the connector table contributes to the block (`has_connectors` is false for an empty table). -/
def connXYZ {β} (c : Option (Table β)) : List V3 :=
  match c with
  | some t => t.xyz
  | none => []

/-- The order of magnitude actually used: the guess, but `0` when the block has fewer than two rows. -/
def usedMagnitude (guess : Int) (blk : List V3) : Int := if 1 < blk.length then guess else 0

def scaleRadius (m : Int) (r : Option (List (Option Rat))) : Option (List (Option Rat)) :=
  r.map fun col => col.map fun v => v.map (· * pow10 m)

/-- `(units / 10**m).to_compact()` only when `m ≠ 0` (the magnitude in base units is what matters). -/
def scaleUnits (m : Int) (u : Option Rat) : Option Rat := if m = 0 then u else u.map (· / pow10 m)

/-- Helper points of the block: only for a k-less Dotprops. -/
def xformHelpers {α β μ} (n : Neuron α β μ) : Option (List V3) :=
  if n.kind == Kind.dots && usesHelpers n.k then helperPts n.res n.pts.xyz n.vect else some []

/-- `if xf.has_connectors: xf.connectors[['x','y','z']] = xyz_xf[-n_connectors:]`. -/
def assignConns {β} (c : Option (Table β)) (out : List V3) : Option (Option (Table β)) :=
  match c with
  | none => some none
  | some t => if t.xyz.length = 0 then some (some t) else (t.setXYZ (sliceBack t.xyz.length out)).map some

/-- **`xfm_funcs.xform` on one (non-voxel) neuron**, the way the code does it: stack, transform once, slice
back by counts.  `none` = the code raises. -/
def xformNeuron {α β μ} (f : RowFn) (guess : Int) (n : Neuron α β μ) : Option (Neuron α β μ) :=
  let np := n.pts.xyz.length
  let withHelpers := n.kind == Kind.dots && usesHelpers n.k
  match xformHelpers n with
  | none => none
  | some helpers =>
    let blk := stack n.pts.xyz helpers (connXYZ n.conns)
    let out := blk.map f
    let m := usedMagnitude guess blk
    match n.pts.setXYZ (sliceFront np out), assignConns n.conns out with
    | some pts', some conns' =>
      some { n with
        pts := pts'
        radius := if n.kind == Kind.tree then scaleRadius m n.radius else n.radius
        vect := if n.kind == Kind.dots then
            (if withHelpers then some (tangentDirs pts'.xyz (sliceHelpers np out)) else none) else n.vect
        alpha := if n.kind == Kind.dots && !withHelpers then none else n.alpha
        conns := conns'
        units := scaleUnits m n.units
        somaRadius := n.somaRadius.map (· * pow10 m) }
    | _, _ => none

/-- **Specification**: what "moves the coordinates and nothing else" means, written without any stacking. -/
def specXform {α β μ} (f : RowFn) (guess : Int) (n : Neuron α β μ) : Neuron α β μ :=
  let withHelpers := n.kind == Kind.dots && usesHelpers n.k
  let nrows := n.pts.xyz.length + (if withHelpers then n.pts.xyz.length else 0) + (connXYZ n.conns).length
  let m : Int := if 1 < nrows then guess else 0
  { n with
    pts := n.pts.mapXYZ f
    conns := n.conns.map (Table.mapXYZ f)
    radius := if n.kind == Kind.tree then scaleRadius m n.radius else n.radius
    vect := if n.kind == Kind.dots then
        (if withHelpers then
          some (List.zipWith (fun p w => V3.sub (f p) (f (V3.add p (V3.smul n.res w)))) n.pts.xyz (n.vect.getD []))
         else none) else n.vect
    alpha := if n.kind == Kind.dots && !withHelpers then none else n.alpha
    units := scaleUnits m n.units
    somaRadius := n.somaRadius.map (· * pow10 m) }

/-- Guard under which `xform` does not raise: a k-less Dotprops carries one tangent per point. -/
def helpersOK {α β μ} (n : Neuron α β μ) : Prop :=
  n.kind = Kind.dots → usesHelpers n.k = true → ∃ v, n.vect = some v ∧ v.length = n.pts.xyz.length

/-- DataFrame / `(N, 3)` array / `trimesh.Trimesh` / `navis.Volume` branch of `xform`. -/
def xformTable {α} (f : RowFn) (t : Table α) : Option (Table α) := t.setXYZ (t.xyz.map f)

/-! ## mirroring -/

inductive Axis where
  | x
  | y
  | z
deriving DecidableEq, Repr

def V3.get (p : V3) : Axis → Rat
  | .x => p.x
  | .y => p.y
  | .z => p.z

def V3.set (p : V3) (a : Axis) (v : Rat) : V3 :=
  match a with
  | .x => { p with x := v }
  | .y => { p with y := v }
  | .z => { p with z := v }

/-- `mirrormat = eye(4); mirrormat[ix, 3] = size; mirrormat[ix, ix] = -1`. -/
def mirrorMat (a : Axis) (s : Rat) : Aff :=
  match a with
  | .x => ⟨-1, 0, 0, s, 0, 1, 0, 0, 0, 0, 1, 0⟩
  | .y => ⟨1, 0, 0, 0, 0, -1, 0, s, 0, 0, 1, 0⟩
  | .z => ⟨1, 0, 0, 0, 0, 1, 0, 0, 0, 0, -1, s⟩

/-- The formula the matrix stands for: `x ↦ s − x` on one axis. -/
def mirrorPt (a : Axis) (s : Rat) (p : V3) : V3 := p.set a (s - p.get a)

/-- `mirror_brain`: `mirror_axis_size = bbox[ix, :].sum()`. -/
def axisSize (lo hi : Rat) : Rat := lo + hi

/-- `xfm_funcs.mirror` on one row: flip, then the optional warp. -/
def mirrorFn (a : Axis) (s : Rat) (warp : Option RowFn) : RowFn := fun p =>
  let q := (mirrorMat a s).apply p
  match warp with
  | some w => w q
  | none => q

/-- **`mirror_brain` on one neuron** for a row function `g` (`= mirrorFn axis size warp`): every table is
mirrored on its own (no stacking), mesh faces are re-wound, k-less Dotprops use helper points at
`p + vect * res * 2`, radii / units are not touched. -/
def mirrorNeuron {α β μ} (g : RowFn) (n : Neuron α β μ) : Option (Neuron α β μ) :=
  let conns' := n.conns.map fun t => if t.xyz.length = 0 then t else t.mapXYZ g
  match n.kind with
  | .tree => some { n with pts := n.pts.mapXYZ g, conns := conns' }
  | .mesh => some { n with pts := n.pts.mapXYZ g, faces := n.faces.map rewind, conns := conns' }
  | .dots =>
    if usesHelpers n.k then
      match helperPts (n.res * 2) n.pts.xyz n.vect with
      | none => none
      | some hp =>
        let pts' := n.pts.mapXYZ g
        some { n with pts := pts', vect := some (tangentDirs pts'.xyz (hp.map g)), conns := conns' }
    else some { n with pts := n.pts.mapXYZ g, vect := none, alpha := none, conns := conns' }

/-- `trimesh.Trimesh` / `navis.Volume` branch of `mirror_brain`. -/
def mirrorMesh (g : RowFn) (verts : List V3) (faces : List Face) : List V3 × List Face :=
  (verts.map g, faces.map rewind)

/-! ### `symmetrize_brain`: masked assignment `x[is_left] = flip(warpflip(x[is_left]))` -/

/-- `x[mask] = vals`: walk down the rows, replace the masked ones by successive rows of `vals`. -/
def scatter (mask : V3 → Bool) : List V3 → List V3 → List V3
  | [], _ => []
  | p :: ps, vs =>
    if mask p then
      match vs with
      | v :: vs' => v :: scatter mask ps vs'
      | [] => p :: scatter mask ps []
    else p :: scatter mask ps vs

/-- `symmetrize_brain` on an `(N, 3)` array: rows with `x > center` are mirrored with the warp (`g`) and
flipped back without it (`g0`); the others are kept. -/
def symmetrize (lo hi : Rat) (g g0 : RowFn) (xyz : List V3) : List V3 :=
  let center := lo + (hi - lo) / 2
  let mask : V3 → Bool := fun p => decide (center < p.x)
  scatter mask xyz (((xyz.filter mask).map g).map g0)

/-- **`symmetrize_brain` on one neuron** for the array-level map `S` (`= symmetrize lo hi g g0`): every table is
symmetrized on its own; faces are NOT re-wound (two flips cancel); radii / units are not touched; a Dotprops with
`k` gets its tangents dropped for regeneration, a k-less Dotprops carries them through helper points at
`p + vect * res * 2` exactly like `mirror_brain` (navis `fix:` — before, they were dropped and `.vect` raised). -/
def symmetrizeNeuron {α β μ} (S : List V3 → List V3) (n : Neuron α β μ) : Option (Neuron α β μ) :=
  let conns' := n.conns.map fun t => if t.xyz.length = 0 then t else { t with xyz := S t.xyz }
  let pts' : Table α := { n.pts with xyz := S n.pts.xyz }
  match n.kind with
  | .tree => some { n with pts := pts', conns := conns' }
  | .mesh => some { n with pts := pts', conns := conns' }
  | .dots =>
    if usesHelpers n.k then
      match helperPts (n.res * 2) n.pts.xyz n.vect with
      | none => none
      | some hp => some { n with pts := pts', vect := some (tangentDirs pts'.xyz (S hp)), conns := conns' }
    else some { n with pts := pts', vect := none, alpha := none, conns := conns' }

/-! ## `_guess_change`: order of magnitude of a change of scale -/

/-- `round(math.log10(c))` for a positive rational `c`, without logarithms: the integer `m` with
`10^(2m−1) ≤ c² < 10^(2m+1)`, i.e. `|log10 c − m| < ½` (ties cannot occur: `√10` is irrational).  Searched in
`[−40, 40]`; `none` outside (or for `c ≤ 0`, where Python raises). -/
def roundLog10 (c : Rat) : Option Int :=
  if c ≤ 0 then none else
  ((List.range 81).map fun (i : Nat) => (i : Int) - 40).find? fun m =>
    decide (pow10 (2 * m - 1) ≤ c * c) && decide (c * c < pow10 (2 * m + 1))

/-- `_guess_change` for a transform that multiplies EVERY distance by the same factor `c` (uniform scaling, rotations,
reflections, translations and their compositions): all sampled ratios are `c`, their mean is `c`. -/
def guessUniform (c : Rat) : Int := (roundLog10 c).getD 0

/-! ## `xform_brain` and `mirror_brain(via=…)` -/

/-- `xform_brain`, units part: walk the bridging path BACKWARDS (`zip(path[::-1], transforms[::-1])`), skip alias
edges; the first non-alias edge decides: if the template it leads to is registered and has `_navis_units`, every
neuron gets exactly those units.  Input in path order: `(edge is an AliasTransform, _navis_units of the template the
edge leads to)`. -/
def brainUnitsRev : List (Bool × Option Rat) → Option Rat
  | [] => none
  | (true, _) :: rest => brainUnitsRev rest
  | (false, u) :: _ => u

def brainUnits (edges : List (Bool × Option Rat)) : Option Rat := brainUnitsRev edges.reverse

/-- **`xform_brain` on one neuron**: `xform` with the sequence along the path, then the units override. -/
def xformBrainNeuron {α β μ} (f : RowFn) (guess : Int) (override : Option Rat) (n : Neuron α β μ) :
    Option (Neuron α β μ) :=
  (xformNeuron f guess n).map fun o =>
    match override with
    | some u => { o with units := some u }
    | none => o

/-- **`mirror_brain(x, template, via=V)`** with `via ≠ template`: `xform_brain(template → V)`, `mirror_brain` in `V`,
`xform_brain(V → template)`; `f1`, `f2` the two bridging sequences, `g` the flip (+ warp) in `V`, `m1`, `m2` the
magnitudes the two `xform` calls detect (`o1`, `o2` their units overrides). -/
def mirrorViaNeuron {α β μ} (f1 : RowFn) (m1 : Int) (o1 : Option Rat) (g : RowFn) (f2 : RowFn) (m2 : Int)
    (o2 : Option Rat) (n : Neuron α β μ) : Option (Neuron α β μ) :=
  ((xformBrainNeuron f1 m1 o1 n).bind (mirrorNeuron g)).bind (xformBrainNeuron f2 m2 o2)

/-! ## orientation of mesh faces -/

/-- Un-normalised face normal `(B − A) × (C − A)` for the vertex positions of a face. -/
def triNormal (A B C : V3) : V3 := V3.cross (V3.sub B A) (V3.sub C A)

/-- Signed volume (×6) of the tetrahedron `(A, B, C, Q)`: positive iff `Q` lies on the side the normal points to. -/
def triple (A B C Q : V3) : Rat := V3.dot (triNormal A B C) (V3.sub Q A)

def vertexAt (verts : List V3) (i : Nat) : V3 := verts.getD i ⟨0, 0, 0⟩

def faceNormal (verts : List V3) (f : Face) : V3 :=
  triNormal (vertexAt verts f.a) (vertexAt verts f.b) (vertexAt verts f.c)

/-! ## run-time checkers evaluated on navis' own output -/

def absRat (r : Rat) : Rat := if r < 0 then -r else r

/-- Is `v` the normalisation of the direction `d`, up to `eps`?  (`eps = 0`: exactly.)
`| ‖v‖² − 1 | ≤ eps`,  `‖v × d‖² ≤ eps² ‖d‖²`  (parallel),  `v · d > 0` (same sense). -/
def tangentOK (eps : Rat) (d v : V3) : Bool :=
  decide (absRat (V3.normSq v - 1) ≤ eps) &&
  decide (V3.normSq (V3.cross v d) ≤ eps * eps * V3.normSq d) &&
  decide (0 < V3.dot v d)

def tangentsOK (eps : Rat) : List V3 → List V3 → Bool
  | [], [] => true
  | d :: ds, v :: vs => tangentOK eps d v && tangentsOK eps ds vs
  | _, _ => false

/-- `| a − b | ≤ eps · max(1, |b|)` -/
def closeRat (eps a b : Rat) : Bool :=
  decide (absRat (a - b) ≤ eps * (if absRat b < 1 then 1 else absRat b))

def closeOpt (eps : Rat) : Option Rat → Option Rat → Bool
  | none, none => true
  | some a, some b => closeRat eps a b
  | _, _ => false

def closeCol (eps : Rat) : List (Option Rat) → List (Option Rat) → Bool
  | [], [] => true
  | a :: as, b :: bs => closeOpt eps a b && closeCol eps as bs
  | _, _ => false

def closeOptCol (eps : Rat) : Option (List (Option Rat)) → Option (List (Option Rat)) → Bool
  | none, none => true
  | some a, some b => closeCol eps a b
  | _, _ => false

/-- Property checker for one observed result `out` of `xform(n)`: coordinates, every other column, faces,
links, meta data must be *exactly* those of `specXform`; tangents (which navis normalises in floating point)
must be the normalised model directions up to `eps`; radii / units / soma radius (multiplied by `10**m` in
floating point) must agree up to `eps` relative. -/
def checkXform {α β μ} [DecidableEq α] [DecidableEq β] [DecidableEq μ]
    (eps : Rat) (f : RowFn) (guess : Int) (n out : Neuron α β μ) : Bool :=
  let s := specXform f guess n
  decide (out.kind = s.kind) && decide (out.pts = s.pts) && decide (out.conns = s.conns) &&
  decide (out.faces = s.faces) && decide (out.k = s.k) && decide (out.info = s.info) &&
  decide (out.alpha.isSome = s.alpha.isSome) &&
  closeOptCol eps out.radius s.radius && closeOpt eps out.units s.units &&
  closeOpt eps out.somaRadius s.somaRadius &&
  (match s.vect, out.vect with
   | none, none => true
   | some d, some v => if s.kind == Kind.dots && usesHelpers s.k then tangentsOK eps d v else decide (d = v)
   | _, _ => false)

/-- an observed neuron `out` against a modelled one `m`: everything exact, except floating-point scaled columns
(relative `eps`) and — on the helper-point path — tangents, which must be the normalised model directions -/
def sameNeuron {α β μ} [DecidableEq α] [DecidableEq β] [DecidableEq μ]
    (eps : Rat) (helper : Bool) (m out : Neuron α β μ) : Bool :=
  decide (out.kind = m.kind) && decide (out.pts = m.pts) && decide (out.conns = m.conns) &&
  decide (out.faces = m.faces) && decide (out.k = m.k) && decide (out.info = m.info) &&
  decide (out.alpha.isSome = m.alpha.isSome) &&
  closeOptCol eps out.radius m.radius && closeOpt eps out.units m.units &&
  closeOpt eps out.somaRadius m.somaRadius &&
  (match m.vect, out.vect with
   | none, none => true
   | some d, some v => if helper then tangentsOK eps d v else decide (d = v)
   | _, _ => false)

/-- Property checker for one observed result of `mirror_brain` (row function `g` = flip [+ warp]). -/
def checkMirror {α β μ} [DecidableEq α] [DecidableEq β] [DecidableEq μ]
    (eps : Rat) (g : RowFn) (n out : Neuron α β μ) : Bool :=
  match mirrorNeuron g n with
  | some m => sameNeuron eps (n.kind == Kind.dots && usesHelpers n.k) m out
  | none => false

/-- Property checker for one observed result of `symmetrize_brain` (array-level map `S`). -/
def checkSymm {α β μ} [DecidableEq α] [DecidableEq β] [DecidableEq μ]
    (eps : Rat) (S : List V3 → List V3) (n out : Neuron α β μ) : Bool :=
  match symmetrizeNeuron S n with
  | some m => sameNeuron eps (n.kind == Kind.dots && usesHelpers n.k) m out
  | none => false

/-- Property checker for DataFrames / arrays / mesh vertices: coordinates moved by `f`, every other column kept. -/
def checkTable {α} [DecidableEq α] (f : RowFn) (t out : Table α) : Bool :=
  decide (out.xyz = t.xyz.map f) && decide (out.cols = t.cols)

/-- … and for `trimesh.Trimesh` / `navis.Volume` under `mirror_brain`: vertices moved, every face re-wound. -/
def checkMesh (g : RowFn) (verts : List V3) (faces : List Face) (verts' : List V3) (faces' : List Face) : Bool :=
  decide (verts' = verts.map g) && decide (faces' = faces.map rewind)

/-- checker for `xform_brain`: everything as `checkXform`, units = the override when there is one -/
def checkXformBrain {α β μ} [DecidableEq α] [DecidableEq β] [DecidableEq μ]
    (eps : Rat) (f : RowFn) (guess : Int) (override : Option Rat) (n out : Neuron α β μ) : Bool :=
  match override with
  | none => checkXform eps f guess n out
  | some u => checkXform eps f guess n { out with units := (specXform f guess n).units } && closeOpt eps out.units (some u)

end Navis.Xform
