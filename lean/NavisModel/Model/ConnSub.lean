import NavisModel.Model.Ops
import NavisModel.Model.Forest
import NavisModel.Model.Dist
/-
`graph_utils.connected_subgraph` and `subset_neuron(..., prevent_fragments=True)` (C10), written the way
the navis code does it.  Import-free beyond the forest model, total, computable.

navis (`connected_subgraph(x, ss)`, `g = x.graph` has the edges child → parent):

    g_ss  = g.subgraph(ss);  leafs = ss & {n | in_degree(g_ss)[n] == 0}
    for cc in connected_components(g):                       -- one tree of the forest at a time
        paths = [walk n → root  for n in leafs & cc]         -- skipped when empty
        common       = set.intersection(*paths)
        longest_path = sorted(paths, key=len)[-1]
        first_common = sorted(common, key=longest_path.index)[0]
        for p in paths:   walk p;  stop at a node already in `include`;  stop after adding first_common
        if (ss & cc) - include:                              -- "even more distal common ancestors"
            new_roots += [sorted((ss & cc) - include, key=longest_path.index)[-1]];  include |= ss & cc
        else:
            new_roots += [first_common]
    return include, new_roots

Sets are lists here; the iteration orders navis leaves to Python's set/dict order (which leaf path is "the"
longest among equally long ones, the order of the components) are fixed to table order — the theorems in
`Props/C10.lean` show that the *set* of included nodes does not depend on them.
-/
namespace Navis.Forest

/-- Leafs *within* the subset: requested nodes none of whose children is requested
(`in_degree` 0 in `g.subgraph(ss)`). -/
def ssLeafs (t : Table) (ss : List Int) : List Int :=
  (ids t).filter fun i => ss.contains i && !(children t i).any (fun c => ss.contains c)

/-- Membership in the connected component (tree) with root `r`. -/
def inTree (t : Table) (r i : Int) : Bool := rootOf t i == some r

/-- `paths`: the walk to the root from every in-subset leaf of this component. -/
def leafPaths (t : Table) (leafs : List Int) (r : Int) : List (List Int) :=
  (leafs.filter (inTree t r)).map (rootPath t)

/-- `sorted(paths, key=len)[-1]` (stable sort: the last of the longest). -/
def longestPath (paths : List (List Int)) : List Int :=
  paths.foldl (fun best p => if best.length ≤ p.length then p else best) []

/-- `x ∈ set.intersection(*paths)`. -/
def inAll (paths : List (List Int)) (x : Int) : Bool := paths.all fun p => p.contains x

/-- `sorted(common, key=longest_path.index)[0]`: the first node of the longest path that lies on every path. -/
def firstCommon (paths : List (List Int)) : Option Int := ((longestPath paths).filter (inAll paths)).head?

/-- Walk one path: stop at an already included node, stop after adding the first common node. -/
def collectPath (fc : Int) : List Int → List Int → List Int
  | inc, [] => inc
  | inc, n :: rest =>
    if inc.contains n then inc
    else if n = fc then n :: inc
    else collectPath fc (n :: inc) rest

def collectAll (fc : Int) (inc : List Int) (paths : List (List Int)) : List Int := paths.foldl (collectPath fc) inc

/-- `(ss & cc) - include`. -/
def restOf (t : Table) (ss : List Int) (r : Int) (inc : List Int) : List Int :=
  (ids t).filter fun i => ss.contains i && inTree t r i && !inc.contains i

/-- `sorted(rest, key=longest_path.index)[-1]`: the requested node closest to the old root. -/
def newRootOf (longest rest : List Int) (fc : Int) : Int :=
  ((longest.filter fun x => rest.contains x).getLast?).getD fc

/-- The "more distal common ancestors" branch and the new root of this component. -/
def ccFinish (t : Table) (ss : List Int) (r : Int) (longest : List Int) (fc : Int) (inc nrs : List Int) :
    List Int × List Int :=
  if (restOf t ss r inc).isEmpty then (inc, nrs ++ [fc])
  else (restOf t ss r inc ++ inc, nrs ++ [newRootOf longest (restOf t ss r inc) fc])

/-- One connected component (the tree rooted at `r`); state = `(include, new_roots)`. -/
def ccStep (t : Table) (ss leafs : List Int) (st : List Int × List Int) (r : Int) : List Int × List Int :=
  if (leafPaths t leafs r).isEmpty then st
  else match firstCommon (leafPaths t leafs r) with
    | none => st   -- unreachable in a forest: all paths of a tree share its root
    | some fc =>
      ccFinish t ss r (longestPath (leafPaths t leafs r)) fc (collectAll fc st.1 (leafPaths t leafs r)) st.2

/-- `connected_subgraph`: `(include, new_roots)`. -/
def connectedSubgraph (t : Table) (ss : List Int) : List Int × List Int :=
  (roots t).foldl (ccStep t ss (ssLeafs t ss)) ([], [])

/-- `_subset_treeneuron(..., prevent_fragments=True)`: subset to the connected subgraph, then reroot to
the new roots (`if new_root: x.reroot(new_root, inplace=True)`). -/
def subsetPF (t : Table) (ss : List Int) : Table :=
  rerootMany (subset t fun i => (connectedSubgraph t ss).1.contains i) (connectedSubgraph t ss).2

end Navis.Forest
