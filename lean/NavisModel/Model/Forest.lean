/-
Forest model shared by C01, C04, C05, C07, C10–C13, C17 (DESIGN §2.4).  Import-free, total, computable.

A skeleton is a node table in the implementation's row order.  `parent < 0` marks a root (navis
tests `parent_id < 0` / `>= 0`).  Coordinates are integers (the harness generates integer
coordinates with integer edge lengths); theorems quantify over an arbitrary symmetric edge-length
function.
-/
namespace Navis.Forest

inductive Label where
  | root | end_ | branch | slab
deriving Repr, DecidableEq, Inhabited

structure Node where
  id : Int
  parent : Int
  x : Int := 0
  y : Int := 0
  z : Int := 0
  label : Label := .slab
deriving Repr, DecidableEq, Inhabited

abbrev Table := List Node

def ids (t : Table) : List Int := t.map (·.id)
def parents (t : Table) : List Int := t.map (·.parent)

def find? (t : Table) (i : Int) : Option Node := List.find? (fun n => n.id == i) t

/-- Parent id of node `i` (`none` when `i` is not in the table). -/
def parentOf (t : Table) (i : Int) : Option Int := (find? t i).map (·.parent)

def children (t : Table) (i : Int) : List Int := (t.filter (fun n => n.parent == i)).map (·.id)

def childCount (t : Table) (i : Int) : Nat := (t.filter (fun n => n.parent == i)).length

def isRootNode (n : Node) : Bool := n.parent < 0

def roots (t : Table) : List Int := (t.filter isRootNode).map (·.id)

/-- The label the property demands for a node with `c` children. -/
def labelOf (c : Nat) (isRoot : Bool) : Label :=
  if isRoot then .root else if c = 0 then .end_ else if c = 1 then .slab else .branch

/-- `classify_nodes` as navis computes it: `end` = id not in the parent column, `branch` = id occurs
more than once in the parent column, `root` overrides where `parent < 0`, else `slab`. -/
def classifyNode (t : Table) (n : Node) : Label :=
  if n.parent < 0 then .root
  else if (parents t).count n.id > 1 then .branch
  else if ¬ (n.id ∈ parents t) then .end_
  else .slab

def classify (t : Table) : Table := t.map fun n => { n with label := classifyNode t n }

/-- Labels agree with the topology (what the property demands). -/
def labelsOKB (t : Table) : Bool :=
  t.all fun n => n.label == labelOf (childCount t n.id) (n.parent < 0)

/-- Walk parent links from `i` up to the root (inclusive).  `fuel` bounds the walk. -/
def pathToRoot (t : Table) : Nat → Int → List Int
  | 0, _ => []
  | fuel + 1, i =>
    match find? t i with
    | none => []
    | some n => if n.parent < 0 then [i] else i :: pathToRoot t fuel n.parent

/-- The walk from `i` ends in a root within `fuel` steps. -/
def reachesRoot (t : Table) : Nat → Int → Bool
  | 0, _ => false
  | fuel + 1, i =>
    match find? t i with
    | none => false
    | some n => if n.parent < 0 then true else reachesRoot t fuel n.parent

/-- Walk to the root with enough fuel for any well-formed table (`|t| + 1`). -/
def rootPath (t : Table) (i : Int) : List Int := pathToRoot t (t.length + 1) i

/-- **Well-formed forest**, rank form: ids unique and non-negative, parents present, and acyclicity
witnessed by a rank that strictly decreases along parent links. -/
def WF (t : Table) : Prop :=
  (ids t).Nodup ∧ (∀ n ∈ t, 0 ≤ n.id) ∧
  ∃ rk : Int → Nat, ∀ n ∈ t, n.parent < 0 ∨ (n.parent ∈ ids t ∧ rk n.parent < rk n.id)

def nodupB : List Int → Bool
  | [] => true
  | x :: xs => !(xs.contains x) && nodupB xs

/-- Executable well-formedness (what the driver evaluates on the implementation's tables). -/
def wfB (t : Table) : Bool :=
  nodupB (ids t) && t.all (fun n => decide (0 ≤ n.id)) &&
  t.all (fun n => decide (n.parent < 0) || (ids t).contains n.parent) &&
  t.all (fun n => reachesRoot t (t.length + 1) n.id)

/-- Directed edges `(child, parent)`. -/
def edges (t : Table) : List (Int × Int) :=
  (t.filter (fun n => !isRootNode n)).map fun n => (n.id, n.parent)

/-- Undirected edge as an ordered pair (smaller id first). -/
def uedge (a b : Int) : Int × Int := if a ≤ b then (a, b) else (b, a)

def uedges (t : Table) : List (Int × Int) := (edges t).map fun e => uedge e.1 e.2

/-- `a` is an ancestor-or-self of `d`. -/
def isAncestorOrSelf (t : Table) (a d : Int) : Bool := (rootPath t d).contains a

/-- Nodes distal to (descendants-or-self of) `c`, in table order. -/
def distalSet (t : Table) (c : Int) : List Int := (ids t).filter fun d => isAncestorOrSelf t c d

/-- Root of the tree containing `i`. -/
def rootOf (t : Table) (i : Int) : Option Int := (rootPath t i).getLast?

/-- Connected components as a label: two nodes are in the same tree iff they have the same root. -/
def sameTree (t : Table) (a b : Int) : Bool :=
  match rootOf t a, rootOf t b with
  | some ra, some rb => ra == rb
  | _, _ => false

/-- Integer square root (for exact integer edge lengths). -/
def isqrt (n : Nat) : Nat :=
  let rec go (fuel lo hi : Nat) : Nat :=
    match fuel with
    | 0 => lo
    | fuel + 1 =>
      if hi ≤ lo + 1 then lo else
      let mid := (lo + hi) / 2
      if mid * mid ≤ n then go fuel mid hi else go fuel lo mid
  go (n + 2) 0 (n + 1)

def sqDist (a b : Node) : Nat :=
  ((a.x - b.x) * (a.x - b.x) + (a.y - b.y) * (a.y - b.y) + (a.z - b.z) * (a.z - b.z)).toNat

/-- Euclidean edge length from coordinates; exact when the squared distance is a perfect square
(the harness generates only such edges). -/
def coordLen (t : Table) (a b : Int) : Nat :=
  match find? t a, find? t b with
  | some na, some nb => isqrt (sqDist na nb)
  | _, _ => 0

end Navis.Forest
