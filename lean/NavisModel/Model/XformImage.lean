import NavisModel.Model.Xform
/-
Model of the IMAGE path of `navis.xform` (C16): `xfm_funcs._xform_image` / `_get_coordinates_map` and the
inverse of a transform sequence it relies on (`TransformSequence.__neg__`, `AffineTransform.__neg__`).
Imports only `Model/Xform.lean` (points, affine maps, `seqApply`); total, computable, exact rationals.

What the code does (and what is modelled, line by line):

* `AffineTransform.__neg__`: `np.linalg.inv` of the homogeneous matrix — linear part adjugate / determinant,
  translation `−A⁻¹ t` (`Aff.inv`).  numpy raises for a singular matrix (`invertible`).
* `TransformSequence.__neg__`: `TransformSequence(*[-t for t in self.transforms[::-1]])` — every member is
  inverted AND the order is reversed (`negSeq`).  `negSeqWith false` is the same comprehension without the
  `[::-1]`; `Props/C16` proves that it is an inverse exactly when the members commute.
* `VoxelNeuron.bbox` (grid based, no connectors): `lo = offset`, `hi = offset + shape · pitch` (`bboxLo/bboxHi`);
  a voxel index `i` stands for the world position `offset + i · pitch` (`worldOf`).
* `_get_coordinates_map(transform, bbox, shape, spacing)`:
  - the surface points of the source box are pushed FORWARD and their min / max taken (`bboxXf`; the model uses
    the 8 corners — for affine maps the subdivision points navis adds are convex combinations of them and cannot
    change a coordinate-wise min / max);
  - `target_voxel_size = |hi' − lo'| / shape` (`targetPitch`); the target grid has the SAME shape;
  - every target index is turned into a world position `idx · target_voxel_size + lo'`, pulled BACK through
    `(-transform).xform`, and converted into a (fractional) source index `(p − lo) / spacing` (`srcIndex`);
* `_xform_image`: `ndimage.map_coordinates(grid, ix_source, order=1)` — tri-linear interpolation, mode
  `'constant'` with `cval = 0`: a coordinate outside `[0, n − 1]` on any axis gives `0` (`sample`);
  the new neuron gets `offset = lo'`, `units = target_voxel_size`, the grid cast back to the input dtype.
-/
namespace Navis.XformImage
open Navis.Xform

/-! ## inverse of an affine map and of a sequence -/

/-- `np.linalg.inv([[A, t], [0, 1]]) = [[A⁻¹, −A⁻¹ t], [0, 1]]`, `A⁻¹` = adjugate / determinant `d`. -/
def invWith (T : Aff) (d : Rat) : Aff :=
  { a11 := (T.a22 * T.a33 - T.a23 * T.a32) / d
    a12 := (T.a13 * T.a32 - T.a12 * T.a33) / d
    a13 := (T.a12 * T.a23 - T.a13 * T.a22) / d
    a21 := (T.a23 * T.a31 - T.a21 * T.a33) / d
    a22 := (T.a11 * T.a33 - T.a13 * T.a31) / d
    a23 := (T.a13 * T.a21 - T.a11 * T.a23) / d
    a31 := (T.a21 * T.a32 - T.a22 * T.a31) / d
    a32 := (T.a12 * T.a31 - T.a11 * T.a32) / d
    a33 := (T.a11 * T.a22 - T.a12 * T.a21) / d
    t1 := -(((T.a22 * T.a33 - T.a23 * T.a32) / d) * T.t1 + ((T.a13 * T.a32 - T.a12 * T.a33) / d) * T.t2
            + ((T.a12 * T.a23 - T.a13 * T.a22) / d) * T.t3)
    t2 := -(((T.a23 * T.a31 - T.a21 * T.a33) / d) * T.t1 + ((T.a11 * T.a33 - T.a13 * T.a31) / d) * T.t2
            + ((T.a13 * T.a21 - T.a11 * T.a23) / d) * T.t3)
    t3 := -(((T.a21 * T.a32 - T.a22 * T.a31) / d) * T.t1 + ((T.a12 * T.a31 - T.a11 * T.a32) / d) * T.t2
            + ((T.a11 * T.a22 - T.a12 * T.a21) / d) * T.t3) }

/-- `AffineTransform.__neg__` (for `det T = 0` numpy raises; `x / 0 = 0` in `Rat`, so theorems carry the guard). -/
def inv (T : Aff) : Aff := invWith T T.det

/-- no member is singular (otherwise `np.linalg.inv` raises `LinAlgError`). -/
def invertible (ts : List Aff) : Bool := ts.all fun T => decide (T.det ≠ 0)

/-- `[-t for t in (self.transforms[::-1] if reversed else self.transforms)]`. -/
def negSeqWith (reversed : Bool) (ts : List Aff) : List Aff :=
  (if reversed then ts.reverse else ts).map inv

/-- **`TransformSequence.__neg__` as written**: invert every member, reverse the order. -/
def negSeq (ts : List Aff) : List Aff := negSeqWith true ts

/-! ## voxel grids -/

def cmul (a b : V3) : V3 := ⟨a.x * b.x, a.y * b.y, a.z * b.z⟩
def cdiv (a b : V3) : V3 := ⟨a.x / b.x, a.y / b.y, a.z / b.z⟩

/-- A `VoxelNeuron` as `_xform_image` sees it: grid shape, `offset`, voxel size (`units_xyz.magnitude`) and the
grid content as a function of the (integer) index; content outside the shape is never weighted. -/
structure Img where
  nx : Nat
  ny : Nat
  nz : Nat
  off : V3
  pitch : V3
  val : Int → Int → Int → Rat

def Img.shapeV (g : Img) : V3 := ⟨(g.nx : Rat), (g.ny : Rat), (g.nz : Rat)⟩

/-- `ix * voxel_size + lo`: world position a (possibly fractional) index stands for. -/
def worldOf (off pitch idx : V3) : V3 := V3.add (cmul idx pitch) off

/-- `bbox[:, 0]` = `offset`. -/
def bboxLo (g : Img) : V3 := g.off

/-- `bbox[:, 1]` = `shape * units + offset`. -/
def bboxHi (g : Img) : V3 := V3.add (cmul g.shapeV g.pitch) g.off

/-- the 8 corners of an axis-aligned box -/
def corners (lo hi : V3) : List V3 :=
  [⟨lo.x, lo.y, lo.z⟩, ⟨hi.x, lo.y, lo.z⟩, ⟨lo.x, hi.y, lo.z⟩, ⟨hi.x, hi.y, lo.z⟩,
   ⟨lo.x, lo.y, hi.z⟩, ⟨hi.x, lo.y, hi.z⟩, ⟨lo.x, hi.y, hi.z⟩, ⟨hi.x, hi.y, hi.z⟩]

def rmin (a b : Rat) : Rat := if a ≤ b then a else b
def rmax (a b : Rat) : Rat := if a ≤ b then b else a

/-- `np.min(…, axis=0)` of one coordinate over a non-empty list (`d` = the first element). -/
def minOf (sel : V3 → Rat) (d : V3) (l : List V3) : Rat := l.foldl (fun m p => rmin m (sel p)) (sel d)
def maxOf (sel : V3 → Rat) (d : V3) (l : List V3) : Rat := l.foldl (fun m p => rmax m (sel p)) (sel d)

/-- `np.vstack([np.min(b_xf, axis=0), np.max(b_xf, axis=0)]).T`: coordinate-wise min and max of a point list. -/
def bboxOfPts : List V3 → V3 × V3
  | [] => (⟨0, 0, 0⟩, ⟨0, 0, 0⟩)
  | p :: ps =>
    (⟨minOf V3.x p ps, minOf V3.y p ps, minOf V3.z p ps⟩, ⟨maxOf V3.x p ps, maxOf V3.y p ps, maxOf V3.z p ps⟩)

/-- mid-point of two points (what `trimesh`'s `subdivide()` adds on every edge of the box mesh) -/
def mid (a b : V3) : V3 := ⟨(a.x + b.x) / 2, (a.y + b.y) / 2, (a.z + b.z) / 2⟩

/-- `bbox_xf`: coordinate-wise min and max of the forward-transformed box points (the 8 corners; the edge mid-points
navis adds do not matter for affine maps: `Props/C16.bbox_midpoints_irrelevant`). -/
def bboxXf (fwd : RowFn) (g : Img) : V3 × V3 := bboxOfPts ((corners (bboxLo g) (bboxHi g)).map fwd)

/-- `target_voxel_size = np.abs((bbox_xf[:, 1] - bbox_xf[:, 0]) / shape)`. -/
def targetPitch (lo' hi' : V3) (g : Img) : V3 :=
  ⟨absRat ((hi'.x - lo'.x) / (g.nx : Rat)), absRat ((hi'.y - lo'.y) / (g.ny : Rat)),
   absRat ((hi'.z - lo'.z) / (g.nz : Rat))⟩

/-- `(coo_source − bbox[:, 0]) / spacing` for the target index `idx`, `coo_source = bwd(idx · tp + lo')`. -/
def srcIndex (bwd : RowFn) (g : Img) (lo' tp idx : V3) : V3 :=
  cdiv (V3.sub (bwd (worldOf lo' tp idx)) (bboxLo g)) g.pitch

/-! ## `map_coordinates(order=1, mode='constant', cval=0)` -/

/-- a coordinate is interpolated only inside `[0, n − 1]`; outside the result is `cval = 0`. -/
def inRange (n : Nat) (u : Rat) : Bool := decide (0 ≤ u) && decide (u ≤ (n : Rat) - 1)

/-- tri-linear interpolation between the 8 neighbours of the cell `(i, j, k)` with fractional parts `f`. -/
def tri (val : Int → Int → Int → Rat) (i j k : Int) (fx fy fz : Rat) : Rat :=
  (1 - fx) * (1 - fy) * (1 - fz) * val i j k + fx * (1 - fy) * (1 - fz) * val (i + 1) j k
  + (1 - fx) * fy * (1 - fz) * val i (j + 1) k + fx * fy * (1 - fz) * val (i + 1) (j + 1) k
  + (1 - fx) * (1 - fy) * fz * val i j (k + 1) + fx * (1 - fy) * fz * val (i + 1) j (k + 1)
  + (1 - fx) * fy * fz * val i (j + 1) (k + 1) + fx * fy * fz * val (i + 1) (j + 1) (k + 1)

def sample (val : Int → Int → Int → Rat) (nx ny nz : Nat) (u : V3) : Rat :=
  if (inRange nx u.x && inRange ny u.y && inRange nz u.z) = true then
    tri val u.x.floor u.y.floor u.z.floor (u.x - (u.x.floor : Rat)) (u.y - (u.y.floor : Rat)) (u.z - (u.z.floor : Rat))
  else 0

/-! ## the transformed image -/

def idxV (i j k : Int) : V3 := ⟨(i : Rat), (j : Rat), (k : Rat)⟩

/-- new `offset` (= `bbox_xf[:, 0]`) -/
def outOff (fwd : RowFn) (g : Img) : V3 := (bboxXf fwd g).1

/-- new voxel size -/
def outPitch (fwd : RowFn) (g : Img) : V3 := targetPitch (bboxXf fwd g).1 (bboxXf fwd g).2 g

/-- content of the target voxel `(i, j, k)` of a target grid with origin `off'` and voxel size `tp` -/
def outValWith (bwd : RowFn) (g : Img) (off' tp : V3) (i j k : Int) : Rat :=
  sample g.val g.nx g.ny g.nz (srcIndex bwd g off' tp (idxV i j k))

/-- the fractional source index the target voxel `(i, j, k)` is resampled from -/
def pull (fwd bwd : RowFn) (g : Img) (i j k : Int) : V3 :=
  srcIndex bwd g (outOff fwd g) (outPitch fwd g) (idxV i j k)

/-- content of the target voxel `(i, j, k)` -/
def outVal (fwd bwd : RowFn) (g : Img) (i j k : Int) : Rat :=
  outValWith bwd g (outOff fwd g) (outPitch fwd g) i j k

/-- **`_xform_image`** for a sequence of affine transforms, with the inverse sequence the code builds
(`negSeqWith true`; the parameter exists so that the un-reversed variant can be stated and refuted). -/
def imageVal (reversed : Bool) (ts : List Aff) (g : Img) (i j k : Int) : Rat :=
  outVal (seqApply ts) (seqApply (negSeqWith reversed ts)) g i j k

def imageOff (ts : List Aff) (g : Img) : V3 := outOff (seqApply ts) g
def imagePitch (ts : List Aff) (g : Img) : V3 := outPitch (seqApply ts) g

/-! ## sparse grids (what travels over the line protocol) -/

structure Vox where
  i : Int
  j : Int
  k : Int
  v : Rat
deriving DecidableEq, Repr

/-- dense view of a sparse voxel list: first entry wins, everything else is `0` -/
def sparseVal (l : List Vox) (i j k : Int) : Rat :=
  match l.find? (fun c => c.i == i && c.j == j && c.k == k) with
  | some c => c.v
  | none => 0

/-- all indices of a grid in C order -/
def allIdx (nx ny nz : Nat) : List (Int × Int × Int) :=
  (List.range nx).flatMap fun (i : Nat) => (List.range ny).flatMap fun (j : Nat) =>
    (List.range nz).map fun (k : Nat) => ((i : Int), (j : Int), (k : Int))

/-- the non-zero voxels of the transformed image, in C order -/
def imageSparse (ts : List Aff) (g : Img) : List Vox :=
  let bwd := seqApply (negSeq ts)      -- computed once (definitionally `imageVal true ts g i j k` per voxel)
  let off' := imageOff ts g
  let tp := imagePitch ts g
  (allIdx g.nx g.ny g.nz).filterMap fun (i, j, k) =>
    let v := outValWith bwd g off' tp i j k
    if v = 0 then none else some ⟨i, j, k, v⟩

/-! ## run-time checkers evaluated on navis' own output -/

def closeV3 (eps : Rat) (a b : V3) : Bool := closeRat eps a.x b.x && closeRat eps a.y b.y && closeRat eps a.z b.z

/-- **pull-back checker**: navis' result (`off'`, `pitch'`, content `val'`) is the modelled image — offset and
voxel size from the forward-transformed box, every voxel the tri-linear sample at the pulled-back position. -/
def imageOK (eps : Rat) (ts : List Aff) (g : Img) (off' pitch' : V3) (val' : Int → Int → Int → Rat) : Bool :=
  let bwd := seqApply (negSeq ts)
  let mo := imageOff ts g
  let mp := imagePitch ts g
  invertible ts && closeV3 eps off' mo && closeV3 eps pitch' mp &&
  (allIdx g.nx g.ny g.nz).all fun (i, j, k) => closeRat eps (val' i j k) (outValWith bwd g mo mp i j k)

def isInt (r : Rat) : Bool := r.den == 1

/-- index of the output grid (`off'`, `pitch'`) on which the FORWARD image of source voxel `(i, j, k)` lands -/
def landIdx (fwd : RowFn) (g : Img) (off' pitch' : V3) (i j k : Int) : V3 :=
  cdiv (V3.sub (fwd (worldOf g.off g.pitch (idxV i j k))) off') pitch'

def inGrid (nx ny nz : Nat) (u : V3) : Bool :=
  isInt u.x && isInt u.y && isInt u.z &&
  decide (0 ≤ u.x) && decide (u.x < (nx : Rat)) && decide (0 ≤ u.y) && decide (u.y < (ny : Rat)) &&
  decide (0 ≤ u.z) && decide (u.z < (nz : Rat))

/-- **forward checker** (does not use any inverse): every listed source voxel whose forward image lands exactly
on a voxel of the output grid is found there with its value. -/
def landsOK (eps : Rat) (fwd : RowFn) (g : Img) (src : List Vox) (off' pitch' : V3)
    (val' : Int → Int → Int → Rat) : Bool :=
  src.all fun c =>
    let u := landIdx fwd g off' pitch' c.i c.j c.k
    if inGrid g.nx g.ny g.nz u then closeRat eps (val' u.x.floor u.y.floor u.z.floor) c.v else true

/-- how many listed source voxels land exactly on an output voxel (evidence: the forward check is not vacuous) -/
def landCount (fwd : RowFn) (g : Img) (src : List Vox) (off' pitch' : V3) : Nat :=
  (src.filter fun c => inGrid g.nx g.ny g.nz (landIdx fwd g off' pitch' c.i c.j c.k)).length

end Navis.XformImage
