/-
Model of the bridging machinery of `navis.transforms` (C08), import-free:

* `TemplateRegistry._transforms` records (`Reg`), `register_transform` / `clear_caches` and the
  `lru_cache` of `bridging_graph` as a small state machine (`RegState`, `register`, `graphCached`);
* `bridging_graph`: a multigraph with one forward edge per bridging registration and one reverse
  edge (carrying `-transform`, weight scaled by `reciprocal`) per *invertible* bridging registration;
* `find_bridging_path`: node checks, the `via` / `avoid` decision logic as the property means it
  (`acceptRepaired`), as a function of the loop body extracted from the CURRENT source (`acceptOf`,
  `findPathG`; the extracted body lives in `Gen/Bridge.lean` and is proved equal to `acceptRepaired`
  in `Props/C08`) and — HISTORICAL — as it was written before the repair `0eaf94d`
  (`acceptAsWritten`), the choice among parallel edges (`sorted(edges, key=weight)[-1]`), a
  fuel-bounded enumerator of simple paths;
* `TransformSequence.xform / __neg__` over rows `Option π` (`none` = a row containing NaN),
  `TransformSequence.__init__ / append` with members that merge into their predecessor (`seqBuild`).

Templates are natural numbers (the harness maps names to indices), transforms are an abstract
type `τ`; `TGroup τ` states the laws the telescoping theorem needs.
-/
namespace Navis.Bridge

/-! ## Transforms as an abstract group -/

/-- Composition / inverse laws of a family of invertible transforms.
`mul a b` means: apply `a` first, then `b`. -/
structure TGroup (τ : Type) where
  mul : τ → τ → τ
  one : τ
  inv : τ → τ
  mul_assoc : ∀ a b c, mul (mul a b) c = mul a (mul b c)
  one_mul : ∀ a, mul one a = a
  mul_one : ∀ a, mul a one = a
  mul_inv : ∀ a, mul a (inv a) = one
  inv_mul : ∀ a, mul (inv a) a = one

/-- Composition of a list of transforms in list order (`TransformSequence`). -/
def prod {τ} (g : TGroup τ) (ts : List τ) : τ := ts.foldl g.mul g.one

/-! ## Registry records and the bridging graph -/

inductive Kind where
  | bridging
  | mirror
deriving DecidableEq, Repr

/-- One `transform_reg(source, target, transform, type, invertible, weight)` record. -/
structure Reg (τ : Type) where
  src : Nat
  tgt : Nat
  xf : τ
  kind : Kind
  invertible : Bool
  weight : Rat
deriving DecidableEq, Repr

/-- One edge of the `MultiDiGraph`.  `ridx` is the position in `_transforms` of the registration
the edge was made from, `inverted` marks the reverse edge (which carries `-transform`). -/
structure GEdge (τ : Type) where
  u : Nat
  v : Nat
  xf : τ
  weight : Rat
  ridx : Nat
  inverted : Bool
deriving DecidableEq, Repr

/-- `bridge = [t for t in self.transforms if t.type == 'bridging']` (with positions). -/
def bridges {τ} (regs : List (Reg τ)) : List (Reg τ × Nat) :=
  regs.zipIdx.filter fun ri => ri.1.kind == Kind.bridging

def fwdEdges {τ} (regs : List (Reg τ)) : List (GEdge τ) :=
  (bridges regs).map fun ri => ⟨ri.1.src, ri.1.tgt, ri.1.xf, ri.1.weight, ri.2, false⟩

/-- `rv_edges`: only for `bridge_inv = [t for t in bridge if t.invertible]`; note the inverse
transform and the scaled weight. -/
def revEdges {τ} (neg : τ → τ) (regs : List (Reg τ)) (k : Rat) : List (GEdge τ) :=
  ((bridges regs).filter fun ri => ri.1.invertible).map fun ri =>
    ⟨ri.1.tgt, ri.1.src, neg ri.1.xf, ri.1.weight * k, ri.2, true⟩

/-- `TemplateRegistry.bridging_graph(reciprocal)`, edges in insertion order.
`recip = none` is a falsy `reciprocal` (`False`); `some k` a number (`True` is `1`); `some 0` is
falsy as well (`if reciprocal:`). -/
def bridgingGraph {τ} (neg : τ → τ) (regs : List (Reg τ)) (recip : Option Rat) : List (GEdge τ) :=
  fwdEdges regs ++
    match recip with
    | none => []
    | some k => if k = 0 then [] else revEdges neg regs k

/-- `G.nodes`. -/
def nodes {τ} (G : List (GEdge τ)) : List Nat :=
  (G.flatMap fun e => [e.u, e.v]).eraseDups

/-- All edges `(a, b, 0), (a, b, 1), …` in key order. -/
def parallel {τ} (G : List (GEdge τ)) (a b : Nat) : List (GEdge τ) :=
  G.filter fun e => e.u == a && e.v == b

/-- `this_edges = sorted(this_edges, key=lambda x: x[-1]); this_edges[-1]` — as written this is the
edge with the HIGHEST weight, the last registered one among ties (`sorted` is stable). -/
def pick {τ} (G : List (GEdge τ)) (a b : Nat) : Option (GEdge τ) :=
  ((parallel G a b).mergeSort fun x y => decide (x.weight ≤ y.weight)).getLast?

/-- The transforms `find_bridging_path` returns for a node path. -/
def pathEdges {τ} (G : List (GEdge τ)) : List Nat → Option (List (GEdge τ))
  | [] => some []
  | [_] => some []
  | a :: b :: rest =>
    match pick G a b, pathEdges G (b :: rest) with
    | some e, some es => some (e :: es)
    | _, _ => none

/-! ## Paths -/

def hasEdge {τ} (G : List (GEdge τ)) (a b : Nat) : Bool := G.any fun e => e.u == a && e.v == b

/-- Consecutive nodes are joined by an edge. -/
def isChain {τ} (G : List (GEdge τ)) : List Nat → Bool
  | [] => true
  | [_] => true
  | a :: b :: rest => hasEdge G a b && isChain G (b :: rest)

def nodupB : List Nat → Bool
  | [] => true
  | a :: l => !l.contains a && nodupB l

/-- `via` and `avoid` as the property means them: all of `via` on the path, none of `avoid`. -/
def acceptRepaired (via avoid : List Nat) (path : List Nat) : Bool :=
  via.all (path.contains ·) && !avoid.any (path.contains ·)

/-- HISTORICAL (the source before the repair `0eaf94d`; the current source is modelled by
`acceptOf Navis.Gen.Bridge.acceptTree`, proved equal to `acceptRepaired`).  The loop body of
`find_bridging_path` AS IT WAS WRITTEN:
```
if via and all([v in path for v in via]):
    if avoid:
        if not any([v in path for v in avoid]): found_good
    else: found_good
elif avoid and not any([v in path for v in avoid]): found_good
```
The `elif` is also reached when `via` is given but NOT all on the path. -/
def acceptAsWritten (via avoid : List Nat) (path : List Nat) : Bool :=
  if !via.isEmpty && via.all (path.contains ·) then
    if !avoid.isEmpty then !avoid.any (path.contains ·) else true
  else if !avoid.isEmpty && !avoid.any (path.contains ·) then true
  else false

/-- **Property checker** evaluated on the path the implementation returns: a simple path from `s`
to `t` in `G` honouring `via` and `avoid`. -/
def checkPath {τ} (G : List (GEdge τ)) (s t : Nat) (via avoid : List Nat) (p : List Nat) : Bool :=
  p.head? == some s && p.getLast? == some t && isChain G p && nodupB p && acceptRepaired via avoid p

inductive FindErr where
  | noRegs       -- ValueError('No bridging registrations available')
  | srcUnknown   -- ValueError('Source ... has no known bridging registrations')
  | tgtUnknown
  | viaUnknown
  | noPath       -- NetworkXNoPath, no path at all (`found_any = False` / shortest_path raised)
  | noGood       -- NetworkXNoPath, paths exist but none is accepted
deriving DecidableEq, Repr

/-- The `for path in nx.all_simple_paths(...)` loop with `found_any` / `found_good`. -/
def searchLoop (accept : List Nat → Bool) (enum : List (List Nat)) : Except FindErr (List Nat) :=
  match enum with
  | [] => .error .noPath
  | _ => match enum.find? accept with
    | some p => .ok p
    | none => .error .noGood

/-- `find_bridging_path` up to the choice of the node path.  `shortest` is what
`nx.shortest_path(G, s, t, weight='weight')` returns (`none` = `NetworkXNoPath`), `enum` what
`nx.all_simple_paths(G, s, t)` yields; `accept` is the loop body. -/
def findPath {τ} (accept : List Nat → List Nat → List Nat → Bool) (G : List (GEdge τ)) (s t : Nat)
    (via avoid : List Nat) (shortest : Option (List Nat)) (enum : List (List Nat)) :
    Except FindErr (List Nat) :=
  if G.isEmpty then .error .noRegs
  else if !(nodes G).contains s then .error .srcUnknown
  else if !(nodes G).contains t then .error .tgtUnknown
  else if via.any fun v => !(nodes G).contains v then .error .viaUnknown
  else if via.isEmpty && avoid.isEmpty then
    match shortest with
    | some p => .ok p
    | none => .error .noPath
  else searchLoop (accept via avoid) enum

/-- Successors of `a` (with multiplicity, in edge insertion order). -/
def succs {τ} (G : List (GEdge τ)) (a : Nat) : List Nat := (G.filter fun e => e.u == a).map (·.v)

/-- Depth-first enumeration of the simple paths from `cur` to `t` avoiding `vis`, at most `fuel`
nodes long (the model's stand-in for `nx.all_simple_paths`; a path ends at the first visit of `t`). -/
def pathsFrom {τ} (G : List (GEdge τ)) (t : Nat) : Nat → Nat → List Nat → List (List Nat)
  | 0, _, _ => []
  | fuel + 1, cur, vis =>
    if cur = t then [[t]]
    else ((succs G cur).filter fun n => !(n == cur || vis.contains n)).flatMap fun n =>
      (pathsFrom G t fuel n (cur :: vis)).map (cur :: ·)

def simplePaths {τ} (G : List (GEdge τ)) (s t : Nat) : List (List Nat) :=
  pathsFrom G t ((nodes G).length + 1) s []

/-- Smallest weight among the parallel edges `a → b` (what networkx' weight function uses on a
multigraph). -/
def minParallel {τ} (G : List (GEdge τ)) (a b : Nat) : Option Rat :=
  match (parallel G a b).map (·.weight) with
  | [] => none
  | w :: ws => some (ws.foldl (fun m x => if x < m then x else m) w)

def pathWeight {τ} (G : List (GEdge τ)) : List Nat → Option Rat
  | [] => some 0
  | [_] => some 0
  | a :: b :: rest =>
    match minParallel G a b, pathWeight G (b :: rest) with
    | some w, some ws => some (w + ws)
    | _, _ => none

/-- Smallest total weight over the simple paths `s → t` (`none` = no path). -/
def minWeight {τ} (G : List (GEdge τ)) (s t : Nat) : Option Rat :=
  match (simplePaths G s t).filterMap (pathWeight G) with
  | [] => none
  | w :: ws => some (ws.foldl (fun m x => if x < m then x else m) w)

/-- Admissible answers of a query according to the property. -/
def admissible {τ} (G : List (GEdge τ)) (s t : Nat) (via avoid : List Nat) : List (List Nat) :=
  (simplePaths G s t).filter (acceptRepaired via avoid)

/-! ## `register_transform`, `clear_caches` and the `lru_cache` of `bridging_graph` -/

/-- Registry state: the records and the memo table of `bridging_graph` (keyed by `reciprocal`). -/
structure RegState (τ : Type) where
  regs : List (Reg τ)
  cache : List (Option Rat × List (GEdge τ))

def RegState.empty {τ} : RegState τ := ⟨[], []⟩

/-- `register_transform(..., skip_existing)`: append unless an equal record exists, then
`self.clear_caches()` (always). -/
def register {τ} [DecidableEq τ] (st : RegState τ) (r : Reg τ) (skipExisting : Bool) : RegState τ :=
  { regs := if !skipExisting || !st.regs.contains r then st.regs ++ [r] else st.regs
    cache := [] }

/-- Look a key up in the memo table. -/
def cacheGet {γ} : List (Option Rat × γ) → Option Rat → Option γ
  | [], _ => none
  | (k', g) :: c, k => if k' = k then some g else cacheGet c k

/-- A call of the memoised `bridging_graph(reciprocal)`. -/
def graphCached {τ} (neg : τ → τ) (st : RegState τ) (recip : Option Rat) :
    List (GEdge τ) × RegState τ :=
  match cacheGet st.cache recip with
  | some g => (g, st)
  | none =>
    let g := bridgingGraph neg st.regs recip
    (g, { st with cache := (recip, g) :: st.cache })

/-- Operations of a registry history. -/
inductive Op (τ : Type) where
  | reg (r : Reg τ) (skipExisting : Bool)
  | query (recip : Option Rat)

/-- Run a history; collects the graph every `query` returned. -/
def runOps {τ} [DecidableEq τ] (neg : τ → τ) :
    RegState τ → List (Op τ) → List (List (GEdge τ)) × RegState τ
  | st, [] => ([], st)
  | st, .reg r sk :: ops => runOps neg (register st r sk) ops
  | st, .query k :: ops =>
    let (g, st') := graphCached neg st k
    let (gs, st'') := runOps neg st' ops
    (g :: gs, st'')

/-! ## `TransformSequence` -/

/-- What a member transform does to an `(M, 3)` array of NaN-free rows: it returns `M` rows, some
of which may be NaN (`none`). -/
abbrev ArrXf (π : Type) := List π → List (Option π)

/-- A transform that treats every row on its own. -/
def liftRow {π} (f : π → Option π) : ArrXf π := fun l => l.map f

/-- `xf[~is_nan] = out`: write the rows of `out` back into the non-NaN positions. -/
def scatter {π} : List (Option π) → List (Option π) → List (Option π)
  | [], _ => []
  | none :: rs, out => none :: scatter rs out
  | some _ :: rs, o :: out => o :: scatter rs out
  | some p :: rs, [] => some p :: scatter rs []  -- shape mismatch (numpy raises); never reached for `liftRow`

/-- One iteration of the loop in `TransformSequence.xform`:
`is_nan = any(isnan(xf), axis=1); if all(is_nan): continue; xf[~is_nan] = tr.xform(xf[~is_nan])`. -/
def seqStep {π} (rows : List (Option π)) (t : ArrXf π) : List (Option π) :=
  if rows.all Option.isNone then rows else scatter rows (t (rows.filterMap id))

/-- `TransformSequence.xform`. -/
def seqXform {π} (ts : List (ArrXf π)) (rows : List (Option π)) : List (Option π) :=
  ts.foldl seqStep rows

/-- What the sequence should do to one row: members in order, NaN stops everything. -/
def rowSeq {π} (fs : List (π → Option π)) (r : Option π) : Option π :=
  fs.foldl (fun q f => q.bind f) r

/-- `TransformSequence.__neg__`: `[-t for t in self.transforms[::-1]]`. -/
def negSeq {τ} (neg : τ → τ) (ts : List τ) : List τ := ts.reverse.map neg

/-! ## The code of the CURRENT source, parameterised by what the translator extracts

`acceptAsWritten` above is HISTORICAL: it is the loop body of `find_bridging_path` before the repair
`0eaf94d` (kept because `Props/C08` proves it violates the property, and as a regression witness).
The loop body of the current source is re-extracted on every run (`Gen/Bridge.lean`,
`Navis.Gen.Bridge.acceptTree`) as a Boolean function of the four facts it tests; `acceptOf` turns such
a function into a loop body, `Props/C08.source_decision_is_repaired` proves the result equal to
`acceptRepaired`. -/

/-- A loop body given as a function of: `via` truthy, all `via` on the path, `avoid` truthy, some
`avoid` on the path. -/
def acceptOf (f : Bool → Bool → Bool → Bool → Bool) (via avoid path : List Nat) : Bool :=
  f (!via.isEmpty) (via.all (path.contains ·)) (!avoid.isEmpty) (avoid.any (path.contains ·))

/-- The historical loop body as such a function (`acceptAsWritten = acceptOf asWrittenTree`). -/
def asWrittenTree (vne allv ane anya : Bool) : Bool :=
  if vne && allv then (if ane then !anya else true) else if ane && !anya then true else false

/-- `find_bridging_path` with the guard of the shortest-path short cut as a parameter as well. -/
def findPathG {τ} (shortcut : Bool → Bool → Bool) (accept : List Nat → List Nat → List Nat → Bool)
    (G : List (GEdge τ)) (s t : Nat) (via avoid : List Nat) (shortest : Option (List Nat))
    (enum : List (List Nat)) : Except FindErr (List Nat) :=
  if G.isEmpty then .error .noRegs
  else if !(nodes G).contains s then .error .srcUnknown
  else if !(nodes G).contains t then .error .tgtUnknown
  else if via.any fun v => !(nodes G).contains v then .error .viaUnknown
  else if shortcut (!via.isEmpty) (!avoid.isEmpty) then
    match shortest with
    | some p => .ok p
    | none => .error .noPath
  else searchLoop (accept via avoid) enum

/-- `bridging_graph` with the weight expressions as parameters (`fw` forward, `rw` reverse). -/
def bridgingGraphOf {τ} (fw : Rat → Rat) (rw : Rat → Rat → Rat) (neg : τ → τ) (regs : List (Reg τ))
    (recip : Option Rat) : List (GEdge τ) :=
  ((bridges regs).map fun ri => ⟨ri.1.src, ri.1.tgt, ri.1.xf, fw ri.1.weight, ri.2, false⟩) ++
    match recip with
    | none => []
    | some k => if k = 0 then [] else
      ((bridges regs).filter fun ri => ri.1.invertible).map fun ri =>
        ⟨ri.1.tgt, ri.1.src, neg ri.1.xf, rw ri.1.weight k, ri.2, true⟩

/-- `register_transform` with the append condition and "clears the caches" as parameters. -/
def registerOf {τ} [DecidableEq τ] (cond : Bool → Bool → Bool) (clears : Bool) (st : RegState τ)
    (r : Reg τ) (skipExisting : Bool) : RegState τ :=
  { regs := if cond skipExisting (st.regs.contains r) then st.regs ++ [r] else st.regs
    cache := if clears then [] else st.cache }

/-- `TransformSequence.__neg__` with "reverses the order" / "negates the members" as parameters. -/
def negSeqOf {τ} (reverses negates : Bool) (neg : τ → τ) (ts : List τ) : List τ :=
  (if reverses then ts.reverse else ts).map (if negates then neg else id)

/-! ## `TransformSequence.__init__` / `append`: merging of appendable members -/

/-- `append` of one member: `self.transforms[-1].append(tr)` is tried first (`merge l t = some c`: it
succeeded and the last member now is `c`; `none`: `NotImplementedError`), otherwise the member is
added to the list. -/
def seqAppend {τ} (merge : τ → τ → Option τ) (ts : List τ) (t : τ) : List τ :=
  match ts.getLast? with
  | none => [t]
  | some l =>
    match merge l t with
    | some c => ts.dropLast ++ [c]
    | none => ts ++ [t]

/-- `TransformSequence(*transforms)`. -/
def seqBuild {τ} (merge : τ → τ → Option τ) (ts : List τ) : List τ := ts.foldl (seqAppend merge) []

/-! ## Sequences of sequences, and when a registered transform is invertible -/

/-- An argument of `TransformSequence(...)` / `append(...)`: a single transform, or a
`TransformSequence` / list, which is unpacked into its members (sequences of sequences flatten). -/
inductive Item (τ : Type) where
  | one (t : τ)
  | many (ts : List τ)

def Item.members {τ} : Item τ → List τ
  | .one t => [t]
  | .many ts => ts

/-- `append(item)`: every member goes through `seqAppend` (merging is still tried for each). -/
def seqAppendItem {τ} (merge : τ → τ → Option τ) (ts : List τ) (it : Item τ) : List τ :=
  it.members.foldl (seqAppend merge) ts

/-- `TransformSequence(*items)` with transforms and sequences mixed. -/
def seqBuildItems {τ} (merge : τ → τ → Option τ) (items : List (Item τ)) : List τ :=
  items.foldl (seqAppendItem merge) []

/-- All present, in order; `none` as soon as one is missing. -/
def optAll {α} : List (Option α) → Option (List α)
  | [] => some []
  | none :: _ => none
  | some a :: l => (optAll l).map (a :: ·)

/-- `TransformSequence.__neg__` with members that may lack `__neg__` (`neg? t = none`: Python raises
`TypeError: bad operand type for unary -`). -/
def negSeq? {τ} (neg? : τ → Option τ) (ts : List τ) : Option (List τ) :=
  optAll (ts.reverse.map neg?)

/-- What `register_transform` looks at: a plain transform (does its class define `__neg__`?) or a
`TransformSequence` (for each member: does its class define `__neg__`?). -/
inductive TDesc where
  | plain (hasNeg : Bool)
  | seq (members : List Bool)
deriving DecidableEq, Repr

/-- The `invertible` flag of the record, with the computation of the source as a parameter
(`f isSeq selfNeg allNeg`); `seqNeg`: the class `TransformSequence` defines `__neg__`. -/
def recordInvertible (f : Bool → Bool → Bool → Bool) (seqNeg : Bool) : TDesc → Bool
  | .plain h => f false h h
  | .seq ms => f true seqNeg (ms.all id)

end Navis.Bridge
