import NavisModel.Model.Forest
import NavisModel.Model.Ops
import NavisModel.Model.Dist
/-!
Healing and stitching (C11): `manipulation._stitch_mst` / `heal_skeleton` / `stitch_skeletons` /
`combine_neurons` / `break_fragments` / `drop_fluff` and `graph_utils.rewire_skeleton`, written the way
the navis code does it.  Import-free (core Lean only), total, computable.

* fragment map: node → id of the root of its tree (`rootOf`), i.e. the connected components;
* candidate nodes: `min_size` filter on fragments, then `LEAFS` (`type ∈ {end, root}`), then `mask`;
* per pair of fragments the nearest pair of candidate nodes on SQUARED integer distances
  (`kd.query(..., distance_upper_bound=max_dist)`: strictly closer than `max_dist`);
* Kruskal (`nx.minimum_spanning_edges`) on that quotient graph: a fold over the candidate edges sorted by
  (squared length, tie-break) with a union–find labelling of the fragments;
* `rewire`: parents are re-derived from the undirected edge set by a traversal that starts at the old
  roots in table order (navis: `x.root[0]`, then one node per remaining component);
* `stitch`: id-clash remap of node ids, parents, connectors and tags with the running `seen` set.
-/
namespace Navis.Heal
open Navis.Forest

/-! ### fragments (connected components) -/

/-- Fragment label of node `i`: the id of the root of its tree (`-1` for an absent node). -/
def fragOf (t : Table) (i : Int) : Int := (rootOf t i).getD (-1)

/-- Node ids of the fragment with root `r`, in table order. -/
def fragment (t : Table) (r : Int) : List Int := (ids t).filter fun i => fragOf t i == r

/-- The connected components, one per root, in table order of the roots. -/
def fragments (t : Table) : List (List Int) := (roots t).map (fragment t)

def fragSize (t : Table) (r : Int) : Nat := (fragment t r).length

/-! ### candidate nodes -/

inductive Method where
  | all
  | leafs
  | list (allowed : List Int)   -- `stitch_skeletons(method=[ids])`: only these nodes (ids of the combined table)
deriving Repr

structure Opts where
  method : Method := .all
  /-- `max_dist²`; a pair is usable iff its squared distance is strictly smaller. -/
  maxD2 : Option Nat := none
  minSize : Option Nat := none
  mask : Option (List Int) := none
deriving Repr

/-- `type ∈ {end, root}` (the `type` column is the current classification). -/
def isLeafish (t : Table) (n : Node) : Bool :=
  let l := classifyNode t n
  l == .end_ || l == .root

def isCand (t : Table) (o : Opts) (n : Node) : Bool :=
  (match o.minSize with
    | none => true
    | some k => decide (k ≤ fragSize t (fragOf t n.id))) &&
  (match o.method with
    | .all => true
    | .leafs => isLeafish t n
    | .list l => l.contains n.id) &&
  (match o.mask with
    | none => true
    | some m => m.contains n.id)

def cands (t : Table) (o : Opts) : Table := t.filter (isCand t o)

/-! ### candidate edges of the fragment quotient graph -/

/-- A candidate bridging edge: squared length, end nodes and their fragments. -/
structure CEdge where
  d2 : Nat
  a : Int
  b : Int
  fa : Int
  fb : Int
deriving Repr, DecidableEq, Inhabited

/-- Strict order by (squared length, then end nodes) — the tie-break is the model's choice; the
harness only compares cases in which all squared lengths differ. -/
def CEdge.lt (e f : CEdge) : Bool :=
  decide (e.d2 < f.d2) || (e.d2 == f.d2 && (decide (e.a < f.a) || (e.a == f.a && decide (e.b < f.b))))

/-- First minimal element. -/
def best : List CEdge → Option CEdge
  | [] => none
  | e :: rest =>
    match best rest with
    | none => some e
    | some m => if m.lt e then some m else some e

/-- All node pairs between the candidate nodes of two fragments. -/
def pairEdges (ca cb : Table) (fa fb : Int) : List CEdge :=
  ca.flatMap fun na => cb.map fun nb => ⟨sqDist na nb, na.id, nb.id, fa, fb⟩

/-- `itertools.combinations(l, 2)`. -/
def pairs : List Int → List (Int × Int)
  | [] => []
  | x :: xs => xs.map (fun y => (x, y)) ++ pairs xs

def withinMax (o : Opts) (e : CEdge) : Bool :=
  match o.maxD2 with
  | none => true
  | some m => decide (e.d2 < m)

/-- One edge per pair of fragments: the nearest pair of candidate nodes, kept when strictly closer
than `max_dist`. -/
def quotientEdges (t : Table) (o : Opts) : List CEdge :=
  let c := cands t o
  (pairs (roots t)).filterMap fun p =>
    match best (pairEdges (c.filter fun n => fragOf t n.id == p.1) (c.filter fun n => fragOf t n.id == p.2) p.1 p.2) with
    | none => none
    | some e => if withinMax o e then some e else none

/-! ### Kruskal on the quotient graph -/

/-- Stable sort by `CEdge.lt`. -/
def sortEdges (l : List CEdge) : List CEdge := sortBy (fun y x => !x.lt y) l

/-- Union of the classes of `x` and `y` in a labelling. -/
def merge (comp : Int → Int) (x y : Int) : Int → Int := fun i => if comp i = comp y then comp x else comp i

structure KState where
  comp : Int → Int
  added : List CEdge

def kStep (s : KState) (e : CEdge) : KState :=
  if s.comp e.fa = s.comp e.fb then s else ⟨merge s.comp e.fa e.fb, s.added ++ [e]⟩

def kInit : KState := ⟨id, []⟩

def kruskal (es : List CEdge) : List CEdge := ((sortEdges es).foldl kStep kInit).added

/-! ### rewire (`graph_utils.rewire_skeleton`) -/

def hasKey (vis : List (Int × Int)) (i : Int) : Bool := vis.any fun e => e.1 == i

/-- First edge with exactly one visited end: `(new node, its parent)`. -/
def growStep (E : List (Int × Int)) (vis : List (Int × Int)) : Option (Int × Int) :=
  E.findSome? fun e =>
    if hasKey vis e.1 && !hasKey vis e.2 then some (e.2, e.1)
    else if hasKey vis e.2 && !hasKey vis e.1 then some (e.1, e.2)
    else none

/-- Grow the visited set along edges until no edge leaves it. -/
def grow (E : List (Int × Int)) : Nat → List (Int × Int) → List (Int × Int)
  | 0, vis => vis
  | f + 1, vis =>
    match growStep E vis with
    | none => vis
    | some p => grow E f (vis ++ [p])

/-- Traversal: every not yet visited node of `order` starts a new tree (parent `-1`). -/
def traverse (E : List (Int × Int)) (n : Nat) (order : List Int) : List (Int × Int) :=
  order.foldl (fun vis r => if hasKey vis r then vis else grow E n (vis ++ [(r, -1)])) []

/-- New parent column from the traversal (`lop.get(x, -1)`). -/
def reparent (t : Table) (vis : List (Int × Int)) : Table :=
  t.map fun n => { n with parent := lookupD vis n.id (-1) }

/-- Re-derive the parent column from an undirected edge list (edges with an end outside the table are
ignored); the old roots are tried first, in table order.  `rewire_skeleton` first reduces the graph
to a spanning forest; for the acyclic graphs healing produces this is the identity. -/
def rewire (t : Table) (E : List (Int × Int)) : Table :=
  let E' := E.filter fun e => (ids t).contains e.1 && (ids t).contains e.2
  classify (reparent t (traverse E' t.length (roots t ++ ids t)))

/-! ### heal (`_stitch_mst`, `heal_skeleton`) -/

/-- The bridging edges healing adds. -/
def healAdded (t : Table) (o : Opts) : List CEdge :=
  if (roots t).length ≤ 1 then [] else kruskal (quotientEdges t o)

def addedU (es : List CEdge) : List (Int × Int) := es.map fun e => uedge e.a e.b

/-- `_stitch_mst`: a single fragment is returned untouched. -/
def heal (t : Table) (o : Opts) : Table :=
  if (roots t).length ≤ 1 then t else rewire t (uedges t ++ addedU (healAdded t o))

/-- Stable sort of id lists by decreasing length (`sorted(cc, key=len, reverse=True)`). -/
def sortBySize (l : List (List Int)) : List (List Int) := sortBy (fun y x => decide (x.length ≤ y.length)) l

/-- `drop_disc=True`: keep only the largest remaining fragment. -/
def healDrop (t : Table) (o : Opts) : Table :=
  let h := heal t o
  if (roots h).length ≤ 1 then h else
    match sortBySize (fragments h) with
    | [] => h
    | f :: _ => subsetIds h f

/-! ### break_fragments / drop_fluff -/

/-- `break_fragments`: components by decreasing size, optionally only those with `≥ min_size` nodes,
each turned into a neuron by `subset_neuron`. -/
def breakFragments (t : Table) (minSize : Nat) : List Table :=
  ((sortBySize (fragments t)).filter fun f => decide (minSize ≤ f.length)).map (subsetIds t)

/-- `drop_fluff`: `keep` = `(num, den)`: keep components with `len * den ≥ num` (`keep_size ≥ 1`: `(k, 1)`;
a fraction `p/q` of `n` nodes: `(n*p, q)`); then the `n_largest` first; default: the largest only. -/
def dropFluff (t : Table) (keep : Option (Nat × Nat)) (nLargest : Option Nat) : Table :=
  let cc := sortBySize (fragments t)
  let sel : List (List Int) :=
    match keep, nLargest with
    | some k, none => cc.filter fun c => decide (k.1 ≤ c.length * k.2)
    | some k, some n => (cc.filter fun c => decide (k.1 ≤ c.length * k.2)).take n
    | none, some n => cc.take n
    | none, none => cc.take 1
  subsetIds t sel.flatten

/-! ### stitch (`stitch_skeletons`, `combine_neurons`) -/

/-- A skeleton with its connector table `(connector_id, node_id)` and tags `(tag, node ids)`. -/
structure Skel where
  nodes : Table
  conns : List (Int × Int) := []
  tags : List (Int × List Int) := []
deriving Repr

/-- `new_map.get(x, x)`. -/
def remapId (m : List (Int × Int)) (i : Int) : Int := lookupD m i i

def remapNode (m : List (Int × Int)) (n : Node) : Node :=
  { n with id := remapId m n.id, parent := remapId m n.parent }

/-- Node ids, parent ids, connector node ids and the node ids in the tag lists all go through the same
map.  (Historical: before the `fix:` commit for C11 navis applied the map to the tag *names* instead of
the tagged node ids and appended the master's tag lists to themselves.) -/
def remapSkel (m : List (Int × Int)) (s : Skel) : Skel :=
  { nodes := s.nodes.map (remapNode m)
    conns := s.conns.map fun c => (c.1, remapId m c.2)
    tags := s.tags.map fun tg => (tg.1, tg.2.map (remapId m)) }

def maxOf (l : List Int) : Int := l.foldl max 0

/-- The map for one non-master skeleton: ids already seen get fresh ids `max(seen ∪ this) + 1 …`. -/
def clashMap (seen : List Int) (this : List Int) : List (Int × Int) :=
  let clash := this.filter fun i => seen.contains i
  let base := maxOf (seen ++ this) + 1
  clash.zipIdx.map fun ck => (ck.1, base + (ck.2 : Int))

/-- One iteration of the remap loop: returns the new `seen` and the remapped skeleton. -/
def stitchOne (seen : List Int) (s : Skel) : List Int × Skel :=
  let this := ids s.nodes
  let m := clashMap seen this
  (seen ++ this ++ m.map (·.2), remapSkel m s)

/-- The loop over all skeletons, skipping the master (index `mIx`). -/
def stitchGo (mIx : Nat) : Nat → List Int → List Skel → List Skel
  | _, _, [] => []
  | i, seen, s :: rest =>
    if i = mIx then s :: stitchGo mIx (i + 1) seen rest
    else (stitchOne seen s).2 :: stitchGo mIx (i + 1) (stitchOne seen s).1 rest

def stitchRemap (mIx : Nat) (l : List Skel) : List Skel :=
  stitchGo mIx 0 (match l[mIx]? with | some m => ids m.nodes | none => []) l

inductive Master where
  | first
  | largest
deriving Repr

/-- Index of the first skeleton with the most nodes. -/
def largestIx : List Skel → Nat
  | [] => 0
  | s :: rest =>
    let k := largestIx rest
    match rest[k]? with
    | some r => if s.nodes.length < r.nodes.length then k + 1 else 0
    | none => 0

def masterIx (m : Master) (l : List Skel) : Nat :=
  match m with
  | .first => 0
  | .largest => largestIx l

/-- Append a list of node ids to a tag, keeping first-appearance order of the tags. -/
def addTag (acc : List (Int × List Int)) (tg : Int × List Int) : List (Int × List Int) :=
  if acc.any (fun e => e.1 == tg.1) then acc.map fun e => if e.1 == tg.1 then (e.1, e.2 ++ tg.2) else e
  else acc ++ [tg]

def mergeTags (l : List (Int × List Int)) : List (Int × List Int) := l.foldl addTag []

/-- Node, connector and tag tables concatenated in list order (`method='NONE'`, `combine_neurons`). -/
def combine (mIx : Nat) (l : List Skel) : Skel :=
  let r := stitchRemap mIx l
  { nodes := r.flatMap (·.nodes), conns := r.flatMap (·.conns), tags := mergeTags (r.flatMap (·.tags)) }

/-- `stitch_skeletons(method ≠ 'NONE')`: combine, then heal the combined table. -/
def stitch (mIx : Nat) (l : List Skel) (o : Opts) : Skel :=
  let c := combine mIx l
  { c with nodes := heal c.nodes o }

/-! ### property checker evaluated on the implementation's own output -/

def sameCoords (t u : Table) : Bool :=
  t.map (fun n => (n.id, n.x, n.y, n.z)) == u.map (fun n => (n.id, n.x, n.y, n.z))

/-- New undirected edges of `u` relative to `t`. -/
def newEdges (t u : Table) : List (Int × Int) := (uedges u).filter fun e => !(uedges t).contains e

def edgeD2 (t : Table) (e : Int × Int) : Option Nat :=
  match find? t e.1, find? t e.2 with
  | some a, some b => some (sqDist a b)
  | _, _ => none

/-- `u` is an admissible healing of `t`: same rows (ids, coordinates, order), a well-formed forest, every
old edge still there, one new edge per merged fragment, and no new edge longer than `max_dist`
(what the property demands; the code is stricter: `<`). -/
def healOKB (t u : Table) (maxD2 : Option Nat) : Bool :=
  sameCoords t u && wfB u &&
  (uedges t).all (fun e => (uedges u).contains e) &&
  decide ((newEdges t u).length + (roots u).length = (roots t).length) &&
  (newEdges t u).all fun e =>
    match maxD2, edgeD2 t e with
    | none, some _ => true
    | some m, some d => decide (d ≤ m)
    | _, none => false

end Navis.Heal
