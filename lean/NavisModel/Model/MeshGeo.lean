/-
Shortest-path distances on a small undirected weighted graph (Bellman–Ford over an edge list): the definition
`navis.geodesic_matrix(MeshNeuron)` is compared with (vertex indices as labels; C05 second pass, correspondence
only — the property statement is about skeletons).  Import-free, total, computable.
-/
namespace Navis.MeshGeo

def getD (d : List (Option Nat)) (i : Nat) : Option Nat :=
  match d[i]? with
  | some v => v
  | none => none

def better (old : Option Nat) (cand : Option Nat) : Option Nat :=
  match old, cand with
  | some a, some b => some (if b < a then b else a)
  | none, c => c
  | o, none => o

def relaxEdge (d : List (Option Nat)) (e : Nat × Nat × Nat) : List (Option Nat) :=
  let a := e.1; let b := e.2.1; let w := e.2.2
  let da := getD d a
  let db := getD d b
  let d1 := d.set b (better db (da.map (· + w)))
  d1.set a (better (getD d1 a) (db.map (· + w)))

def round (edges : List (Nat × Nat × Nat)) (d : List (Option Nat)) : List (Option Nat) := edges.foldl relaxEdge d

def iter (edges : List (Nat × Nat × Nat)) : Nat → List (Option Nat) → List (Option Nat)
  | 0, d => d
  | k + 1, d => iter edges k (round edges d)

/-- Distances from `s` to all `n` vertices (`none` = unreachable). -/
def sssp (n : Nat) (edges : List (Nat × Nat × Nat)) (s : Nat) : List (Option Nat) :=
  iter edges n ((List.replicate n (none : Option Nat)).set s (some 0))

end Navis.MeshGeo
