/-!
# C03 — what a call WITHOUT `inplace` may leave behind in its input: the whitelist

Import-free.  The property allows "the single documented annotation column that analysis functions add".  This file is the
hand-written statement of which function documents which annotation — per function, per table column (`col:<name>`), per
attribute (`attr:<name>`) — and under which option.  The translator (`translator/gen_inputwrites.py` →
`Gen/InputWrites.lean`) extracts from the CURRENT source every write through the first parameter of every public function
that takes no `inplace` flag; `Props/C03.input_writes_whitelisted` proves the extracted list is inside this whitelist.

Entries are `(function key, kind of write, name)` with kind `col` (table column), `attr` (attribute), `call` (in-place call on
the input), `via` (input handed to another function of the list); keys are `<file under navis/>:<function>`.
-/
namespace Navis.InputWrites

/-- Documented annotations of the input (docstring says the column / attribute is added to the neuron that was passed in). -/
def documented : List (String × String × String) := [
  ("morpho/mmetrics.py:strahler_index", "col", "strahler_index"),
  ("morpho/mmetrics.py:segment_analysis", "via", "strahler_index"),            -- "adds `strahler_index` to the node table"
  ("morpho/mmetrics.py:flow_centrality", "col", "flow_centrality"),
  ("morpho/mmetrics.py:synapse_flow_centrality", "col", "synapse_flow_centrality"),
  ("morpho/mmetrics.py:synapse_flow_centrality", "attr", "centrality_method"),   -- bookkeeping of the same annotation (a TEMP_ATTR)
  ("morpho/mmetrics.py:bending_flow", "col", "bending_flow"),
  ("morpho/mmetrics.py:arbor_segregation_index", "col", "segregation_index"),
  ("morpho/mmetrics.py:betweeness_centrality", "col", "betweenness"),
  -- only under the documented non-default option `label_only=True` / `labels_only=True`
  ("morpho/manipulation.py:split_axon_dendrite", "col", "compartment"),
  ("morpho/manipulation.py:break_fragments", "col", "fragment"),
  ("morpho/manipulation.py:break_fragments", "attr", "fragments")
]

/- HISTORICAL: until the repairs a77a44b..ad739bb this file also carried a list `knownDefects` of undocumented writes
   (`split_into_fragments` / `persistence_points` rerooting their input under `reroot_soma=True` / `remove_cbf=True`,
   `persistence_vector_plot` through the latter, `average_skeletons` leaving a `tree` attribute on every input neuron).  They are
   repaired in navis; the whitelist has no exceptions any more, so each of them is an ordinary violation if it returns. -/

/-- The first argument is not a neuron on the path that writes (a list of plain records built by the caller). -/
def notANeuron : List (String × String × String) := [
  ("morpho/mmetrics.py:segregation_index", "col", "total_syn")
]

def allowed (w : String × String × String) : Bool :=
  documented.contains w || notANeuron.contains w

/-- the documented node-table annotation columns of a function (what the sweep whitelists, per function and per column) -/
def annotationsOf (key kind : String) : List String :=
  (documented.filter fun p => p.1 == key && p.2.1 == kind).map (·.2.2)

end Navis.InputWrites
