import NavisModel.Model.Ops
import NavisModel.Model.Dist
/-!
# Model of `navis.resample_skeleton` (C13) — import-free, total, computable

`resample_skeleton(x, resample_to)` iterates over `x.small_segments` (each runs child → parent from a
leaf / branch point to the next branch point / root).  For one segment with cumulative arc length
`dist` it

* keeps only the two end nodes when `dist[-1] < resample_to`;
* otherwise takes `n = np.round(dist[-1] / resample_to)` (ties to even) sample positions
  `np.linspace(0, dist[-1], n)`, interpolates `x, y, z, radius` linearly over arc length
  (`scipy.interpolate.interp1d(kind='linear')` = `np.interp`), keeps the ids of the two end nodes and
  gives the `n - 2` interior samples the fresh ids `max_tn_id + i`; then `max_tn_id += len(new_ids)`.

The rows `(new_ids[i], new_ids[i+1])` of all segments plus the original root rows form the new node
table (duplicates dropped, first occurrence wins); soma / connectors / tags are re-attached to the
nearest new node (`cKDTree.query`).

The model separates **structure** (`resampleStruct`: ids and parent links, over `Forest.Table`) from
**geometry** (`polyAt`: point at arc length `s` on a polyline, over `Rat`).
-/
namespace Navis.Resample
open Navis.Forest

/-! ## rounding and the per-segment node count -/

/-- numpy `round` (C `rint`): nearest integer, exact ties go to the even neighbour. -/
def roundHalfEven (q : Rat) : Int :=
  if q - (q.floor : Rat) < 1 / 2 then q.floor
  else if 1 / 2 < q - (q.floor : Rat) then q.floor + 1
  else if q.floor % 2 = 0 then q.floor else q.floor + 1

/-- What the loop does with a segment of arc length `total`: `none` = "path is too short, just keep the
first and last node"; `some n` = `n` sample positions `np.linspace(0, total, n)`. -/
def sampleCount (total res : Rat) : Option Nat :=
  if total < res then none else some (roundHalfEven (total / res)).toNat

/-- Number of fresh interior nodes: `range(len(new_dist) - 2)`. -/
def interior : Option Nat → Nat
  | none => 0
  | some n => n - 2

/-! ## structure -/

/-- `[base, base+1, …, base+k-1]` — the ids `max_tn_id + i`. -/
def fresh (base : Int) (k : Nat) : List Int := (List.range k).map fun (i : Nat) => base + (i : Int)

/-- `new_ids = concatenate(seg[:1], fresh, seg[-1:])`. -/
def newIds (first last base : Int) (k : Nat) : List Int := first :: (fresh base k ++ [last])

/-- `zip(new_ids[:-1], new_ids[1:])`: `(node, parent)` pairs along a chain. -/
def linkPairs : List Int → List (Int × Int)
  | a :: b :: rest => (a, b) :: linkPairs (b :: rest)
  | _ => []

/-- What one segment contributes: its two anchors, the value of `max_tn_id` when it was processed and
the number `k` of fresh interior nodes. -/
structure SegOut where
  first : Int
  last : Int
  base : Int
  k : Nat
deriving Repr, DecidableEq

def segFirst (s : List Int) : Int := s.headD (-1)
def segLast (s : List Int) : Int := s.getLastD (-1)

/-- The loop over the segments, threading `max_tn_id`.  A collapsed segment (`cnt = none`) leaves the
counter alone; a resampled one advances it by `len(new_ids) = k + 2`. -/
def plan (cnt : List Int → Option Nat) : List (List Int) → Int → List SegOut
  | [], _ => []
  | s :: rest, base =>
    match cnt s with
    | none => ⟨segFirst s, segLast s, base, 0⟩ :: plan cnt rest base
    | some n => ⟨segFirst s, segLast s, base, n - 2⟩ :: plan cnt rest (base + ((n - 2 : Nat) : Int) + 2)

def segChain (o : SegOut) : List Int := newIds o.first o.last o.base o.k

def segRows (o : SegOut) : List (Int × Int) := linkPairs (segChain o)

/-- The plan for a table: segments in `small_segments` order, counter starting at `max id + 1`. -/
def planOf (t : Table) (cnt : List Int → Option Nat) : List SegOut :=
  plan cnt (smallSegments t) (maxId t + 1)

/-- All `(node, parent)` rows produced by the segment loop. -/
def allLinks (t : Table) (cnt : List Int → Option Nat) : List (Int × Int) :=
  (planOf t cnt).flatMap segRows

/-- Row for `(node, parent)`: an anchor keeps its own row (coordinates) with the new parent, a fresh
node carries no integer coordinates here (its position is `polyAt`, see below). -/
def mkNode (t : Table) (e : Int × Int) : Node :=
  match find? t e.1 with
  | some n => { n with parent := e.2 }
  | none => { id := e.1, parent := e.2 }

/-- `new_nodes[~new_nodes.node_id.duplicated()]`: first occurrence of every id wins. -/
def dedupAux : List Int → Table → Table
  | _, [] => []
  | seen, n :: rest => if seen.contains n.id then dedupAux seen rest else n :: dedupAux (n.id :: seen) rest

def dedupById (t : Table) : Table := dedupAux [] t

/-- Node table after resampling (ids, parents, labels; coordinates of the anchors). -/
def resampleStruct (t : Table) (cnt : List Int → Option Nat) : Table :=
  classify (dedupById ((allLinks t cnt).map (mkNode t) ++ t.filter isRootNode))

/-- The count function `resample_skeleton` uses: arc length of the segment (edge lengths `len`)
against the target resolution. -/
def cntOf (len : Int → Int → Nat) (res : Rat) (s : List Int) : Option Nat :=
  sampleCount ((pathLen len s : Nat) : Rat) res

/-! ## geometry -/

structure Pt where
  x : Rat
  y : Rat
  z : Rat
  r : Rat
deriving Repr, DecidableEq, Inhabited

/-- `a + τ·(b − a)` on every column. -/
def lerpPt (a b : Pt) (τ : Rat) : Pt :=
  ⟨a.x + τ * (b.x - a.x), a.y + τ * (b.y - a.y), a.z + τ * (b.z - a.z), a.r + τ * (b.r - a.r)⟩

/-- Squared Euclidean distance of the positions (the radius is not a coordinate). -/
def sqd (a b : Pt) : Rat :=
  (a.x - b.x) * (a.x - b.x) + (a.y - b.y) * (a.y - b.y) + (a.z - b.z) * (a.z - b.z)

/-- Knots `(arc length, point)` of a segment from the edge lengths: `dist = insert(cumsum(lens), 0, 0)`. -/
def knots : Rat → List Pt → List Rat → List (Rat × Pt)
  | acc, p :: ps, l :: ls => (acc, p) :: knots (acc + l) ps ls
  | acc, p :: _, [] => [(acc, p)]
  | _, [], _ => []

/-- Edge lengths along a segment (as rationals). -/
def segLens (len : Int → Int → Nat) : List Int → List Rat
  | a :: b :: rest => ((len a b : Nat) : Rat) :: segLens len (b :: rest)
  | _ => []

/-- Knots of a segment `s` (node ids child → parent) for a position/radius lookup `pt` and edge lengths `len`. -/
def segKnots (pt : Int → Pt) (len : Int → Int → Nat) (s : List Int) : List (Rat × Pt) :=
  knots 0 (s.map pt) (segLens len s)

/-- Point at arc length `s` on the polyline through the knots — `np.interp` semantics: take the *last*
knot `j` with `d[j] ≤ s`; exactly on a knot (or past the end) return that knot's value, otherwise
interpolate linearly towards knot `j + 1`. -/
def polyAt : List (Rat × Pt) → Rat → Pt
  | [], _ => default
  | [k], _ => k.2
  | k0 :: k1 :: rest, s =>
    if k1.1 ≤ s then polyAt (k1 :: rest) s
    else if s ≤ k0.1 then k0.2
    else lerpPt k0.2 k1.2 ((s - k0.1) / (k1.1 - k0.1))

/-- `np.linspace(0, total, k + 2)[j]`. -/
def samplePos (total : Rat) (k j : Nat) : Rat := (j : Rat) * total / ((k : Rat) + 1)

/-- All `k + 2` sampled points of a segment (both anchors included). -/
def samples (ks : List (Rat × Pt)) (total : Rat) (k : Nat) : List Pt :=
  (List.range (k + 2)).map fun j => polyAt ks (samplePos total k j)

/-- The `k` interior points (the fresh nodes, in chain order first → last). -/
def interiorPts (ks : List (Rat × Pt)) (total : Rat) (k : Nat) : List Pt :=
  (List.range k).map fun j => polyAt ks (samplePos total k (j + 1))

/-- Sum of squared-free "chord ≤ arc" witnesses is stated in `Props/C13.lean`; this is the executable
squared chord list of the resampled chain. -/
def chordSq : List Pt → List Rat
  | a :: b :: rest => sqd a b :: chordSq (b :: rest)
  | _ => []

/-! ## nearest-node remap (`cKDTree.query`, k = 1) -/

/-- Smallest squared distance from `q` to the nodes. -/
def minSqd : List (Int × Pt) → Pt → Option Rat
  | [], _ => none
  | n :: rest, q =>
    match minSqd rest q with
    | none => some (sqd n.2 q)
    | some m => if sqd n.2 q < m then some (sqd n.2 q) else some m

/-- Argmin of the squared distance (first in table order among exact ties). -/
def nearest (nodes : List (Int × Pt)) (q : Pt) : Option Int :=
  match minSqd nodes q with
  | none => none
  | some m => (nodes.find? fun n => sqd n.2 q == m).map (·.1)

/-- All nodes whose squared distance is within the factor `1 + tol` of the minimum (ties as a set). -/
def nearestAll (nodes : List (Int × Pt)) (q : Pt) (tol : Rat) : List Int :=
  match minSqd nodes q with
  | none => []
  | some m => (nodes.filter fun n => sqd n.2 q ≤ m * (1 + tol) + tol * tol).map (·.1)

/-! ## checker for a downsampled table (evaluated on the implementation's output) -/

/-- Position of the new parent on the old root path: `some j` when `p` is the `j`-th proper ancestor
(0-based) of `i` in `t`. -/
def ancIndex (t : Table) (i p : Int) : Option Nat :=
  let tl := (rootPath t i).tail
  if tl.contains p then some (tl.idxOf p) else none

/-- The C13 clauses for downsampling, on an input table `t`, an output table `u`, the factor `f`
(`none` = inf) and the ids that must be fix points: kept rows are original rows (id, coordinates);
fix points are kept; a kept root stays a root; every other kept node's new parent is its *nearest kept*
proper ancestor, with at most `f` dropped nodes in between. -/
def dsCheck (t u : Table) (f : Option Nat) (fix : List Int) : Bool :=
  u.all (fun m => match find? t m.id with
    | some n => n.x == m.x && n.y == m.y && n.z == m.z
    | none => false) &&
  fix.all (fun i => (ids u).contains i) &&
  u.all (fun m =>
    match (rootPath t m.id).tail.find? (fun a => (ids u).contains a) with
    | none => decide (m.parent < 0)
    | some a => m.parent == a &&
        (match f with | none => true | some k => decide ((rootPath t m.id).tail.idxOf a ≤ k)))

end Navis.Resample
