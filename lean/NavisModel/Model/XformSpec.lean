import NavisModel.Model.XformImage
/-
Vocabulary for the declarative facts the C16 translator (`translator/gen_xformfacts.py`) extracts from the navis
source, and what each fact MEANS (small interpreters).  `Gen/XformFacts.lean` is written in this vocabulary;
`Props/C16.lean` §10 proves the property-relevant statements over the generated definitions, so a source edit that
changes a fact makes a theorem stop checking.  Import-free apart from the C16 models; total, computable.
-/
namespace Navis.XformSpec
open Navis.Xform Navis.XformImage

/-! ## the collated block: stacking order and slice bounds -/

inductive Part where
  | points
  | helpers
  | connectors
deriving DecidableEq, Repr

/-- whose row count a slice bound refers to: the node / point / vertex table, or the connector table -/
inductive Tbl where
  | pts
  | conns
deriving DecidableEq, Repr

/-- one bound of `xyz_xf[lower : upper]` -/
inductive Bound where
  | none
  | cnt (t : Tbl)
  | negCnt (t : Tbl)
  | twice (t : Tbl)
deriving DecidableEq, Repr

/-- `np.append` / `np.vstack` in the order the source stacks the parts -/
def stackBy (order : List Part) (pts helpers conns : List V3) : List V3 :=
  order.flatMap fun
    | .points => pts
    | .helpers => helpers
    | .connectors => conns

def cntOf (np nc : Nat) : Tbl → Nat
  | .pts => np
  | .conns => nc

/-- position a numpy slice bound denotes in an array of `L` rows (`-0` is `0`) -/
def pos (np nc L : Nat) (dflt : Nat) : Bound → Nat
  | .none => dflt
  | .cnt t => min (cntOf np nc t) L
  | .twice t => min (2 * cntOf np nc t) L
  | .negCnt t => if cntOf np nc t = 0 then 0 else L - cntOf np nc t

/-- `blk[lower : upper]` -/
def sliceBy (np nc : Nat) (b : Bound × Bound) (blk : List V3) : List V3 :=
  (blk.take (pos np nc blk.length blk.length b.2)).drop (pos np nc blk.length 0 b.1)

/-! ## comparisons, scale rules -/

inductive Cmp where
  | gt
  | ge
  | lt
  | le
  | eq
  | ne
deriving DecidableEq, Repr

/-- `lhs <cmp> rhs` on integers -/
def Cmp.holdsInt : Cmp → Int → Int → Bool
  | .gt, a, b => decide (b < a)
  | .ge, a, b => decide (b ≤ a)
  | .lt, a, b => decide (a < b)
  | .le, a, b => decide (a ≤ b)
  | .eq, a, b => decide (a = b)
  | .ne, a, b => decide (a ≠ b)

def Cmp.holdsRat : Cmp → Rat → Rat → Bool
  | .gt, a, b => decide (b < a)
  | .ge, a, b => decide (b ≤ a)
  | .lt, a, b => decide (a < b)
  | .le, a, b => decide (a ≤ b)
  | .eq, a, b => decide (a = b)
  | .ne, a, b => decide (a ≠ b)

/-- `if xyz.shape[0] <cmp> <c>` -/
def guardHolds (g : Cmp × Int) (rows : Nat) : Bool := g.1.holdsInt (rows : Int) g.2

inductive ScaleOp where
  | mul
  | div
  | other
deriving DecidableEq, Repr

/-- `<base> ** m` for an integer `m` -/
def powBase (base : Int) (m : Int) : Rat :=
  if 0 ≤ m then ((base : Rat) ^ m.toNat) else 1 / ((base : Rat) ^ (-m).toNat)

/-- `value <op>= base ** m` -/
def applyScale (r : ScaleOp × Int) (v : Rat) (m : Int) : Rat :=
  match r.1 with
  | .mul => v * powBase r.2 m
  | .div => v / powBase r.2 m
  | .other => v

/-! ## the flip matrix -/

inductive Cell where
  | ix
  | lit (n : Nat)
deriving DecidableEq, Repr

inductive MVal where
  | size
  | num (i : Int)
deriving DecidableEq, Repr

def axisName : Axis → String
  | .x => "x"
  | .y => "y"
  | .z => "z"

def cellPos (ix : Nat) : Cell → Nat
  | .ix => ix
  | .lit n => n

def mval (s : Rat) : MVal → Rat
  | .size => s
  | .num i => (i : Rat)

/-- `np.eye(4)` with the writes `mirrormat[row, col] = value` applied in source order -/
def flipMatrix (ix : Nat) (s : Rat) (entries : List (Cell × Cell × MVal)) : Nat → Nat → Rat :=
  entries.foldl (fun M e => fun i j => if i = cellPos ix e.1 ∧ j = cellPos ix e.2.1 then mval s e.2.2 else M i j)
    (fun i j => if i = j then 1 else 0)

def affOf (M : Nat → Nat → Rat) : Aff :=
  ⟨M 0 0, M 0 1, M 0 2, M 0 3, M 1 0, M 1 1, M 1 2, M 1 3, M 2 0, M 2 1, M 2 2, M 2 3⟩

/-- the affine map `mirror` builds for an axis, from the extracted axis table and matrix writes -/
def flipOf (table : List (String × Nat)) (entries : List (Cell × Cell × MVal)) (a : Axis) (s : Rat) : Option Aff :=
  (table.lookup (axisName a)).map fun ix => affOf (flipMatrix ix s entries)

/-! ## `symmetrize_brain`: which rows are mirrored -/

def colOf (c : Nat) (p : V3) : Rat :=
  match c with
  | 0 => p.x
  | 1 => p.y
  | _ => p.z

/-- `x[:, col] <cmp> center` -/
def sideHolds (t : Cmp × Nat) (center : Rat) (p : V3) : Bool := t.1.holdsRat (colOf t.2 p) center

/-- cell `(row, col)` of a template bounding box stored as the `(3, 2)` array `[[lo_x, hi_x], [lo_y, hi_y], [lo_z, hi_z]]`
(a flat 6-list is reshaped to this) -/
def cell32 (lo hi : V3) (rc : Nat × Nat) : Rat := if rc.2 = 0 then colOf rc.1 lo else colOf rc.1 hi

/-- … and stored as the `(2, 3)` array `[[lo_x, lo_y, lo_z], [hi_x, hi_y, hi_z]]` -/
def cell23 (lo hi : V3) (rc : Nat × Nat) : Rat := if rc.1 = 0 then colOf rc.2 lo else colOf rc.2 hi

def cellOf (layout : String) (lo hi : V3) (rc : Nat × Nat) : Rat :=
  if layout = "(2, 3)" then cell23 lo hi rc else cell32 lo hi rc

/-! ## `TransformSequence.xform`: the caller's array -/

/-- The working array is either a fresh copy of the caller's points or (no copy, float64 input) the caller's own
buffer; every member writes its result back into it.  Result, and what the caller's array holds afterwards. -/
def seqXformBuffers (copies : Bool) (ts : List Aff) (pts : List V3) : List V3 × List V3 :=
  (pts.map (seqApply ts), if copies then pts else pts.map (seqApply ts))

end Navis.XformSpec
