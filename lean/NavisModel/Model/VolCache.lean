/-!
# The ray-casting structure cached on a `navis.Volume` (property C18, anchor `state: ray-casting structure`)

Import-free, total, computable.  Generic in the geometry type `G` (the driver instantiates it with `Navis.Volume.Solid`,
the theorems hold for every `G`).

**What the source does** (`navis/intersection/ray.py`, `navis/core/volumes.py`; the per-source facts are re-extracted
on every run into `Gen/VolCache.lean`):

* a ray-casting back-end may keep its acceleration structure as a *plain attribute of the Volume object* between calls
  (`in_volume_pyoc`: `tree = getattr(volume, 'pyoctree', None); if not tree: tree = PyOctree(volume.vertices, volume.faces);
  volume.pyoctree = tree`) — the structure is looked up by attribute name only, the geometry it was built from is not
  consulted (`Backend.attr = some a`); other back-ends build the structure on every call (`attr = none`:
  `in_volume_ncoll`, `in_volume_convex`);
* an in-place mutator of the Volume may delete such attributes (`Volume.resize`: `if hasattr(v, "pyoctree"):
  delattr(v, "pyoctree")`); the mutators inherited from `trimesh.Trimesh` (`apply_transform`, `apply_translation`,
  `apply_scale`, assignment to `.vertices` / `.faces`, in-place arithmetic on the vertex array …) delete nothing;
* `copy()` (hence `vol * k`, `vol + t`, `resize(inplace=False)`, `copy.copy`, `copy.deepcopy`) builds a *new*
  `Volume(vertices, faces, **metadata)`: plain attributes are not carried over; pickling (`__getstate__`) keeps every
  non-callable entry of `__dict__` except the names it drops explicitly.

**State machine.**  An object is its current geometry plus the cache entries stored on it; a cache entry is tagged with
the geometry it was built from (and the ray count it was built for).  A query returns the *geometry its answer is computed
from* — the property wants that to be the current geometry of the queried object, always.
-/
namespace Navis.VolCache

/-- one ray-casting back-end, as the source describes it -/
structure Backend where
  /-- `'ncollpyde' | 'pyoctree' | 'scipy'` -/
  name : String
  /-- attribute of the Volume object the acceleration structure is kept in between calls (`none`: built on every call,
  or re-used only after comparing with the current geometry) -/
  attr : Option String
  /-- the cached structure is only re-used when it was built for the same `n_rays` -/
  raysKeyed : Bool
deriving DecidableEq, Repr, Inhabited

/-- one in-place mutator of `navis.Volume` and the plain attributes it deletes -/
structure Mutator where
  name : String
  clears : List String
deriving DecidableEq, Repr, Inhabited

structure Spec where
  backends : List Backend
  mutators : List Mutator
  /-- names `__getstate__` drops in addition to callables -/
  pickleDrops : List String
deriving Repr, Inhabited

def Spec.backend (s : Spec) (b : String) : Option Backend := s.backends.find? fun be => be.name == b

/-- a mutator the table does not list (any other inherited `trimesh` method) deletes nothing -/
def Spec.clearsOf (s : Spec) (m : String) : List String :=
  match s.mutators.find? fun mu => mu.name == m with
  | some mu => mu.clears
  | none => []

/-- the cache attribute a back-end reads (`none` also for an unknown back-end name) -/
def Spec.attrOf (s : Spec) (b : String) : Option String :=
  match s.backend b with
  | some be => be.attr
  | none => none

/-- cache entry: attribute name, geometry the structure was built from, ray count it was built for -/
structure Entry (G : Type) where
  attr : String
  built : G
  rays : Nat

/-- one `navis.Volume` object -/
structure Obj (G : Type) where
  geom : G
  cache : List (Entry G)

def Obj.fresh {G} (g : G) : Obj G := ⟨g, []⟩

def lookup {G} (c : List (Entry G)) (a : String) : Option (Entry G) := c.find? fun e => e.attr == a

/-- `volume.<a> = structure(volume.vertices, volume.faces)` -/
def Obj.store {G} (o : Obj G) (a : String) (rays : Nat) : Obj G :=
  { o with cache := ⟨a, o.geom, rays⟩ :: o.cache.filter fun e => !(e.attr == a) }

/-- one call of the back-end on this object: the object afterwards and the geometry the answer is computed from -/
def Obj.query {G} (be : Backend) (rays : Nat) (o : Obj G) : Obj G × G :=
  match be.attr with
  | none => (o, o.geom)
  | some a =>
    match lookup o.cache a with
    | none => (o.store a rays, o.geom)
    | some e => if be.raysKeyed && !(e.rays == rays) then (o.store a rays, o.geom) else (o, e.built)

/-- an in-place mutator: new geometry, the listed attributes are deleted, everything else stays on the object -/
def Obj.mutate {G} (clears : List String) (f : G → G) (o : Obj G) : Obj G :=
  ⟨f o.geom, o.cache.filter fun e => !clears.contains e.attr⟩

/-- `pickle.loads(pickle.dumps(o))` -/
def Obj.pickle {G} (drops : List String) (o : Obj G) : Obj G :=
  ⟨o.geom, o.cache.filter fun e => !drops.contains e.attr⟩

inductive Op (G : Type) where
  /-- `in_volume(points, vol_i, backend=b, n_rays=rays)` (also reached through neurons, dicts, `prune_by_volume`,
  `intersection_matrix`) -/
  | query (i : Nat) (b : String) (rays : Nat)
  /-- in-place mutator `m` of object `i`, new geometry `f geom` -/
  | mutate (i : Nat) (m : String) (f : G → G)
  /-- `vol_i.copy()`, `vol_i * k`, `vol_i + t`, `vol_i.resize(k, inplace=False)`, `copy.copy`, `copy.deepcopy`:
  a new object (appended) with geometry `f geom` and no plain attributes -/
  | copy (i : Nat) (f : G → G)
  /-- `pickle.loads(pickle.dumps(vol_i))`: a new object (appended) -/
  | pickle (i : Nat)

abbrev Store (G : Type) := List (Obj G)

/-- what one query used and what it should have used -/
structure Answer (G : Type) where
  used : G
  current : G

def setAt {α} (l : List α) (i : Nat) (a : α) : List α := l.set i a

/-- one step; a query also reports `(geometry used, current geometry)`; an index outside the store is a no-op -/
def step {G} (s : Spec) (st : Store G) : Op G → Store G × Option (Answer G)
  | .query i b rays =>
    match st[i]? with
    | none => (st, none)
    | some o =>
      match s.backend b with
      | none => (st, some ⟨o.geom, o.geom⟩)
      | some be => ((setAt st i (o.query be rays).1), some ⟨(o.query be rays).2, o.geom⟩)
  | .mutate i m f =>
    match st[i]? with
    | none => (st, none)
    | some o => (setAt st i (o.mutate (s.clearsOf m) f), none)
  | .copy i f =>
    match st[i]? with
    | none => (st, none)
    | some o => (st ++ [Obj.fresh (f o.geom)], none)
  | .pickle i =>
    match st[i]? with
    | none => (st, none)
    | some o => (st ++ [o.pickle s.pickleDrops], none)

/-- a whole history: the final store and, per query in order, what it used and what was current -/
def exec {G} (s : Spec) : Store G → List (Op G) → Store G × List (Answer G)
  | st, [] => (st, [])
  | st, op :: ops =>
    match (step s st op).2 with
    | none => exec s (step s st op).1 ops
    | some a => ((exec s (step s st op).1 ops).1, a :: (exec s (step s st op).1 ops).2)

/-! ## the decidable coverage condition evaluated on the generated `Spec` -/

/-- every listed in-place mutator deletes the cache attribute of every listed back-end -/
def coversB (s : Spec) (bs : List String) : Bool :=
  bs.all fun b =>
    match s.attrOf b with
    | none => true
    | some a => s.mutators.all fun m => m.clears.contains a

/-- the names of the mutators the table lists -/
def Spec.mutatorNames (s : Spec) : List String := s.mutators.map (·.name)

/-- the listed mutators that delete the cache attribute of *every* back-end of the spec -/
def clearingMutators (s : Spec) : List String :=
  s.mutatorNames.filter fun m => s.backends.all fun b =>
    match b.attr with
    | none => true
    | some a => (s.clearsOf m).contains a

end Navis.VolCache
