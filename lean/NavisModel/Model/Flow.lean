import NavisModel.Model.Prune
/-
Morphometrics of C17 (`navis/morpho/mmetrics.py`): distal synapse counts, the three synapse flow
centralities with the fork-max rule, leaf ("tip-to-tip") flow centrality and bending flow as the code
computes them, the path-count *definitions* they are compared with, the segregation index over `Rat`
with an abstract binary-entropy function, tortuosity in squared form, and the Strahler recurrence
checker.  The Strahler model itself lives in `Model/Prune.lean` (`strahlerRule`, `strahlerRaw`, `strahler`).

Synapses travel as lists of node ids, one entry per synapse (several synapses per node = repeated id).
Import-free (core Lean only), total, computable.
-/
namespace Navis.Flow
open Navis.Forest

/-! ### distal counts -/

/-- `s` is distal to (in the subtree of) `n`, `n` itself included: `n` lies on `s`' path to the root
(what `geodesic_matrix(directed=True) < inf` tests). -/
def isDistal (t : Table) (n s : Int) : Bool := isAncestorOrSelf t n s

/-- Number of synapses on nodes distal to `n` (`distal_pre[n]`, `distal_post[n]`). -/
def distalCount (t : Table) (syn : List Int) (n : Int) : Nat := (syn.filter fun s => isDistal t n s).length

/-- Number of synapses in the same tree as `n`. -/
def treeCount (t : Table) (syn : List Int) (n : Int) : Nat := (syn.filter fun s => sameTree t s n).length

/-- The "total" the formulas subtract from.  `perTree = true` is what navis computes (navis-fastcore
and, since the `fix:` commits for C17, the pure-Python paths of `synapse_flow_centrality` and
`flow_centrality`: totals per connected component) and what the path-count definition demands: there
is no path between different trees.  `perTree = false` (whole table, `len(post_node_ids)`) is the
historical pre-fix Python formula, kept only to document the difference. -/
def total (t : Table) (perTree : Bool) (syn : List Int) (n : Int) : Nat :=
  if perTree then treeCount t syn n else syn.length

/-! ### synapse flow centrality -/

inductive Mode where
  | centrifugal | centripetal | sum
deriving Repr, DecidableEq, Inhabited

/-- `(total_post − distal_post[n]) · distal_pre[n]`: flow from proximal inputs to distal outputs. -/
def centrifugal (t : Table) (pt : Bool) (pre post : List Int) (n : Int) : Nat :=
  (total t pt post n - distalCount t post n) * distalCount t pre n

/-- `distal_post[n] · (total_pre − distal_pre[n])`: flow from distal inputs to proximal outputs. -/
def centripetal (t : Table) (pt : Bool) (pre post : List Int) (n : Int) : Nat :=
  distalCount t post n * (total t pt pre n - distalCount t pre n)

/-- Value of the formula at a node, before the fork rule. -/
def sfcRaw (t : Table) (pt : Bool) (m : Mode) (pre post : List Int) (n : Int) : Nat :=
  match m with
  | .centrifugal => centrifugal t pt pre post n
  | .centripetal => centripetal t pt pre post n
  | .sum => centrifugal t pt pre post n + centripetal t pt pre post n

/-- navis' node type `branch`: a non-root node with at least two children. -/
def isFork (t : Table) (n : Int) : Bool :=
  match find? t n with
  | some r => !(decide (r.parent < 0)) && decide (2 ≤ childCount t n)
  | none => false

def maxList (l : List Nat) : Nat := l.foldl max 0

/-- `synapse_flow_centrality`: the formula at every node (connector-free stretches inherit it from the
next distal node, which is the same number because the distal counts do not change), then every
branch point is *set* to the largest formula value among its children. -/
def sfc (t : Table) (pt : Bool) (m : Mode) (pre post : List Int) (n : Int) : Nat :=
  if isFork t n then maxList ((children t n).map (sfcRaw t pt m pre post)) else sfcRaw t pt m pre post n

/-! ### the path-count definition -/

/-- Ascending leg of the tree path from `a` to `b`: the nodes of `a`'s root path strictly below the
lowest common ancestor (empty when there is no path, i.e. different trees). -/
def legUp (t : Table) (a b : Int) : List Int :=
  match lca t a b with
  | none => []
  | some l => (rootPath t a).takeWhile (fun i => i != l)

/-- The tree path from `a` to `b`: up from `a` to the lowest common ancestor, down to `b`. -/
def treePath (t : Table) (a b : Int) : Option (List Int) :=
  match lca t a b with
  | none => none
  | some l => some (legUp t a b ++ l :: (legUp t b a).reverse)

def product {α β} (xs : List α) (ys : List β) : List (α × β) := xs.flatMap fun a => ys.map fun b => (a, b)

/-- Number of (postsynapse, presynapse) pairs whose tree path runs through `n` *centrifugally*: `n`
lies on the descending leg (the path enters `n` from its parent). -/
def pathsDown (t : Table) (pre post : List Int) (n : Int) : Nat :=
  ((product post pre).filter fun p => (legUp t p.2 p.1).contains n).length

/-- … *centripetally*: `n` lies on the ascending leg (the path leaves `n` towards its parent). -/
def pathsUp (t : Table) (pre post : List Int) (n : Int) : Nat :=
  ((product post pre).filter fun p => (legUp t p.1 p.2).contains n).length

def pathCount (t : Table) (m : Mode) (pre post : List Int) (n : Int) : Nat :=
  match m with
  | .centrifugal => pathsDown t pre post n
  | .centripetal => pathsUp t pre post n
  | .sum => pathsDown t pre post n + pathsUp t pre post n

/-- The property as a definition: path count at ordinary nodes, largest child's path count at forks. -/
def sfcSpec (t : Table) (m : Mode) (pre post : List Int) (n : Int) : Nat :=
  if isFork t n then maxList ((children t n).map (pathCount t m pre post)) else pathCount t m pre post n

/-- Checker evaluated on the implementation's own column `v`. -/
def sfcOKB (t : Table) (m : Mode) (pre post : List Int) (v : Int → Nat) : Bool :=
  t.all fun r => v r.id == sfcSpec t m pre post r.id

/-! ### leaf flow centrality (`flow_centrality`) as written -/

/-- navis' `leafs`: non-root nodes without children. -/
def leafIds (t : Table) : List Int :=
  (t.filter fun n => !isRootNode n && childCount t n.id == 0).map (·.id)

/-- `(total_leafs − distal[n]) · distal[n]`. -/
def leafFormula (t : Table) (pt : Bool) (n : Int) : Nat :=
  (total t pt (leafIds t) n - distalCount t (leafIds t) n) * distalCount t (leafIds t) n

/-- Walk down the unbranched chain below `i` to the leaf or fork that seeds `i`'s small segment. -/
def chainSeed (t : Table) : Nat → Int → Int
  | 0, i => i
  | fuel + 1, i =>
    match children t i with
    | [c] => chainSeed t fuel c
    | _ => i

def isRootId (t : Table) (i : Int) : Bool :=
  match find? t i with
  | some n => decide (n.parent < 0)
  | none => false

/-- Value before the fork rule (navis uses `pt = true`: leaf totals per tree).  Since the `fix:` commits for the two
flow_centrality findings the formula is evaluated at branch points, leafs and roots; every other node (exactly one
child, not a root) inherits the value of the distal seed of its small segment, a leaf or a branch point. -/
def fcPre (t : Table) (pt : Bool) (n : Int) : Nat :=
  if isRootId t n then leafFormula t pt n else leafFormula t pt (chainSeed t (t.length + 1) n)

/-- `flow_centrality` as written: branch points take their largest child's (pre-rule) value. -/
def flowCentrality (t : Table) (pt : Bool) (n : Int) : Nat :=
  if isFork t n then maxList ((children t n).map (fcPre t pt)) else fcPre t pt n

/-! #### historical: `flow_centrality` before the two `fix:` commits

Only branch points were computed; a segment inherited the value of its distal seed, a leaf seeding 0 (terminal
twigs: 0 instead of the tip count), and a forking root inherited the value of whichever of its segments was visited
first.  Kept to document what the fixes changed; the code no longer behaves like this. -/

def fcPreHist (t : Table) (pt : Bool) (n : Int) : Nat :=
  let s := chainSeed t (t.length + 1) n
  if isFork t s then leafFormula t pt s else 0

def flowCentralityHist (t : Table) (pt : Bool) (n : Int) : Nat :=
  if isFork t n then maxList ((children t n).map (fcPreHist t pt)) else fcPreHist t pt n

/-- A forking root was not a `branch`: it inherited the value of whichever of its segments was visited first, so
any child's value was admissible. -/
def fcRootChoicesHist (t : Table) (pt : Bool) (n : Int) : List Nat := (children t n).map (fcPreHist t pt)

/-! ### bending flow as written -/

/-- Ordered pairs of distinct children (`itertools.permutations(childs, 2)`). -/
def childPairs (t : Table) (b : Int) : List (Int × Int) :=
  (product (children t b) (children t b)).filter fun p => p.1 != p.2

/-- Flow that bends at `b` from one child branch into another. -/
def bendAt (t : Table) (pre post : List Int) (b : Int) : Nat :=
  ((childPairs t b).map fun p => distalCount t post p.1 * distalCount t pre p.2).sum

/-- `bending_flow`: forks (roots included) carry their own value, every other node the value of the
fork at the proximal end of its small segment (0 when that is a non-forking root). -/
def bendingFlow (t : Table) (pre post : List Int) (n : Int) : Nat :=
  if 2 ≤ childCount t n then bendAt t pre post n
  else match stopAbove t n with
    | some s => if 2 ≤ childCount t s then bendAt t pre post s else 0
    | none => 0

/-- Number of (fork child pair, synapse pair) incidences: the post synapse sits below one child of `b`,
the pre synapse below another. -/
def bendPairs (t : Table) (pre post : List Int) (b : Int) : Nat :=
  ((childPairs t b).flatMap fun p =>
    (product post pre).filter fun q => isDistal t p.1 q.1 && isDistal t p.2 q.2).length

/-! ### bending flow and leaf flow: explicit path-count specifications -/

/-- The tree path from `p` to `q` **bends at** `b`: `b` is the apex of the path (the lowest common
ancestor of its ends) and neither of its ends — both legs are non-empty, i.e. the path climbs into `b`
out of one child branch and descends into another. -/
def bendsAt (t : Table) (b p q : Int) : Bool :=
  match lca t p q with
  | some l => l == b && !(legUp t p q).isEmpty && !(legUp t q p).isEmpty
  | none => false

/-- Number of (postsynapse, presynapse) pairs whose tree path bends at `b`. -/
def bendSpec (t : Table) (pre post : List Int) (b : Int) : Nat :=
  ((product post pre).filter fun x => bendsAt t b x.1 x.2).length

/-- Number of ordered (leaf, leaf) pairs whose tree path leaves `n` towards its parent ("tip-to-tip paths
through `n`", each unordered pair counted once: exactly one of its two orientations ascends through `n`). -/
def tipPaths (t : Table) (n : Int) : Nat := pathsUp t (leafIds t) (leafIds t) n

/-- What `flow_centrality` should return by the property (and what the repaired code would compute): the
tip-path count at every node, forks taking their largest child's count.  It is `synapse_flow_centrality`
(centripetal) of the neuron that carries one pre- and one postsynapse on every leaf. -/
def fcSpec (t : Table) (n : Int) : Nat :=
  if isFork t n then maxList ((children t n).map (tipPaths t)) else tipPaths t n

/-- (historical) `n` lay on a terminal twig as `flow_centrality` saw it before the fix: the unbranched chain below `n`
does not end in a branch point (`type == "branch"`), so the code seeded the segment with 0. -/
def seedIsFork (t : Table) (n : Int) : Bool := isFork t (chainSeed t (t.length + 1) n)

/-! ### segregation index -/

structure Frag where
  pre : Nat
  post : Nat
deriving Repr, DecidableEq, Inhabited

def Frag.tot (f : Frag) : Nat := f.pre + f.post

/-- Entropy term of one fragment: `H p` for `0 < p < 1`, else 0 (`H` is the binary entropy
`−(p ln p + (1−p) ln (1−p))`, kept abstract). -/
def fragEntropy (H : Rat → Rat) (f : Frag) : Rat :=
  if f.tot = 0 then 0 else
  let p : Rat := (f.post : Rat) / (f.tot : Rat)
  if 0 < p ∧ p < 1 then H p else 0

def totPre (fs : List Frag) : Nat := (fs.map (·.pre)).sum
def totPost (fs : List Frag) : Nat := (fs.map (·.post)).sum

/-- Synapse-weighted mean entropy of the fragments. -/
def meanEntropy (H : Rat → Rat) (fs : List Frag) : Rat :=
  (1 / ((totPre fs + totPost fs : Nat) : Rat)) * ((fs.map fun f => fragEntropy H f * (f.tot : Rat)).sum)

/-- `segregation_index` (`none`: no synapses at all — the code divides by zero). -/
def segIdx (H : Rat → Rat) (fs : List Frag) : Option Rat :=
  let tot := totPre fs + totPost fs
  if tot = 0 then none else
  let pn : Rat := (totPost fs : Rat) / (tot : Rat)
  if 0 < pn ∧ pn < 1 then some (1 - meanEntropy H fs / H pn) else some 0

/-- The entropy term as the code guards it: `H` inside (0,1), 0 elsewhere. -/
def guardH (H : Rat → Rat) (p : Rat) : Rat := if 0 < p ∧ p < 1 then H p else 0

/-- Non-negative and concave on [0,1] (what the binary entropy is). -/
structure ConcaveNonneg (G : Rat → Rat) : Prop where
  nonneg : ∀ p, 0 ≤ G p
  conc : ∀ x y lam : Rat, 0 ≤ x → x ≤ 1 → 0 ≤ y → y ≤ 1 → 0 ≤ lam → lam ≤ 1 →
    lam * G x + (1 - lam) * G y ≤ G (lam * x + (1 - lam) * y)

/-- Exact classification used by the driver: `some 0` / `some 1` when the value is forced. -/
def segExact (fs : List Frag) : Option Nat :=
  let tp := totPre fs
  let tq := totPost fs
  if tp + tq = 0 then none
  else if tp = 0 ∨ tq = 0 then some 0
  else if fs.all (fun f => f.pre == 0 || f.post == 0) then some 1
  else if fs.all (fun f => f.post * (tp + tq) == tq * f.tot) then some 0
  else none

/-! ### segregation index, generic in the number type

The same three definitions with the arithmetic left abstract (core type classes only, so the file stays
import-free).  At `K = Rat` they *are* `fragEntropy` / `meanEntropy` / `segIdx` (by `rfl`, below): the
executable model.  At `K = ℝ` with `H p = −(p·ln p + (1−p)·ln(1−p))` they are the function navis evaluates in
floating point; `Props/C17.lean` proves the bounds and the exact cases for that instance (Mathlib's real
logarithm is only imported by the proof file). -/
section Generic
variable {K : Type} [Add K] [Sub K] [Mul K] [Div K] [Zero K] [One K] [NatCast K] [LT K] [DecidableLT K]

def fragEntropyG (H : K → K) (f : Frag) : K :=
  if f.tot = 0 then 0 else
  let p : K := (f.post : K) / (f.tot : K)
  if 0 < p ∧ p < 1 then H p else 0

def meanEntropyG (H : K → K) (fs : List Frag) : K :=
  (1 / ((totPre fs + totPost fs : Nat) : K)) * ((fs.map fun f => fragEntropyG H f * (f.tot : K)).sum)

def segIdxG (H : K → K) (fs : List Frag) : Option K :=
  let tot := totPre fs + totPost fs
  if tot = 0 then none else
  let pn : K := (totPost fs : K) / (tot : K)
  if 0 < pn ∧ pn < 1 then some (1 - meanEntropyG H fs / H pn) else some 0

end Generic

theorem fragEntropy_eq_G (H : Rat → Rat) (f : Frag) : fragEntropy H f = fragEntropyG H f := rfl
theorem meanEntropy_eq_G (H : Rat → Rat) (fs : List Frag) : meanEntropy H fs = meanEntropyG H fs := rfl
theorem segIdx_eq_G (H : Rat → Rat) (fs : List Frag) : segIdx H fs = segIdxG H fs := rfl

/-! ### tortuosity, squared form -/

abbrev P3 := Int × Int × Int

def sqd (p q : P3) : Int :=
  (p.1 - q.1) * (p.1 - q.1) + (p.2.1 - q.2.1) * (p.2.1 - q.2.1) + (p.2.2 - q.2.2) * (p.2.2 - q.2.2)

def posOf (t : Table) (i : Int) : P3 :=
  match find? t i with
  | some n => (n.x, n.y, n.z)
  | none => (0, 0, 0)

/-- Squared chord of a segment (first to last node). -/
def chordSq (t : Table) (s : List Int) : Int :=
  match s.head?, s.getLast? with
  | some a, some b => sqd (posOf t a) (posOf t b)
  | _, _ => 0

/-- Arc length of a segment with exact integer edge lengths. -/
def arcLen (t : Table) (s : List Int) : Nat := pathLen (coordLen t) s

/-- Consecutive nodes of `s` are at most `len` apart (squared). -/
def edgesWithin (pos : Int → P3) (len : Int → Int → Nat) : List Int → Prop
  | a :: b :: rest => sqd (pos a) (pos b) ≤ ((len a b : Nat) : Int) * (len a b : Nat) ∧ edgesWithin pos len (b :: rest)
  | _ => True

/-- Consecutive nodes advance by a natural multiple `c` of one direction `d` of integer length `m`. -/
def straight (pos : Int → P3) (len : Int → Int → Nat) (d : P3) (m : Nat) : List Int → Prop
  | a :: b :: rest =>
    (∃ c : Nat, (pos b).1 - (pos a).1 = c * d.1 ∧ (pos b).2.1 - (pos a).2.1 = c * d.2.1 ∧
      (pos b).2.2 - (pos a).2.2 = c * d.2.2 ∧ len a b = c * m) ∧ straight pos len d m (b :: rest)
  | _ => True

/-- Per small segment `(first, last, arc, chord²)`: tortuosity is the mean of `arc / √chord²`. -/
def tortParts (t : Table) : List (Int × Int × Nat × Int) :=
  (smallSegments t).filterMap fun s =>
    match s.head?, s.getLast? with
    | some a, some b => some (a, b, arcLen t s, chordSq t s)
    | _, _ => none

/-- Executable `edgesWithin` for exact integer lengths, evaluated by the driver on the generated input. -/
def exactEdgesB (t : Table) : Bool :=
  (t.filter fun n => !isRootNode n).all fun n =>
    sqd (posOf t n.id) (posOf t n.parent) == ((coordLen t n.id n.parent : Nat) : Int) * (coordLen t n.id n.parent : Nat)

/-! ### Strahler: recurrence checker on the implementation's column -/

/-- `v` obeys the Strahler recurrence at every row (roots included). -/
def strahlerOKB (t : Table) (greedy : Bool) (v : Int → Nat) : Bool :=
  t.all fun r => v r.id == strahlerRule greedy ((children t r.id).map v)

/-- One small segment passes the "ignored twigs take their parent branch's index" test: if it is seeded at an
ignored leaf and ends in a branch point (≥ 2 children, root or not), all its nodes carry the branch point's value. -/
def twigOKB (t : Table) (eff : List Int) (v : Int → Nat) (s : List Int) : Bool :=
  match s.head?, s.getLast? with
  | some h, some e =>
    if eff.contains h && childCount t h == 0 && decide (2 ≤ childCount t e) then s.dropLast.all (fun x => v x == v e) else true
  | _, _ => true

/-- Checker evaluated on the implementation's column: every ignored twig carries the index of the branch it hangs on. -/
def ignoredTwigsOKB (t : Table) (eff : List Int) (v : Int → Nat) : Bool :=
  (smallSegments t).all (twigOKB t eff v)

/-- Lookup in an association list from the wire (`default` for missing ids). -/
def lookup (kv : List (Int × Nat)) (dflt : Nat) (i : Int) : Nat :=
  match kv.find? (fun p => p.1 == i) with
  | some p => p.2
  | none => dflt

end Navis.Flow
