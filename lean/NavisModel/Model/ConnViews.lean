import NavisModel.Model.Conn
/-!
# C20, second layer of the model: the navis code *around* the edge stream, as written

* values of the connector `type` column as Python objects and the comparison `row.type == <int literal>`
  (`TVal`, `addRowT`): ints, numpy ints, floats, bools match `0` / `1` by value; strings, `None`, `NaN` never do;
* an interpreter of the *generated* if/elif chain of `add_neuron` (`addRowGen`), so that `Props/C20` can prove the
  model's `addRow` equal to what the current source says;
* `to_adjacency` as written: a dense zero matrix over `index`, `df.loc[src, tgt] += 1` per edge (`adjDense`);
* incremental construction (`add_neuron` called repeatedly, views taken in between): `addNeuron` / `buildN`;
* a Lean-side *checker* `viewsOKB` for the three views navis returns (evaluated by the driver on navis' own output);
* `network2nx(adjacency, threshold)`: melt → threshold filter → `DiGraph.add_weighted_edges_from` (`n2nx`);
* names of `group_matrix` methods and of the pandas aggregations they call (`methodOfName`, `aggOfPandas`).

Import-free apart from `Model/Conn.lean`, total, computable.
-/
namespace Navis.Conn

/-! ## the `type` column -/

/-- a cell of the `type` column as the Python object `itertuples()` hands to `add_neuron` -/
inductive TVal
  | int (i : Int)
  | float (q : Rat)
  | nan
  | bool (b : Bool)
  | str (s : String)
  | none
deriving DecidableEq, Repr, Inhabited

/-- Python `v == k` for an `int` literal `k` (`True == 1`, `1.0 == 1`, `"1" != 1`, `nan != 1`, `None != 1`) -/
def TVal.eqInt : TVal → Int → Bool
  | .int i, k => decide (i = k)
  | .float q, k => decide (q = (k : Rat))
  | .bool b, k => decide ((if b then (1 : Int) else 0) = k)
  | .nan, _ => false
  | .str _, _ => false
  | .none, _ => false

/-- One table row with the type as a Python value. -/
structure TRow where
  name : String
  cid : Int
  node : Int
  type : TVal
deriving Repr

/-- body of the row loop, as written, on Python-valued types -/
def addRowT (m : Maps) (r : TRow) : Maps :=
  if r.type.eqInt 1 then
    { m with outputs := dset m.outputs r.cid ((dget m.outputs r.cid).getD [] ++ [(r.name, r.node)]) }
  else if r.type.eqInt 0 then
    { m with inputs := dset m.inputs r.cid (r.name, r.node) }
  else m

/-- the integer code the protocol / the first-layer model uses for a type value: `1`, `0`, or `2` = ignored -/
def typeCode (v : TVal) : Int := if v.eqInt 1 then 1 else if v.eqInt 0 then 0 else 2

def TRow.toCRow (r : TRow) : CRow := ⟨r.name, r.cid, r.node, typeCode r.type⟩

/-! ## interpreter of the generated type chain -/

/-- effect of one branch `(dict, how)` of the chain on the two dicts -/
def applyBranch (m : Maps) (r : CRow) (dict how : String) : Option Maps :=
  if dict = "conn_outputs" ∧ how = "append" then
    some { m with outputs := dset m.outputs r.cid ((dget m.outputs r.cid).getD [] ++ [(r.name, r.node)]) }
  else if dict = "conn_inputs" ∧ how = "assign" then
    some { m with inputs := dset m.inputs r.cid (r.name, r.node) }
  else none      -- a shape the model has no counterpart for

/-- `if row.type == l₁: … elif row.type == l₂: …` (no else): first matching literal wins, otherwise nothing -/
def addRowGen : List (Int × String × String) → Maps → CRow → Option Maps
  | [], m, _ => some m
  | (lit, dict, how) :: rest, m, r => if r.type = lit then applyBranch m r dict how else addRowGen rest m r

/-! ## what last-writer-wins amounts to -/

/-- the table in which every connector keeps only its *last* presynaptic row (in visiting order) -/
def lastPreOnly : List CRow → List CRow
  | [] => []
  | r :: t => if isPre r && hasPre t r.cid then lastPreOnly t else r :: lastPreOnly t

/-! ## incremental construction -/

/-- `add_neuron(nrn)` on the state (names dict keys, the two dicts) -/
structure State where
  names : List String := []
  maps : Maps := {}

def addNeuron (s : State) (n : Neuron) : State :=
  { names := if s.names.contains n.name then s.names else s.names ++ [n.name]
    maps := ((n.conns.getD []).map fun r => (⟨n.name, r.1, r.2.1, r.2.2⟩ : CRow)).foldl addRow s.maps }

/-- `add_neurons` / the constructor / repeated `add_neuron` calls -/
def buildN (ns : List Neuron) (s : State := {}) : State := ns.foldl addNeuron s

/-! ## `to_adjacency` as written -/

abbrev Dense := List (List Nat)

/-- `np.zeros((len(index), len(index)), np.uint64)` -/
def zeros (idx : List String) : Dense := idx.map fun _ => idx.map fun _ => 0

/-- the frame whose cell `(s, t)` holds `f s t` -/
def cellsOf (idx : List String) (f : String → String → Nat) : Dense := idx.map fun s => idx.map fun t => f s t

/-- `df.loc[s, t] += 1` on a frame whose row *and* column labels are `idx`: every cell with matching labels is
incremented (exactly one when the labels are distinct; none — pandas raises `KeyError` — when a label is absent) -/
def locInc (idx : List String) (M : Dense) (s t : String) : Dense :=
  (idx.zip M).map fun p => (idx.zip p.2).map fun q => if p.1 = s ∧ q.1 = t then q.2 + 1 else q.2

/-- `for _, src, tgt, _, _ in self.edges(include_other): df.loc[src, tgt] += 1` -/
def adjDense (idx : List String) (es : List Edge) : Dense :=
  es.foldl (fun M e => locInc idx M e.src e.tgt) (zeros idx)

def denseTotal (M : Dense) : Nat := (M.map List.sum).sum

/-- out-degree / in-degree marginals of the dense matrix -/
def rowSums (M : Dense) : List Nat := M.map List.sum

/-! ## checker for the three views navis returns -/

/-- What the harness reads off navis' return values (all label-keyed; no order is significant except inside `adj`,
whose rows and columns follow `index`). -/
structure Views where
  index : List String
  adj : Dense
  dgNodes : List String
  /-- digraph edges: `((src, tgt), weight, connectors table rows)` -/
  dg : List ((String × String) × Nat × List Syn)
  mgNodes : List String
  /-- multigraph edges: `((src, tgt), (connector_id, pre_node, post_node))` -/
  mg : List ((String × String) × Syn)

/-- Are the three views consistent with the edge stream `es` over the node set `index names io`? -/
def viewsOKB (names : List String) (io : Bool) (es : List Edge) (v : Views) : Bool :=
  v.index.isPerm (index names io) && v.dgNodes.isPerm (index names io) && v.mgNodes.isPerm (index names io)
  && decide (v.adj = cellsOf v.index fun s t => (between es s t).length)
  && decide (dkeys v.dg).Nodup
  && v.dg.all (fun p => !p.2.2.isEmpty && decide (p.2.1 = p.2.2.length)
        && p.2.2.isPerm ((between es p.1.1 p.1.2).map Edge.syn))
  && es.all (fun e => (dkeys v.dg).contains e.key)
  && v.mg.isPerm (multiEdges es)

/-- the views the model itself builds -/
def modelViews (names : List String) (io : Bool) (es : List Edge) : Views :=
  { index := index names io
    adj := adjDense (index names io) es
    dgNodes := index names io
    dg := (digraphEdges es).map fun p => (p.1, p.2.length, p.2)
    mgNodes := index names io
    mg := multiEdges es }

/-! ## `network2nx` on an adjacency matrix -/

/-- `x.reset_index().melt(id_vars=…).values`: one `(source, target, weight)` per cell, column by column -/
def melt (idx : List String) (M : Dense) : List (String × String × Nat) :=
  idx.zipIdx.flatMap fun c => (idx.zip M).map fun r => (r.1, c.1, r.2.getD c.2 0)

/-- does a weight survive `edges[:, 2] >= threshold`?  (`threshold=None`: no filter) -/
def passTh (th : Option Nat) (w : Nat) : Bool :=
  match th with
  | none => true
  | some k => decide (k ≤ w)

/-- `edges = edges[edges[:, 2] >= threshold]` unless `threshold` is `None` -/
def thresholdEdges (th : Option Nat) (l : List (String × String × Nat)) : List (String × String × Nat) :=
  l.filter fun e => passTh th e.2.2

/-- `g.add_weighted_edges_from(edges)`: a dict keyed by `(u, v)`, last writer wins -/
def n2nx (th : Option Nat) (idx : List String) (M : Dense) : List ((String × String) × Nat) :=
  gfold (fun e : String × String × Nat => (e.1, e.2.1)) (fun _ e => e.2.2) (thresholdEdges th (melt idx M)) []

def n2nxWeight (th : Option Nat) (idx : List String) (M : Dense) (s t : String) : Option Nat :=
  dget (n2nx th idx M) (s, t)

/-- nodes of the resulting graph: endpoints of the surviving edges, first occurrence order -/
def n2nxNodes (th : Option Nat) (idx : List String) (M : Dense) : List String :=
  dedup ((n2nx th idx M).flatMap fun p => [p.1.1, p.1.2])

/-! ## `group_matrix`: checker for the totals of navis' own result -/

/-- the total the grouped matrix has to have: that of `M`, or of the sub-matrix that survives `drop_ungrouped` -/
def keptTotal (rg cg : Groups) (drop : Bool) (M : LMat) : Rat :=
  if rg.isEmpty && cg.isEmpty then total M else total (restrict rg.toMap cg.toMap drop M)

/-- does the matrix `G` (what navis returned for `method='SUM'`) conserve the synapse total of `M`? -/
def groupTotalsOKB (rg cg : Groups) (drop : Bool) (M G : LMat) : Bool := decide (total G = keptTotal rg cg drop M)

/-! ## `group_matrix`: method names -/

/-- the `method` literals -/
def methodOfName : String → Option Method
  | "SUM" => some .sum
  | "AVERAGE" => some .avg
  | "MIN" => some .min
  | "MAX" => some .max
  | _ => none

/-- pandas `GroupBy.<name>()` -/
def aggOfPandas : String → Option Method
  | "sum" => some .sum
  | "mean" => some .avg
  | "min" => some .min
  | "max" => some .max
  | _ => none

end Navis.Conn
