import NavisModel.Model.Dist
/-
Edge weights as numpy computes them when the coordinate columns are INTEGER typed (C05): the child − parent
difference is taken in the dtype numpy promotes the two operands to — float as soon as one operand is float
(`.astype(float)`, or float by construction), otherwise the columns' own dtype, where unsigned differences wrap
around and squares overflow.  Import-free apart from the forest model, total, computable.
-/
namespace Navis.EdgeDtype
open Navis.Forest

/-- The dtype an arithmetic result lives in. -/
inductive Dt where
  | float                 -- exact on the integer coordinates the harness generates
  | uint (bits : Nat)
  | sint (bits : Nat)
deriving DecidableEq, Repr

/-- Wrap-around of integer arithmetic in a dtype. -/
def wrapIn : Dt → Int → Int
  | .float, v => v
  | .uint b, v => v % (2 ^ b : Nat)
  | .sint b, v => (v + (2 ^ (b - 1) : Nat)) % (2 ^ b : Nat) - (2 ^ (b - 1) : Nat)

/-- How an operand of the difference gets its dtype. -/
inductive Operand where
  | cast          -- `.astype(float)`
  | reindexNaN    -- float by construction: `reindex` introduces NaN for the roots' missing parents
  | raw           -- the coordinate columns' own dtype
deriving DecidableEq, Repr

def Operand.ofName : String → Option Operand
  | "cast" => some .cast
  | "reindex-nan" => some .reindexNaN
  | "raw" => some .raw
  | _ => none

def Operand.isFloat : Operand → Bool
  | .raw => false
  | _ => true

/-- numpy promotion: the difference is computed in float as soon as one operand is float. -/
def diffDt (l r : Operand) (col : Dt) : Dt := if l.isFloat || r.isFloat then .float else col

/-- One site that computes an edge length: the two operands and whether the squares are taken on the difference
array itself (`(a - b) ** 2`, in the difference's dtype) or after a conversion to float (`np.linalg.norm`). -/
structure Site where
  child : Operand
  parent : Operand
  sqInDtype : Bool
deriving Repr

/-- Squared length of the edge between two rows as computed in dtype `d`. -/
def sqLenIn (d : Dt) (sqInDtype : Bool) (na nb : Node) : Int :=
  let f := fun (p q : Int) =>
    let dv := wrapIn d (p - q)
    if sqInDtype then wrapIn d (dv * dv) else dv * dv
  f na.x nb.x + f na.y nb.y + f na.z nb.z

/-- Edge length a site computes for coordinate columns of dtype `col` (`isqrt`: exact on the perfect squares the
harness generates). -/
def edgeLenAt (s : Site) (col : Dt) (t : Table) (a b : Int) : Nat :=
  match find? t a, find? t b with
  | some na, some nb => isqrt (sqLenIn (diffDt s.child s.parent col) s.sqInDtype na nb).toNat
  | _, _ => 0

end Navis.EdgeDtype
