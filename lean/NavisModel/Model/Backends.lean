import NavisModel.Model.Dist
/-
The places where navis' back-ends compute "the same thing" differently (C04), modelled side by side.
-/
namespace Navis.Forest

/-! ### graph builders: `neuron2nx` uses node ids, `neuron2igraph` uses row positions -/

/-- `neuron2nx`: edges `(child id, parent id)` of the non-root rows. -/
def idEdges (t : Table) : List (Int × Int) := edges t

/-- `neuron2igraph`: edges `(row index of child, row index of parent)`; the vertex attribute
`node_id` is the id column in row order. -/
def idxEdges (t : Table) : List (Nat × Nat) :=
  (t.zipIdx.filter fun p => !isRootNode p.1).map fun p => (p.2, (ids t).idxOf p.1.parent)

/-- Translating igraph vertex indices back through the `node_id` attribute. -/
def relabel (t : Table) (e : Nat × Nat) : Int × Int := ((ids t).getD e.1 (-1), (ids t).getD e.2 (-1))

/-! ### classification: by the parent column (`classify_nodes`) or by graph degrees (`_classify_nodes_old`) -/

/-- `_classify_nodes_old`: ends = in-degree 0, branches = in-degree > 1, root overrides. -/
def classifyOldNode (t : Table) (n : Node) : Label :=
  if n.parent < 0 then .root
  else if childCount t n.id > 1 then .branch
  else if childCount t n.id = 0 then .end_
  else .slab

/-! ### `_break_segments`: seeds and stops from degrees (igraph) or from the `type` column (networkx) -/

/-- igraph: `end` = in-degree 0, `branch` = in-degree > 1 ∧ out-degree 1, `root` = out-degree 0;
seeds = (branch ∪ end) − root. -/
def seedsIgraph (t : Table) : List Int :=
  (t.filter fun n => (childCount t n.id == 0 || (childCount t n.id > 1 && !isRootNode n)) && !isRootNode n).map (·.id)

def stopsIgraph (t : Table) : List Int :=
  (t.filter fun n => (childCount t n.id > 1 && !isRootNode n) || isRootNode n).map (·.id)

/-- networkx: from the `type` column. -/
def seedsNx (t : Table) : List Int :=
  (t.filter fun n => n.label == .branch || n.label == .end_).map (·.id)

def stopsNx (t : Table) : List Int :=
  (t.filter fun n => n.label == .branch || n.label == .root).map (·.id)

end Navis.Forest
