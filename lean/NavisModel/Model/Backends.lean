import NavisModel.Model.Dist
/-
The places where navis' back-ends compute "the same thing" differently (C04), modelled side by side.
-/
namespace Navis.Forest

/-! ### graph builders: `neuron2nx` uses node ids, `neuron2igraph` uses row positions -/

/-- `neuron2nx`: edges `(child id, parent id)` of the non-root rows. -/
def idEdges (t : Table) : List (Int × Int) := edges t

/-- `neuron2igraph`: edges `(row index of child, row index of parent)`; the vertex attribute
`node_id` is the id column in row order. -/
def idxEdges (t : Table) : List (Nat × Nat) :=
  (t.zipIdx.filter fun p => !isRootNode p.1).map fun p => (p.2, (ids t).idxOf p.1.parent)

/-- Translating igraph vertex indices back through the `node_id` attribute. -/
def relabel (t : Table) (e : Nat × Nat) : Int × Int := ((ids t).getD e.1 (-1), (ids t).getD e.2 (-1))

/-! ### classification: by the parent column (`classify_nodes`) or by graph degrees (`_classify_nodes_old`) -/

/-- `_classify_nodes_old`: ends = in-degree 0, branches = in-degree > 1, root overrides. -/
def classifyOldNode (t : Table) (n : Node) : Label :=
  if n.parent < 0 then .root
  else if childCount t n.id > 1 then .branch
  else if childCount t n.id = 0 then .end_
  else .slab

/-! ### `_break_segments`: seeds and stops from degrees (igraph) or from the `type` column (networkx) -/

/-- igraph: `end` = in-degree 0, `branch` = in-degree > 1 ∧ out-degree 1, `root` = out-degree 0;
seeds = (branch ∪ end) − root. -/
def seedsIgraph (t : Table) : List Int :=
  (t.filter fun n => (childCount t n.id == 0 || (childCount t n.id > 1 && !isRootNode n)) && !isRootNode n).map (·.id)

def stopsIgraph (t : Table) : List Int :=
  (t.filter fun n => (childCount t n.id > 1 && !isRootNode n) || isRootNode n).map (·.id)

/-- networkx: from the `type` column. -/
def seedsNx (t : Table) : List Int :=
  (t.filter fun n => n.label == .branch || n.label == .end_).map (·.id)

def stopsNx (t : Table) : List Int :=
  (t.filter fun n => n.label == .branch || n.label == .root).map (·.id)

/-- `_classify_nodes_old`, networkx branch: `g.degree` counts in- AND out-edges; `ends` = degree 1,
`branches` = degree > 2; then `type = "slab"`, ends ↦ `end`, branches ↦ `branch`, `parent_id < 0` ↦ `root`
(later assignments override earlier ones). -/
def classifyOldNxNode (t : Table) (n : Node) : Label :=
  let deg := childCount t n.id + (if n.parent < 0 then 0 else 1)
  let l0 := Label.slab
  let l1 := if deg = 1 then Label.end_ else l0
  let l2 := if deg > 2 then Label.branch else l1
  if n.parent < 0 then Label.root else l2

/-! ### `geodesic_matrix(from_=…)`: which rows, in which order, under which label -/

/-- Remove repeated ids (first occurrence of each distinct value of the *tail* wins; only the set matters). -/
def dedup : List Int → List Int
  | [] => []
  | x :: xs => if xs.contains x then dedup xs else x :: dedup xs

/-- `np.unique(from_)`: sorted, duplicate-free. -/
def npUnique (l : List Int) : List Int := sortedInts (dedup l)

/-- fastcore branch: `ix = from_` (after `np.unique`): rows in ascending id order. -/
def geoRowLabelsFastcore (_t : Table) (from_ : List Int) : List Int := npUnique from_

/-- igraph / networkx branches: `indices = np.where(np.isin(nodeList, from_))[0]; ix = nodeList[indices]`:
rows in node-table order. -/
def geoRowLabelsPython (t : Table) (from_ : List Int) : List Int := (ids t).filter fun i => (npUnique from_).contains i

/-- The labelled rows of the matrix: every back-end computes the row of source `a` as the distances from
`a` to all nodes in table order. -/
def geoLabelled (t : Table) (len : Int → Int → Nat) (directed : Bool) (limit : Option Nat) (rows : List Int) :
    List (Int × List (Option Nat)) :=
  rows.map fun a => (a, (ids t).map fun b => applyLimit limit (geo t len directed a b))

/-! ### `reroot_skeleton`: the path from the new root to the old root -/

/-- igraph `g.get_shortest_paths(v, to=w)` in the directed child→parent graph: the root path of `v` up to
`w` when `w` lies on it, `[]` (unreachable) otherwise. -/
def shortestOut (t : Table) (v w : Int) : List Int := (uptoIncl w (rootPath t v)).getD []

/-- igraph branch: paths to ALL roots, `[p for p in path if p][0]` (`none`: `IndexError`). -/
def rerootPathIgraph (t : Table) (r : Int) : Option (List Int) :=
  ((roots t).map fun rt => shortestOut t r rt).find? fun p => !p.isEmpty

/-- networkx branch: `path = [new_root]; while parent is not None: path.append(parent); parent = next(g.successors(parent), None)`. -/
def rerootPathNx (t : Table) (r : Int) : List Int := rootPath t r

end Navis.Forest
