"""C13 — down- and resampling preserve branching structure and geometry.

Downsampling: `navis.downsample_neuron` / `x.downsample` / `x.simple` vs the Lean model `downsample`
(`f.ops ds=…`, exact node table) for all factors incl. inf, preserved sets (list / set / array /
"connectors"), somas, forests, zero-length edges; the Lean checker `dsCheck` (sound by
`Props.C13.dsCheck_sound`) is evaluated on navis' own output: kept rows are original rows, fix points
kept, new parent = nearest kept ancestor, gap ≤ factor.

Resampling: `navis.resample_skeleton` / `x.resample` on forests with integer edge lengths vs the Lean
model (`c13.resample`): per original small segment (keyed by its anchors) the number of interior nodes,
the positions and radii (exact rationals from the model, doubles of navis converted with
`Fraction(float)`, relative tolerance 1e-9), plus oracles on navis' output alone: anchors keep id and
coordinates, new ids fresh and unique, node count, well-formed forest, every new node on the original
cable, cable length not increased, soma / connectors / tags re-attached to a nearest new node
(`c13.nearest`, ties accepted as a set).

Second pass: the as-written model `downsampleG` (`c13.dsg`: float factors (rounded down), `preserve_nodes=None` vs list, soma list, the
`factor <= 1` guard), soma on slab nodes / node id 0 as slab / ids not in the table / NeuronList inputs / array somas;
resampling: the Lean checker `attachOKB` (`c13.attach`, sound by `Props.C13.attachCheck_sound`) on navis' re-attached
soma + connectors + tags together, compared with the model `reattachG` when there is no tie, exact-tie inputs, numeric and
categorical mapped columns (`c13.nearestidx`), every non-linear `method` with coincident nodes and `skip_errors` both ways,
resolutions larger than every segment (= the contracted skeleton), unit strings ('1 micron' on nm / 8 nm / µm neurons),
NeuronLists, two-step histories (downsample → resample → downsample with non-contiguous ids)."""
import math, random, warnings
from fractions import Fraction as Fr
import numpy as np
import pandas as pd

warnings.filterwarnings('ignore')
import navis
from . import gen as G

navis.config.pbar_hide = True
navis.set_loggers('ERROR')

TOL = Fr(1, 10 ** 9)


# ------------------------------------------------------------------------------------------------
# helpers
# ------------------------------------------------------------------------------------------------
def parent_map(x):
    nd = x.nodes
    return {int(i): int(p) for i, p in zip(nd.node_id.values, nd.parent_id.values)}


def coords_of(x):
    nd = x.nodes
    return {int(i): (float(a), float(b), float(c), float(r)) for i, a, b, c, r in
            zip(nd.node_id.values, nd.x.values, nd.y.values, nd.z.values, nd.radius.values)}


def topo_fix(pm):
    """roots, leafs, branch points from the parent map alone."""
    cnt = {}
    for i, p in pm.items():
        if p >= 0:
            cnt[p] = cnt.get(p, 0) + 1
    return sorted(i for i, p in pm.items() if p < 0 or cnt.get(i, 0) != 1)


def make_neuron(case):
    rows = case['rows']
    df = G.rows_to_df(rows)
    rad = case.get('radii')
    if rad:
        df['radius'] = [float(Fr(rad[str(r['id'])])) if str(r['id']) in rad else 0.01 for r in rows]
    if case.get('int32'):
        df['node_id'] = df.node_id.astype(np.int32)
        df['parent_id'] = df.parent_id.astype(np.int32)
    x = navis.TreeNeuron(df, units=case.get('units', '1 nm'))
    conns = case.get('connectors')
    if conns:
        x.connectors = pd.DataFrame(dict(connector_id=list(range(1, len(conns) + 1)), node_id=np.array(conns, dtype=np.int64),
                                         x=0.0, y=0.0, z=0.0, type=[k % 2 for k in range(len(conns))]))
    if case.get('tags'):
        x.tags = {k: list(v) for k, v in case['tags'].items()}
    if case.get('soma') is not None:
        x.soma = case['soma']
    elif case.get('soma_none'):
        x.soma = None
    return x


def frs(v):
    f = Fr(v)
    return str(f.numerator) if f.denominator == 1 else f'{f.numerator}/{f.denominator}'


def close(a, b, tol=TOL):
    a, b = Fr(a), Fr(b)
    return abs(a - b) <= tol * max(1, abs(b))


def cable64(pm, c):
    """Cable length in float64 (navis' own `cable_length` accumulates in float32)."""
    return float(sum(math.sqrt(sum((c[i][k] - c[p][k]) ** 2 for k in range(3))) for i, p in pm.items() if p >= 0))


def edge_len(a, b):
    d2 = sum((a[k] - b[k]) ** 2 for k in range(3))
    r = math.isqrt(d2)
    return r if r * r == d2 else None


# ------------------------------------------------------------------------------------------------
# downsampling
# ------------------------------------------------------------------------------------------------
def _factor(case):
    """(python value handed to navis, rational string for the model, floor as used by the walk / 'inf')"""
    f = case['f']
    if f == 'inf':
        return float('inf'), 'inf', 'inf'
    q = Fr(f)
    ft = case.get('ftype', 'auto')
    if ft == 'np.int64':
        v = np.int64(int(q))
    elif ft == 'np.float32':
        v = np.float32(float(q))
    elif ft == 'float' or q.denominator != 1:
        v = float(q)
    else:
        v = int(q)
    return v, frs(q), math.floor(q)


def case_ds(ctx, case, be=None, x=None):
    x = make_neuron(case) if x is None else x
    pres, how = case['pres'], case.get('how', 'func')
    fpy, fq, fc = _factor(case)
    f = case['f']
    pm0, c0 = parent_map(x), coords_of(x)
    wire = G.wire_neuron(x)
    soma = [] if x.soma is None else [int(v) for v in np.atleast_1d(x.soma)]
    what = f"downsample(f={f}, preserve={case.get('presform', 'list')}, via={how}) [{be}]"
    bad_factor = f != 'inf' and Fr(f) <= 1
    try:
        if how == 'simple':
            y = x.simple
            soma = []
        elif how == 'method':
            y = x.downsample(fpy, inplace=False, preserve_nodes=_pres_arg(case, pres))
        elif how == 'method_default':          # TreeNeuron.downsample(): factor defaults to 5
            y = x.downsample(inplace=False, preserve_nodes=_pres_arg(case, pres))
        elif how == 'inplace':
            y = x.copy()
            navis.downsample_neuron(y, fpy, inplace=True, preserve_nodes=_pres_arg(case, pres))
        elif how == 'inplace_same':            # the very same object (warm caches of earlier steps)
            navis.downsample_neuron(x, fpy, inplace=True, preserve_nodes=_pres_arg(case, pres))
            y = x
        elif how == 'list':                    # NeuronList in → NeuronList out, every member downsampled
            other = make_neuron(dict(case, rows=case['rows2'], soma=None, connectors=None, tags=None, soma_none=True)) if case.get('rows2') else x.copy()
            nl = navis.downsample_neuron(navis.NeuronList([x, other]), fpy, preserve_nodes=_pres_arg(case, pres))
            ctx.oracle(isinstance(nl, navis.NeuronList) and len(nl) == 2, f'{what}: NeuronList in, {type(nl).__name__} of length {len(nl) if hasattr(nl, "__len__") else "?"} out', case)
            y = nl[0]
        else:
            y = navis.downsample_neuron(x, fpy, preserve_nodes=_pres_arg(case, pres))
    except Exception as e:
        if bad_factor and isinstance(e, ValueError):
            ctx.corr('ERR:value', ctx.ask(f"c13.dsg {fq} none - | {wire}"), f'{what}: factor <= 1 is rejected', case)
            ctx.count('ds_factor', '<=1 (ValueError)')
            return
        ctx.oracle(False, f'{what} raised {type(e).__name__}: {str(e)[:100]}', case)
        return
    if bad_factor:
        ctx.corr('accepted', 'ERR:value', f'{what}: a factor <= 1 must raise ValueError', case)
        return
    ctx.count('ds_factor', f if how != 'method_default' else 'default(5)')
    ctx.count('ds_how', how)
    if how == 'method_default':
        fq, fc = '5', 5
    mpres = sorted(set((pres or []) + soma))
    # (1) the as-written model: preserve_nodes None / list, soma list, rational factor
    ptok = 'none' if (pres is None or how == 'simple') else (','.join(map(str, sorted(set(pres)))) or '-')
    stok = ','.join(map(str, soma)) or '-'
    out = ctx.ask(f"c13.dsg {fq} {ptok} {stok} | {wire}")
    mg, _, mh = out.partition(' # ')
    ctx.corr(G.topo_neuron(y), mg, f'{what}: node table vs the as-written Lean model `downsampleG`', case)
    ctx.corr(mg, mh, f'{what}: as-written model vs `downsample` (theorem gen_downsample_is_model)', case)
    # (2) the hand-written model through the shared op language (integer factor = floor: navis rounds a finite factor down)
    model = ctx.ask(f"f.ops ds={fc}={','.join(map(str, mpres))} | {wire}")
    ctx.corr(G.topo_neuron(y), model, f'{what}: node table vs Lean `downsample`', case)
    # property oracle on navis' own output (Lean checker)
    fix = sorted(set(topo_fix(pm0)) | (set(mpres) & set(pm0)))
    if len(pm0) <= 1:
        fix = sorted(pm0)
    chk = ctx.ask(f"c13.dscheck {fc} {','.join(map(str, fix))} | {wire} | {G.wire_neuron(y)}")
    if chk != '1':
        pm1 = parent_map(y)
        miss = [i for i in fix if i not in pm1]
        sig = None
        det = f'fix points dropped: {miss}' if miss else 'a kept node is not linked to its nearest kept ancestor within the factor, or a row changed'
        if not miss and f != 'inf' and Fr(f).denominator != 1 and how != 'method_default':
            # the statement bounds the gap by `factor` itself: would the table pass with ceil(factor)?  Then the factor was not rounded down
            loose = ctx.ask(f"c13.dscheck {math.ceil(Fr(f))} {','.join(map(str, fix))} | {wire} | {G.wire_neuron(y)}")
            if loose == '1':
                det = f'{math.ceil(Fr(f))} consecutive nodes dropped between a kept node and its new parent, more than the factor {float(Fr(f))}'
                sig = 'downsample_neuron/non-integer-factor/gap-is-ceil(factor)'
        ctx.oracle(False, f'{what}: {det}', case, signature=sig)
    else:
        ctx.oracle(True, what, case)
    c1 = coords_of(y)
    if how == 'simple':
        # `x.simple` is the skeleton reduced to its roots, leafs and branch points — a soma on a slab node must NOT survive
        # (the copy's soma is cleared before the walk), and the cached result carries no soma
        want, got = topo_fix(pm0), sorted(parent_map(y))
        ctx.count('simple_soma', 'none' if x.soma is None else ('slab' if any(int(v) not in want for v in np.atleast_1d(x.soma)) else 'anchor'))
        ctx.oracle(got == want, f'{what}: x.simple keeps the nodes {sorted(set(got) - set(want))[:6]} that are neither root, leaf nor branch point '
                   f'and lacks {sorted(set(want) - set(got))[:6]} (soma of x: {x.soma})', case)
        ctx.oracle(y.soma is None, f'{what}: x.simple carries a soma ({y.soma})', case)
    ctx.oracle(all(i in c0 and c0[i] == c1[i] for i in c1), f'{what}: a kept node changed id/coordinates/radius', case)
    w = ctx.ask('f.wf ' + G.wire_neuron(y))
    ctx.oracle(w == '1 1', f'{what}: result is not a well-formed, correctly labelled forest ({w})', case)
    # branching structure: forks and tips unchanged (child counts of non-slab nodes)
    def cc(pm):
        c = {}
        for i, p in pm.items():
            if p >= 0:
                c[p] = c.get(p, 0) + 1
        return c
    cc0, cc1 = cc(pm0), cc(parent_map(y))
    pm1 = parent_map(y)
    tf = [i for i in topo_fix(pm0) if i in pm1]
    ctx.oracle(all(cc0.get(i, 0) == cc1.get(i, 0) for i in tf) and all(cc1.get(i, 0) == 1 for i in pm1 if i not in tf or cc0.get(i, 0) == 1),
               f'{what}: number of children of a root/leaf/branch point changed (branching structure)', case)
    # root paths inherited: the ancestors of a kept node in the result are its kept ancestors in the input, in order
    def rp(pm, i):
        out = []
        while i >= 0 and len(out) <= len(pm) + 1:
            out.append(i); i = pm.get(i, -1)
        return out
    ctx.oracle(all(rp(pm1, i) == [a for a in rp(pm0, i) if a in pm1] for i in pm1),
               f'{what}: the root path of a kept node is not its old root path restricted to the kept nodes', case)
    if how in ('func', 'method', 'list'):
        ctx.oracle(parent_map(x) == pm0 and coords_of(x) == c0, f'{what}: the input neuron was modified although inplace=False', case)
    # soma survives
    if soma and how != 'simple':
        s1 = [] if y.soma is None else [int(v) for v in np.atleast_1d(y.soma)]
        ctx.oracle(sorted(s1) == sorted(soma) and all(s in pm1 for s in soma), f'{what}: soma {soma} → {s1} (must be kept as it is)', case)
    return y


def _pres_arg(case, pres):
    form = case.get('presform', 'list')
    if pres is None:
        return None
    if form == 'set':
        return set(pres)
    if form == 'array':
        return np.array(pres, dtype=np.int64)
    if form == 'connectors':
        return 'connectors'
    return list(pres)


# ------------------------------------------------------------------------------------------------
# resampling
# ------------------------------------------------------------------------------------------------
def parse_model(out):
    head, _, body = out.partition(' # ')
    meta = dict(t.split('=') for t in head.split())
    ents = []
    for e in body.split(' ; '):
        e = e.strip()
        if not e:
            continue
        hdr, _, pts = e.partition('@')
        first, last, k, base, coll, total = hdr.split(',')
        P = [tuple(Fr(v) for v in p.split(',')) for p in pts.split()]
        ents.append(dict(first=int(first), last=int(last), k=int(k), base=int(base), collapsed=coll == '1', total=Fr(total), pts=P))
    return meta, ents


def seg_path(pm0, first, last):
    s = [first]
    while s[-1] != last and pm0.get(s[-1], -1) >= 0 and len(s) <= len(pm0) + 1:
        s.append(pm0[s[-1]])
    return s


def dist_to_polyline(p, poly):
    best = None
    P = np.array(p[:3], dtype=float)
    for a, b in zip(poly[:-1], poly[1:]):
        A, B = np.array(a[:3], dtype=float), np.array(b[:3], dtype=float)
        d = B - A
        dd = float(d @ d)
        t = 0.0 if dd == 0 else min(1.0, max(0.0, float((P - A) @ d) / dd))
        v = float(np.linalg.norm(P - (A + t * d)))
        best = v if best is None else min(best, v)
    return best


def refused_segments(x, resf, method):
    """First nodes of the small segments for which scipy's interp1d raises ValueError although the segment is not
    shorter than the target (too few points for the spline order, or repeated arc lengths caused by zero-length
    edges).  With `skip_errors=True` (default) resample_skeleton keeps the original nodes of such a segment."""
    import scipy.interpolate
    if method == 'linear':
        return set()
    c = coords_of(x)
    out = set()
    for seg in x.small_segments:
        pts = np.array([c[int(i)][:3] for i in seg])
        dist = np.insert(np.cumsum(np.linalg.norm(np.diff(pts.T), axis=0)), 0, 0)
        if dist[-1] < resf or (method == 'cubic' and len(seg) <= 3):
            continue
        try:
            scipy.interpolate.interp1d(dist, pts[:, 0], kind=method)
        except ValueError:
            out.add(int(seg[0]))
    return out


def interp1d_refuses(x, resf, method):
    return bool(refused_segments(x, resf, method))


def nearest_check(ctx, x, y, case, what, queries):
    """queries: list of (label, old node id, new node id or None).  The new node must be a nearest node of
    the resampled neuron to the old node's position."""
    if not queries:
        return
    c0, c1 = coords_of(x), coords_of(y)
    qs = ' '.join(','.join(frs(v) for v in c0[q[1]][:3]) for q in queries)
    ns = ' '.join(f"{i}:" + ','.join(frs(v) for v in c[:3]) for i, c in c1.items())
    out = ctx.ask(f'c13.nearest {frs(TOL)} | {qs} | {ns}')
    sets = [set(int(v) for v in s.split(',') if v) for s in out.split(';')]
    for (lab, old, new), adm in zip(queries, sets):
        ctx.oracle(new is not None and int(new) in adm,
                   f'{what}: {lab} on old node {old} re-attached to {new}, nearest new node(s) {sorted(adm)}', case,
                   signature=case.get('_sig_nearest'))


def rows_of(x):
    nd = x.nodes
    return [dict(id=int(i), parent=int(p), x=int(round(float(a))), y=int(round(float(b))), z=int(round(float(c))))
            for i, p, a, b, c in zip(nd.node_id.values, nd.parent_id.values, nd.x.values, nd.y.values, nd.z.values)]


def attach_payload(x, y):
    """soma / connectors / tags of input and output as the three `A/B` sections of `c13.attach` (None when shapes differ)."""
    def lst(v):
        return '-' if v is None else ','.join(str(int(i)) for i in np.atleast_1d(v))
    so = f'{lst(x.soma)}/{lst(y.soma)}'
    ca = lst(x.connectors.node_id.values) if x.has_connectors else '-'
    cb = lst(y.connectors.node_id.values) if y.has_connectors else '-'
    def tg(t):
        if not t:
            return '-'
        return ';'.join(f"{k}={','.join(str(int(i)) for i in t[k])}" for k in sorted(t))
    ta = tg(x.tags) if x.has_tags else '-'
    tb = tg(y.tags) if y.has_tags else '-'
    return f'{so} | {ca}/{cb} | {ta}/{tb}'


def case_rs(ctx, case, be=None, x=None):
    x = make_neuron(case) if x is None else x
    rows = case['rows'] if case.get('rows_from_x') is None else rows_of(x)
    res = case['res']
    method = case.get('method', 'linear')
    how = case.get('how', 'func')
    what = f"resample_skeleton(res={res!r}, method={method}, via={how}) [{be}]"
    pm0, c0 = parent_map(x), coords_of(x)
    soma0 = x.soma
    try:
        resf = float(x.map_units(res, on_error='raise'))
    except Exception as e:
        ctx.oracle(False, f'{what}: map_units raised {type(e).__name__}', case)
        return
    if 'res_expect' in case:
        ctx.oracle(close(resf, Fr(case['res_expect'])), f"{what}: unit string maps to {resf}, expected {case['res_expect']}", case)
    kw = {}
    mc = []
    if case.get('mapcol'):
        x.nodes['vcol'] = [float(Fr(case['mapcol'][str(r['id'])])) for r in rows]
        mc.append('vcol')
    if case.get('catcol'):
        x.nodes['ccol'] = [case['catcol'][str(r['id'])] for r in rows]
        mc.append('ccol')
    if mc:
        kw['map_columns'] = mc[0] if (case.get('mapcol_as_str') and len(mc) == 1) else mc
    if 'skip_errors' in case:
        kw['skip_errors'] = case['skip_errors']
    refused0 = refused_segments(x, resf, method)
    try:
        if how == 'method':
            y = x.resample(res, inplace=False)
        elif how == 'inplace':
            y = x.copy()
            navis.resample_skeleton(y, res, inplace=True, method=method, **kw)
        elif how == 'list':
            nl = navis.resample_skeleton(navis.NeuronList([x, x.copy()]), res, method=method, **kw)
            ctx.oracle(isinstance(nl, navis.NeuronList) and len(nl) == 2, f'{what}: NeuronList in, {type(nl).__name__} out', case)
            y = nl[0]
        else:
            y = navis.resample_skeleton(x, res, method=method, **kw)
    except Exception as e:
        sig = None
        pmx = pm0
        if isinstance(e, ValueError) and case.get('skip_errors') is False and refused0:
            # scipy cannot interpolate a segment with this method and the caller asked not to skip errors
            ctx.count('rs_error', 'ValueError re-raised (skip_errors=False)')
            ctx.oracle(parent_map(x) == pm0, f'{what}: the input was modified before the error was re-raised', case)
            return
        if method != 'linear' and isinstance(e, KeyError) and interp1d_refuses(x, resf, method):
            sig = 'resample_skeleton/non-linear-method/interp1d-refuses-a-segment/KeyError'
        if isinstance(e, AttributeError) and 'to_nunmeric' in str(e):
            sig = 'resample_skeleton/id-overflow-branch/pd.to_nunmeric-AttributeError'
        ctx.oracle(False, f'{what} raised {type(e).__name__}: {str(e)[:100]}', case, signature=sig)
        ctx.count('rs_error', type(e).__name__)
        return
    ctx.count('rs_method', method)
    ctx.count('rs_how', how)
    radii = case.get('radii') or {}
    rad = ','.join(f"{r['id']}={radii.get(str(r['id']), '1/100')}" for r in rows)
    out = ctx.ask(f"c13.resample {frs(Fr(resf))} | {G.wire_rows(rows)} | {rad}")
    meta, ents = parse_model(out)
    if meta.get('exact') != '1':
        ctx.count('rs_skipped', 'non-integer edge length (exact model not applicable)')
        return
    pm1, c1 = parent_map(y), coords_of(y)
    ids0 = set(pm0)
    if any(i < 0 for i in pm1):
        sig = 'resample_skeleton/int32-ids-near-2**31/new-ids-wrap-negative' if str(x.nodes.node_id.dtype) == 'int32' else None
        ctx.oracle(False, f'{what}: result contains negative node ids {sorted(i for i in pm1 if i < 0)[:4]} (fresh ids wrapped around the id dtype)', case, signature=sig)
        return
    if how in ('func', 'method', 'list'):
        ctx.oracle(parent_map(x) == pm0 and coords_of(x) == c0, f'{what}: the input neuron was modified although inplace=False', case)
    # -- anchors keep id and coordinates ---------------------------------------------------------
    anchors = topo_fix(pm0)
    if method == 'linear':
        ok = all(a in c1 and c1[a][:3] == c0[a][:3] for a in anchors)
    else:   # splines pass through their knots only up to rounding
        ok = all(a in c1 and all(close(c1[a][k], c0[a][k]) for k in range(3)) for a in anchors)
    ctx.oracle(ok, f'{what}: a root / leaf / branch point lost its id or moved', case)
    if not ok:
        return
    # -- well-formed, ids unique ------------------------------------------------------------------
    nd = y.nodes
    ctx.oracle(not bool(nd[['node_id', 'parent_id', 'x', 'y', 'z']].isnull().any().any()), f'{what}: NaN in the node table', case)
    w = ctx.ask('f.wf ' + G.wire_neuron(y))
    ctx.oracle(w == '1 1', f'{what}: result is not a well-formed, correctly labelled forest ({w})', case)
    if case.get('expect_contracted'):
        # no segment is as long as the target: only roots, leafs and branch points remain — the skeleton contracted as by factor inf
        ctx.corr(G.topo_neuron(y), ctx.ask(f"f.ops ds=inf= | {G.wire_neuron(x)}"), f'{what}: resolution above every segment length vs the contracted skeleton', case)
    linear = method in ('linear', 'slinear')      # a first-order spline is the same piecewise linear interpolation
    refused = refused0
    total_interior = 0
    seen_new = set()
    chains = {}
    for e in ents:
        seg = seg_path(pm0, e['first'], e['last'])
        poly = [c0[i] for i in seg]
        k = e['k']
        if method == 'cubic' and len(seg) <= 3:
            k = 0
        kept_original = e['first'] in refused
        if kept_original:
            k = len(seg) - 2
        # walk the implementation's chain between the two anchors
        ch = [e['first']]
        while ch[-1] != e['last'] and len(ch) <= k + len(seg) + 3:
            nxt = pm1.get(ch[-1], -1)
            if nxt < 0:
                break
            ch.append(nxt)
        if ch[-1] != e['last']:
            ctx.oracle(False, f"{what}: segment {e['first']}→{e['last']}: walking up from the first anchor does not reach the last anchor", case)
            return
        inner = ch[1:-1]
        chains[e['first']] = (seg, ch, k, kept_original)
        ctx.count('rs_seg', 'collapsed' if e['collapsed'] else ('k=0' if k == 0 else 'k>0'))
        if e['total'] == Fr(resf):
            ctx.count('rs_tie', 'total==res')
        elif (e['total'] / Fr(resf) * 2).denominator == 1 and (e['total'] / Fr(resf)).denominator == 2:
            ctx.count('rs_tie', 'half')
        if not ctx.corr(len(inner), k, f"{what}: segment {e['first']}→{e['last']} (length {e['total']}): number of interior nodes vs model", case):
            return
        if kept_original:
            # scipy cannot interpolate this segment with the requested method: its original nodes must be kept as they are
            ctx.count('rs_seg', 'kept-original(skip_errors)')
            ctx.oracle(ch == seg and all(c1[i][:3] == c0[i][:3] for i in seg),
                       f"{what}: segment {e['first']}→{e['last']} cannot be interpolated by scipy; its original nodes {seg} must be kept, got {ch}", case)
            total_interior += len(inner)
            continue
        ok = all(i not in ids0 for i in inner) and not (set(inner) & seen_new)
        ctx.oracle(ok, f"{what}: interior ids {inner} of segment {e['first']}→{e['last']} are not fresh/unique", case)
        seen_new |= set(inner)
        total_interior += len(inner)
        # every new node on the original cable
        scale = max(1.0, max(abs(v) for p in poly for v in p[:3]))
        for i in inner:
            if linear:
                d = dist_to_polyline(c1[i], poly)
                ctx.oracle(d <= 1e-9 * scale, f"{what}: new node {i} lies {d:g} off the original cable of segment {e['first']}→{e['last']}", case)
        if linear:
            # positions / radii = the model's exact arc-length interpolation
            cum = [0]
            for a, b in zip(seg[:-1], seg[1:]):
                cum.append(cum[-1] + edge_len([int(v) for v in c0[a][:3]], [int(v) for v in c0[b][:3]]))
            dup = {d for d in cum if cum.count(d) > 1}
            for j, i in enumerate(ch[:-1]):
                m = e['pts'][j]
                got = c1[i]
                s = Fr(j) * e['total'] / (k + 1)
                okp = all(close(got[a], m[a]) for a in range(3))
                if not ctx.oracle(okp, f"{what}: node {i} (sample {j} of {k + 2} of segment {e['first']}→{e['last']}) is at {got[:3]}, but the point at "
                                  f"arc length {j}/{k + 1} of the original cable is {tuple(float(v) for v in m[:3])}", case):
                    return
                if s in dup:
                    ctx.count('rs_radius', 'skipped-at-coincident-nodes')
                else:
                    if not ctx.oracle(close(got[3], m[3]), f"{what}: radius of node {i} (sample {j} of segment {e['first']}→{e['last']}) is "
                                      f"{got[3]}, linear interpolation along the cable gives {float(m[3])}", case):
                        return
                    ctx.count('rs_radius', 'compared')
    nroots = sum(1 for p in pm0.values() if p < 0)
    ctx.oracle(len(pm1) == nroots + len(ents) + total_interior and len(set(nd.node_id.values.tolist())) == len(nd),
               f'{what}: node count {len(pm1)} ≠ roots {nroots} + segments {len(ents)} + interior {total_interior}', case)
    if linear:
        cl0, cl1 = cable64(pm0, c0), cable64(pm1, c1)
        ctx.oracle(cl1 <= cl0 * (1 + 1e-9) + 1e-9, f'{what}: cable length increased {cl0} → {cl1}', case)
    # mapped column (numeric): same interpolation as the radius
    if case.get('mapcol') and linear:
        rad2 = ','.join(f"{r['id']}={case['mapcol'][str(r['id'])]}" for r in rows)
        _, ents2 = parse_model(ctx.ask(f"c13.resample {frs(Fr(resf))} | {G.wire_rows(rows)} | {rad2}"))
        vals = {int(i): float(v) for i, v in zip(nd.node_id.values, nd['vcol'].values)} if 'vcol' in nd.columns else None
        ctx.oracle(vals is not None, f'{what}: mapped column is missing from the result', case)
        if vals is not None:
            for e in ents2:
                if e['first'] in refused:
                    continue
                seg = seg_path(pm0, e['first'], e['last'])
                cum = [0]
                for a, b in zip(seg[:-1], seg[1:]):
                    cum.append(cum[-1] + edge_len([int(v) for v in c0[a][:3]], [int(v) for v in c0[b][:3]]))
                dup = {d for d in cum if cum.count(d) > 1}
                ch = [e['first']]
                while ch[-1] != e['last']:
                    ch.append(pm1[ch[-1]])
                for j, i in enumerate(ch[:-1]):
                    if Fr(j) * e['total'] / (e['k'] + 1) in dup:
                        continue
                    if not ctx.corr(close(vals[i], e['pts'][j][3]), True, f'{what}: mapped column at node {i} = {vals[i]} vs model {float(e["pts"][j][3])}', case):
                        return
    # categorical mapped column: scipy `kind='nearest'` over the arc length — the value of a nearest original node
    if case.get('catcol'):
        ok = 'ccol' in nd.columns
        ctx.oracle(ok, f'{what}: categorical mapped column is missing from the result', case)
        if ok:
            got = {int(i): v for i, v in zip(nd.node_id.values, nd['ccol'].values)}
            cat0 = {int(k): v for k, v in case['catcol'].items()}
            for r_ in (i for i, p_ in pm0.items() if p_ < 0):
                ctx.oracle(got.get(r_) == cat0[r_], f'{what}: categorical value of root {r_} changed', case)
            for first, (seg, ch, k, kept) in chains.items():
                if kept:
                    ctx.oracle(all(got.get(i) == cat0[i] for i in seg[:-1]), f'{what}: categorical values of the kept segment {seg} changed', case)
                    continue
                cum = [0]
                for a, b in zip(seg[:-1], seg[1:]):
                    cum.append(cum[-1] + edge_len([int(v) for v in c0[a][:3]], [int(v) for v in c0[b][:3]]))
                if len(set(cum)) != len(cum):
                    ctx.count('rs_cat', 'skipped-coincident-nodes')
                    continue
                if len(ch) == 2 and k == 0:
                    adm = [[0]]          # collapsed (or a single sample): the first node's own value
                else:
                    ss = ' '.join(frs(Fr(j) * cum[-1] / (k + 1)) for j in range(len(ch) - 1))
                    adm = [[int(v) for v in t_.split(',')] for t_ in ctx.ask(f"c13.nearestidx {','.join(map(str, cum))} | {ss}").split(' ')]
                for j, i in enumerate(ch[:-1]):
                    want = sorted({cat0[seg[a]] for a in adm[j] if a < len(seg)})
                    ctx.count('rs_cat', 'tie' if len(adm[j]) > 1 else 'compared')
                    if not ctx.oracle(got.get(i) in want, f"{what}: categorical column at node {i} (sample {j} of segment {seg[0]}→{seg[-1]}) is {got.get(i)!r}, "
                                      f"the nearest original node(s) carry {want}", case):
                        return
    # -- soma / connectors / tags ------------------------------------------------------------------
    queries = []
    if soma0 is not None:
        s0 = [int(v) for v in np.atleast_1d(soma0)]
        s1 = y.soma
        if s1 is None:
            sig = 'resample_skeleton/soma-node-id-0/dropped' if s0 == [0] else None
            ctx.oracle(False, f'{what}: soma {s0} is lost (result has no soma)', case, signature=sig)
        else:
            s1 = [int(v) for v in np.atleast_1d(s1)]
            if len(s1) != len(s0):
                ctx.oracle(False, f'{what}: somas {s0} mapped to {s1}', case)
            else:
                queries += [('soma', a, b) for a, b in zip(s0, s1)]
    if x.has_connectors:
        ok = y.has_connectors and len(y.connectors) == len(x.connectors) and \
            y.connectors.connector_id.tolist() == x.connectors.connector_id.tolist()
        ctx.oracle(ok, f'{what}: connector table changed size/ids', case)
        if ok:
            queries += [('connector', int(a), int(b)) for a, b in zip(x.connectors.node_id.values, y.connectors.node_id.values)]
    if x.has_tags:
        t0, t1 = x.tags, y.tags if y.has_tags else {}
        ok = sorted(t0) == sorted(t1) and all(len(t0[k]) == len(t1[k]) for k in t0)
        ctx.oracle(ok, f'{what}: tags changed keys/sizes', case)
        if ok:
            for k in t0:
                queries += [(f'tag {k}', int(a), int(b)) for a, b in zip(t0[k], t1[k])]
    # all three re-attachments at once through the Lean checker `attachOKB` (exact) / its tolerant form, and the model
    shapes_ok = not any(f_['kind'] == 'oracle' and f_['case'] is case and 'changed' in f_['what'] for f_ in ctx.failures[-3:])
    if queries and shapes_ok and (soma0 is None or y.soma is not None):
        olds = ' '.join(f"{i}:" + ','.join(frs(v) for v in c[:3]) for i, c in c0.items())
        news = ' '.join(f"{i}:" + ','.join(frs(v) for v in c[:3]) for i, c in c1.items())
        out = ctx.ask(f'c13.attach {frs(TOL)} | {olds} | {news} | {attach_payload(x, y)}')
        r_ = dict(t_.split('=') for t_ in out.split())
        ctx.count('rs_attach_check', 'exact' if r_.get('exact') == '1' else ('tolerant' if r_.get('tol') == '1' else 'FAILED'))
        if r_.get('tol') != '1':
            nearest_check(ctx, x, y, case, what, queries)
            ctx.oracle(False, f'{what}: soma / connectors / tags are not all re-attached to a nearest node of the resampled skeleton ({out})', case,
                       signature=case.get('_sig_nearest'))
        else:
            ctx.oracle(True, what, case)
            if r_.get('ties') == '0':
                ctx.corr(r_.get('model'), '1', f'{what}: re-attached soma/connectors/tags vs the Lean model `reattachG` (no ties)', case)
                ctx.count('rs_attach_model', 'compared')
            else:
                ctx.count('rs_attach_model', 'tie: any nearest node accepted')
    ctx.count('rs_attach', len(queries))
    return y


def case_soma_list(ctx, case, be=None):
    """#20/#21: several detected somas → `_soma` is pinned to a list by resampling; the resampled neuron must
    still be usable (subset / prune)."""
    y = case_rs(ctx, case, be)
    if y is None:
        return
    ids = [int(i) for i in y.nodes.node_id.values]
    pm = parent_map(y)
    leaf = [i for i in ids if i not in set(pm.values()) and pm[i] >= 0]
    keep = [i for i in ids if not leaf or i != leaf[0]]
    nso = len(np.atleast_1d(y.soma)) if y.soma is not None else 0
    for name, fn in (('subset_neuron', lambda: navis.subset_neuron(y, keep)),
                     ('prune_at_depth', lambda: navis.prune_at_depth(y, 10 ** 6, source=int(y.root[0])))):
        try:
            z = fn()
            ok, msg = True, ''
        except Exception as e:
            ok, msg = False, f'{type(e).__name__}: {str(e)[:80]}'
        sig = 'resample_skeleton/soma-pinned-to-list/then-subset-broadcast-ValueError' if (not ok and 'broadcast' in msg and nso >= 2) else None
        ctx.oracle(ok, f'after resample_skeleton of a neuron with {nso} somas, {name} raises {msg}', case, signature=sig)
        if ok and nso:
            zids = set(int(i) for i in z.nodes.node_id.values)
            want = sorted(int(v) for v in np.atleast_1d(y.soma) if int(v) in zids)
            got = [] if z.soma is None else sorted(int(v) for v in np.atleast_1d(z.soma))
            ctx.oracle(got == want, f'after resample_skeleton + {name}: somas {got}, expected the surviving ones {want}', case)


# ------------------------------------------------------------------------------------------------
# generators
# ------------------------------------------------------------------------------------------------
def rand_radii(r, rows, p=0.6):
    return {str(rw['id']): f'{r.randint(1, 64)}/64' for rw in rows if r.random() < p}


def seg_totals(rows):
    pm = {rw['id']: rw['parent'] for rw in rows}
    pos = {rw['id']: (rw['x'], rw['y'], rw['z']) for rw in rows}
    fix = set(topo_fix(pm))
    out = []
    for i in fix:
        if pm[i] < 0:
            continue
        tot, cur = 0, i
        while True:
            p = pm[cur]
            tot += edge_len(pos[cur], pos[p]) or 0
            cur = p
            if cur in fix:
                break
        out.append(tot)
    return out


def pick_res(r, rows):
    tots = [t for t in seg_totals(rows) if t > 0]
    c = r.random()
    if tots and c < 0.25:
        return r.choice(tots)                                    # exact tie total == res
    if tots and c < 0.5:
        t = r.choice(tots)
        m = r.choice([1, 2, 3, 4])                               # total / res = m + 1/2  (half-to-even)
        v = Fr(2 * t, 2 * m + 1)
        if v.denominator in (1, 2, 4, 8):
            return float(v) if v.denominator > 1 else int(v)
    if c < 0.6:
        return r.choice([0.5, 1.5, 2.5, 0.75, 3.5])
    return r.choice([1, 1, 2, 2, 3, 4, 5, 6, 7, 9, 11, 14, 22, 40])


def gen_cases(ctx, nf=None):
    r = ctx.rng
    n = nf or ctx.budget(200, 3000)
    for k in range(n):
        rows, meta = G.rand_forest(r, nmax=10 if k % 3 == 0 else 26, allow_zero_edges=(k % 4 == 0))
        ids = [rw['id'] for rw in rows]
        # ---- downsample
        pres = None if r.random() < 0.3 else [i for i in ids if r.random() < 0.2]
        presform = r.choice(['list', 'list', 'set', 'array', 'connectors'])
        d = dict(rows=rows, f=r.choice([2, 2, 3, 3, 4, 5, 7, 10, 'inf', 'inf']), pres=pres, presform=presform, meta=meta,
                 how=r.choice(['func', 'func', 'method', 'inplace']))
        if presform == 'connectors':
            d['connectors'] = pres or [ids[0]]
            d['pres'] = sorted(set(d['connectors']))
        if r.random() < 0.35:
            d['soma'] = r.choice(ids)
        yield ('ds', d)
        if k % 6 == 0:
            yield ('ds', dict(rows=rows, f='inf', pres=None, how='simple', meta=meta, **({'soma': r.choice(ids)} if r.random() < 0.5 else {})))
        # ---- resample (integer edge lengths)
        rs = dict(rows=rows, res=pick_res(r, rows), radii=rand_radii(r, rows), meta=meta, how=r.choice(['func', 'func', 'func', 'method', 'inplace']))
        if r.random() < 0.4:
            rs['soma'] = r.choice(ids)
        else:
            rs['soma_none'] = True
        if r.random() < 0.4:
            rs['connectors'] = [r.choice(ids) for _ in range(r.randint(1, 5))]
        if r.random() < 0.3:
            rs['tags'] = {'a': [r.choice(ids) for _ in range(r.randint(1, 3))], 'b': [r.choice(ids)]}
        if r.random() < 0.2 and rs['how'] != 'method':
            rs['mapcol'] = {str(i): f'{r.randint(-32, 32)}/8' for i in ids}
        if r.random() < 0.12 and isinstance(rs['res'], int):
            u = r.choice([2, 8])
            rs['units'] = f'{u} nm'
            rs['res_expect'] = str(rs['res'])
            rs['res'] = f"{rs['res'] * u} nm"
        yield ('rs', rs)
        if k % 5 == 0:
            yield ('rs', dict(rows=rows, res=r.choice([1, 2, 3, 5]), method=r.choice(['nearest', 'slinear', 'quadratic', 'cubic', 'zero']),
                              soma_none=True, meta=meta))
        if k % 10 == 0:
            # ids close to 2**31 in an int32 table: the fresh ids need the overflow branch
            rows2, meta2 = G.rand_forest(r, nmax=12, labeling='seq')
            base = 2 ** 31 - len(rows2) - r.randint(2, 6)
            for rw in rows2:
                rw['id'] += base
                rw['parent'] = rw['parent'] + base if rw['parent'] >= 0 else -1
            yield ('rs', dict(rows=rows2, res=r.choice([1, 2]), int32=True, soma_none=True, meta=meta2))
        if k % 10 == 5:
            # several detected somas (radius above the detection threshold)
            rows2, meta2 = G.rand_forest(r, n=r.randint(4, 14), shape=r.choice(['chain', 'random', 'caterpillar']))
            ids2 = [rw['id'] for rw in rows2]
            big = r.sample(ids2, 2)
            radii = {str(i): (f'{r.choice([2000, 3000, 5000])}' if i in big else '1/64') for i in ids2}
            yield ('somalist', dict(rows=rows2, res=r.choice([2, 3, 5]), radii=radii, meta=meta2))
        if k % 10 == 7:
            rows2, meta2 = G.rand_forest(r, nmax=12, labeling='zero')
            if r.random() < 0.5:
                yield ('rs', dict(rows=rows2, res=r.choice([1, 2, 3]), soma=0, meta=meta2))
            else:   # soma at node id 0 found by the radius detection (x.soma is an array)
                yield ('rs', dict(rows=rows2, res=r.choice([1, 2, 3]), radii={'0': '2000'}, meta=meta2))


def slab_ids(rows):
    pm = {rw['id']: rw['parent'] for rw in rows}
    fx = set(topo_fix(pm))
    return [i for i in pm if i not in fx]


def uniform_chain(r, n, step, labeling='seq', branches=0):
    """chain along x with constant edge length `step` (+ optional side twigs of the same step along y)."""
    ids = list(range(1, n + branches + 1))
    if labeling == 'zero':
        ids = list(range(0, n + branches)); r.shuffle(ids)
    elif labeling == 'sparse':
        ids = r.sample(range(1, 40 * (n + branches)), n + branches)
    rows = [dict(id=ids[i], parent=(ids[i - 1] if i else -1), x=step * i, y=0, z=0) for i in range(n)]
    for b in range(branches):
        at = r.randrange(1, n - 1)
        rows.append(dict(id=ids[n + b], parent=ids[at], x=step * at, y=step * (1 + b), z=0))
    return rows


def scale_rows(rows, m):
    return [dict(rw, x=rw['x'] * m, y=rw['y'] * m, z=rw['z'] * m) for rw in rows]


def gen_targeted(ctx):
    """Second-pass streams: inputs the random stream reaches rarely or never."""
    r = ctx.rng
    n = ctx.budget(36, 420)
    # ---- (0) one long unbranched stretch (> 1000 slabs): `x.simple` must still reduce it to its two ends (factor inf, not "large")
    rows = uniform_chain(r, 1102, 1, labeling='seq', branches=0)
    meta = dict(shape='long-chain', n=len(rows), labeling='seq', order='parent_first')
    yield ('ds', dict(rows=rows, f='inf', pres=None, how='simple', meta=meta, soma_none=True))
    yield ('ds', dict(rows=rows, f=1000, pres=None, meta=meta, soma_none=True))
    for k in range(n):
        # ---- (a) soma / preserved node on a SLAB node, factors out of phase with its position; node id 0 as slab
        rows, meta = G.rand_forest(r, n=r.randint(7, 18), shape=r.choice(['chain', 'caterpillar', 'broom', 'random', 'forest']),
                                   labeling=r.choice(['seq', 'zero', 'zero', 'sparse', 'shuffled', 'reversed']))
        sl = slab_ids(rows)
        ids = [rw['id'] for rw in rows]
        if sl:
            tgt = 0 if (0 in sl and r.random() < 0.6) else r.choice(sl)
            for f in r.sample([2, 3, 4, 5, 'inf', '5/2', '7/2'], 3):
                d = dict(rows=rows, f=f, pres=r.choice([None, [], [r.choice(ids)]]), meta=meta, how=r.choice(['func', 'method', 'inplace']), soma=tgt)
                yield ('ds', d)
            yield ('ds', dict(rows=rows, f=r.choice([3, 4, 'inf']), pres=[tgt], presform=r.choice(['list', 'set', 'array']), meta=meta, soma_none=True))
            # `x.simple` with a soma on a slab node: pinned id / found by the default radius detection (one node with radius > 1 µm)
            yield ('ds', dict(rows=rows, f='inf', pres=None, how='simple', meta=meta, soma=tgt))
            yield ('ds', dict(rows=rows, f='inf', pres=None, how='simple', meta=meta, radii={str(i): ('3000' if i == tgt else '1/64') for i in ids}))
        if 0 in sl:
            for f in (2, 3, 'inf'):
                yield ('ds', dict(rows=rows, f=f, pres=None, meta=meta, soma_none=True))
        # ---- (b) factor forms: float, numpy scalars, <= 1 (ValueError), the method's default
        rows, meta = G.rand_forest(r, nmax=22, allow_zero_edges=(k % 3 == 0))
        ids = [rw['id'] for rw in rows]
        f, ft = r.choice([('3/2', 'float'), ('5/2', 'float'), ('9/4', 'float'), (3, 'float'), (2, 'np.int64'), ('5/2', 'np.float32'),
                          (1, 'auto'), ('1/2', 'float'), (2, 'auto'), (7, 'auto'), ('inf', 'auto')])
        yield ('ds', dict(rows=rows, f=f, ftype=ft, pres=r.choice([None, [i for i in ids if r.random() < 0.2]]), meta=meta,
                          **({'soma': r.choice(ids)} if r.random() < 0.4 else {'soma_none': True})))
        if k % 4 == 0:
            yield ('ds', dict(rows=rows, f=5, pres=None, how='method_default', meta=meta, soma_none=True))
        # ---- (c) preserved ids that are not in the table (and negative ones), as list / set / array
        junk = [max(ids) + 17, 10 ** 9 + 7, -5]
        pres = [i for i in ids if r.random() < 0.25] + r.sample(junk, r.randint(1, 3))
        yield ('ds', dict(rows=rows, f=r.choice([2, 3, 4, 'inf']), pres=pres, presform=r.choice(['list', 'set', 'array']), meta=meta, soma_none=True))
        # ---- (d) NeuronList inputs, array-valued soma (two radius-detected somas)
        if k % 3 == 0:
            rows2, _ = G.rand_forest(r, nmax=12)
            yield ('ds', dict(rows=rows, rows2=rows2, f=r.choice([2, 3, 'inf']), pres=r.choice([None, [ids[0]]]), how='list', meta=meta, soma_none=True))
            yield ('rs', dict(rows=rows, res=pick_res(r, rows), how='list', soma_none=True, meta=meta, radii=rand_radii(r, rows)))
        if k % 4 == 1 and len(ids) >= 4:
            big = r.sample(ids, 2)
            yield ('ds', dict(rows=rows, f=r.choice([2, 3, 5, 'inf']), pres=None, meta=meta,
                              radii={str(i): ('3000' if i in big else '1/64') for i in ids}))
        # ---- (e) exact ties of the re-attachment: old slab nodes half-way between two new nodes, attachments on them
        step = r.choice([2, 3, 4])
        rows = uniform_chain(r, r.randint(5, 11), step, labeling=r.choice(['seq', 'zero', 'sparse']), branches=r.randint(0, 2))
        ids = [rw['id'] for rw in rows]
        sl = slab_ids(rows) or ids
        rs = dict(rows=rows, res=2 * step * r.choice([1, 1, 2]), meta=dict(shape='uniform-chain', n=len(rows), labeling='mixed', order='parent_first'),
                  soma=r.choice(sl), connectors=[r.choice(sl) for _ in range(r.randint(1, 4))],
                  tags={'t1': [r.choice(sl) for _ in range(r.randint(1, 3))], 't2': [r.choice(ids)]}, radii=rand_radii(r, rows))
        yield ('rs', rs)
        # ---- (f) soma + connectors + tags together (every subset of the three), categorical + numeric mapped columns
        rows, meta = G.rand_forest(r, nmax=20, allow_zero_edges=(k % 5 == 0))
        ids = [rw['id'] for rw in rows]
        combo = k % 8
        rs = dict(rows=rows, res=pick_res(r, rows), radii=rand_radii(r, rows), meta=meta, how=r.choice(['func', 'inplace']))
        if combo & 1:
            rs['soma'] = r.choice(ids)
        else:
            rs['soma_none'] = True
        if combo & 2:
            rs['connectors'] = [r.choice(ids) for _ in range(r.randint(1, 5))]
        if combo & 4:
            rs['tags'] = {'x': [r.choice(ids) for _ in range(r.randint(1, 4))], 'y': [r.choice(ids)]}
        if r.random() < 0.6:
            rs['catcol'] = {str(i): r.choice(['ax', 'de', 'so', 'cb']) for i in ids}
        if r.random() < 0.4:
            rs['mapcol'] = {str(i): f'{r.randint(-32, 32)}/8' for i in ids}
            rs['mapcol_as_str'] = r.random() < 0.5
        yield ('rs', rs)
        # ---- (g) every non-linear method, coincident nodes, skip_errors both ways, short segments (cubic needs > 3 nodes)
        rows, meta = G.rand_forest(r, nmax=18, allow_zero_edges=(k % 2 == 0), shape=r.choice(['chain', 'caterpillar', 'random', 'broom', 'forest']))
        for method in r.sample(['slinear', 'quadratic', 'cubic', 'nearest', 'zero', 'previous', 'next'], 3):
            yield ('rs', dict(rows=rows, res=r.choice([1, 2, 3, 5]), method=method, skip_errors=r.choice([True, True, False]), soma_none=True, meta=meta,
                              **({'connectors': [r.choice([rw['id'] for rw in rows])]} if r.random() < 0.3 else {})))
        # ---- (h) resolution larger than every segment: only roots / leafs / branch points remain (= downsample by inf)
        if k % 3 == 1:
            yield ('rs', dict(rows=rows, res=10 ** 6, soma_none=True, meta=meta, expect_contracted=True,
                              **({'connectors': [r.choice([rw['id'] for rw in rows])]} if r.random() < 0.5 else {})))
        # ---- (i) unit strings on neurons in nm / 8 nm / µm ('1 micron' = 1000 / 125 / 1 units)
        if k % 3 == 2:
            rows, meta = G.rand_forest(r, nmax=12)
            units, m, rstr, expect = r.choice([('1 nm', 250, '1 micron', 1000), ('8 nm', 125, '1 micron', 125), ('8 nm', 125, '2 um', 250),
                                               ('1 um', 1, '1 micron', 1), ('1 um', 1, '2 micron', 2),
                                               ('4 nm', 1, '8 nm', 2), ('1 nm', 1, '3 nm', 3)])
            yield ('rs', dict(rows=scale_rows(rows, m), res=rstr, units=units, res_expect=str(expect), soma_none=True, meta=meta, radii=rand_radii(r, rows)))
        # ---- (j) two-step histories on the SAME object (warm caches, non-contiguous ids after the first step)
        if k % 2 == 0:
            rows, meta = G.rand_forest(r, n=r.randint(6, 16), shape=r.choice(['chain', 'caterpillar', 'random', 'broot']), labeling=r.choice(['seq', 'sparse', 'zero']))
            yield ('hist', dict(rows=rows, meta=meta, steps=[r.choice([('ds', r.choice([2, 3, 'inf'])), ('rs', r.choice([2, 3, 5]))]) for _ in range(r.randint(2, 3))],
                                soma=r.choice([None, r.choice([rw['id'] for rw in rows])])))
        # ---- (k) single-node and isolated-node skeletons
        if k % 6 == 0:
            rows, meta = G.rand_forest(r, n=r.choice([1, 1, 2, 3]), shape=r.choice(['single', 'isolated']), labeling=r.choice(['seq', 'zero', 'sparse']))
            yield ('ds', dict(rows=rows, f=r.choice([2, 'inf']), pres=None, meta=meta, soma_none=True))
            yield ('rs', dict(rows=rows, res=r.choice([1, 3]), soma_none=True, meta=meta))
            yield ('rs', dict(rows=rows, res=2, soma=rows[0]['id'], connectors=[rows[-1]['id']], meta=meta))


def case_hist(ctx, case, be=None):
    """downsample / resample steps applied in place to ONE neuron object; after every step the table is compared with the
    model run on the table the step started from (ids after a resampling step are no longer contiguous)."""
    x = make_neuron(dict(case, soma=case.get('soma'), soma_none=case.get('soma') is None))
    for n_, (op, arg) in enumerate(case['steps']):
        rows = rows_of(x)
        if len(rows) < 1:
            return
        sub = dict(rows=rows, meta=case['meta'], rows_from_x=True)
        if op == 'ds':
            sub.update(f=arg, pres=None, how='inplace_same')
            y = case_ds(ctx, sub, be, x=x)
            if y is None:
                return
            x = y
        else:
            # coordinates after an earlier resampling step are no longer integers: the exact model cannot follow, stop
            nd = x.nodes
            if not all(float(v).is_integer() for col in ('x', 'y', 'z') for v in nd[col].values):
                ctx.count('hist', 'stopped: non-integer coordinates')
                return
            sub.update(res=arg, radii={str(int(i)): frs(Fr(float(v))) for i, v in zip(nd.node_id.values, nd.radius.values)}, how='inplace')
            y = case_rs(ctx, sub, be, x=x)
            if y is None:
                return
            x = y
        ctx.count('hist', f'step{n_}:{op}')


def small_scope(ctx):
    """thorough tier: every rooted forest shape with ≤ 5 nodes (parent index < own index) × factors × soma."""
    import itertools
    for n in range(1, 6):
        for par in itertools.product(*[range(-1, i) for i in range(n)]):
            rows = [dict(id=i + 1, parent=(par[i] + 1 if par[i] >= 0 else -1), x=3 * i, y=0, z=0) for i in range(n)]
            # coordinates: place children 3 away from the parent along x/y/z cyclically to keep integer lengths
            pos = {}
            for i in range(n):
                if par[i] < 0:
                    pos[i] = [40 * i, 0, 0]
                else:
                    p = list(pos[par[i]]); p[i % 3] += 3; pos[i] = p
                rows[i].update(x=pos[i][0], y=pos[i][1], z=pos[i][2])
            meta = dict(shape='exhaustive', n=n, labeling='seq', order='parent_first')
            for f in (2, 3, 'inf'):
                yield ('ds', dict(rows=rows, f=f, pres=None, meta=meta))
            yield ('ds', dict(rows=rows, f=2, pres=[n], meta=meta, soma=1))
            if n <= 4:
                for so in range(1, n + 1):
                    for f in (2, 3, 'inf', '5/2'):
                        yield ('ds', dict(rows=rows, f=f, pres=None, meta=meta, soma=so))
            for res in (2, 3, 6):
                yield ('rs', dict(rows=rows, res=res, soma_none=True, meta=meta))
            if n <= 4:
                for so in range(1, n + 1):
                    yield ('rs', dict(rows=rows, res=3, soma=so, connectors=[so, n], tags={'a': [so], 'b': [1]}, meta=meta))


RUNNERS = {'ds': case_ds, 'rs': case_rs, 'somalist': case_soma_list, 'hist': case_hist}


def run(ctx, be=None):
    ctx.extra['rule'] = ('forests from harness/gen.py (integer coordinates, integer edge lengths, zero-length edges in every 4th case); a case = '
                         '(forest, downsample factor/preserve set/soma) or (forest, resolution, radii, soma/connectors/tags, method); resolutions '
                         'are drawn so that exact ties total == res and total/res = m + 1/2 occur; targeted second-pass stream: soma / preserved node / '
                         'node id 0 on slab nodes with out-of-phase factors, `x.simple` with a pinned / radius-detected soma on a slab node, float / numpy / <= 1 / default factors, preserved ids not in the table, '
                         'NeuronLists, array somas, exact re-attachment ties (old node half-way between two new nodes), every subset of '
                         '{soma, connectors, tags}, numeric + categorical mapped columns, 7 non-linear methods × skip_errors × coincident nodes, '
                         'resolution above every segment length, unit strings on nm / 8 nm / µm neurons, 2–3-step in-place histories, single / isolated '
                         'nodes; non-trivial when ≥ 3 nodes')
    ctx.extra['assumptions'] = ['scipy interp1d(kind=linear / slinear) = np.interp; interp1d(kind=nearest) = searchsorted over the knot midpoints, '
                                'side=left; cKDTree nearest neighbour is exact up to the tolerance 1e-9; numpy round is half-to-even',
                                'the C13 statement covers skeletons: downsample_neuron on Dotprops / MeshNeuron / VoxelNeuron is only pinned by the '
                                'dispatch fact (Props.C13.gen_downsample_entry); resample_along_axis is outside the statement (and raises for every '
                                'input under pandas 3)']
    streams = [gen_cases(ctx), gen_targeted(ctx)]
    if not ctx.quick() and not ctx.search_mode:
        streams.append(small_scope(ctx))
    for st in streams:
        for kind, case in st:
            case = dict(case, kind=kind)
            ctx.case(case, nontrivial=len(case['rows']) >= 3)
            m = case['meta']
            ctx.count('shape', m['shape']); ctx.count('labeling', m['labeling']); ctx.count('kind', kind)
            RUNNERS[kind](ctx, case, be)


def _norm(what):
    import re
    return re.sub(r'[-+]?\d[\d./e+-]*', '#', what)


def _drop_leaf(case, nid):
    rows = case['rows']
    if len(rows) <= 2 or any(r['parent'] == nid for r in rows) or case.get('soma') == nid:
        return None
    c = {k: v for k, v in case.items() if not k.startswith('_')}
    c['rows'] = [r for r in rows if r['id'] != nid]
    for k in ('pres', 'connectors'):
        if c.get(k):
            c[k] = [i for i in c[k] if i != nid]
            if not c[k] and k == 'connectors':
                return None
    if c.get('tags'):
        c['tags'] = {k: [i for i in v if i != nid] for k, v in c['tags'].items()}
        if not all(c['tags'].values()):
            return None
    for k in ('radii', 'mapcol'):
        if c.get(k):
            c[k] = {a: b for a, b in c[k].items() if a != str(nid)}
    return c


def shrink(ctx, f):
    """Drop leaf nodes one at a time while the same oracle failure persists."""
    from .common import Ctx
    case = dict(f['case'])
    kind = case.get('kind')
    if kind not in RUNNERS:
        return f
    sub = Ctx(ctx.prop, ctx.tier, ctx.seed)
    sub.drv = ctx.drv
    sub.known = []
    best, want = f, _norm(f['what'])
    progress = True
    while progress:
        progress = False
        for r in list(case['rows']):
            c2 = _drop_leaf(case, r['id'])
            if c2 is None:
                continue
            sub.failures = []
            try:
                RUNNERS[kind](sub, dict(c2, kind=kind), case.get('be'))
            except Exception:
                continue
            hit = [x for x in sub.failures if x['kind'] == 'oracle' and _norm(x['what']) == want]
            if hit:
                case = dict(c2, kind=kind)
                best = dict(hit[0], case=case)
                progress = True
                break
    return best


def replay(ctx, rp):
    case = rp['case']
    kind = case.get('kind') or ('ds' if 'f' in case else 'rs')
    ctx.case(case)
    RUNNERS[kind](ctx, dict(case, kind=kind), case.get('be'))
