"""C13 — down- and resampling preserve branching structure and geometry.

Downsampling: `navis.downsample_neuron` / `x.downsample` / `x.simple` vs the Lean model `downsample`
(`f.ops ds=…`, exact node table) for all factors incl. inf, preserved sets (list / set / array /
"connectors"), somas, forests, zero-length edges; the Lean checker `dsCheck` (sound by
`Props.C13.dsCheck_sound`) is evaluated on navis' own output: kept rows are original rows, fix points
kept, new parent = nearest kept ancestor, gap ≤ factor.

Resampling: `navis.resample_skeleton` / `x.resample` on forests with integer edge lengths vs the Lean
model (`c13.resample`): per original small segment (keyed by its anchors) the number of interior nodes,
the positions and radii (exact rationals from the model, doubles of navis converted with
`Fraction(float)`, relative tolerance 1e-9), plus oracles on navis' output alone: anchors keep id and
coordinates, new ids fresh and unique, node count, well-formed forest, every new node on the original
cable, cable length not increased, soma / connectors / tags re-attached to a nearest new node
(`c13.nearest`, ties accepted as a set)."""
import math, random, warnings
from fractions import Fraction as Fr
import numpy as np
import pandas as pd

warnings.filterwarnings('ignore')
import navis
from . import gen as G

navis.config.pbar_hide = True
navis.set_loggers('ERROR')

TOL = Fr(1, 10 ** 9)


# ------------------------------------------------------------------------------------------------
# helpers
# ------------------------------------------------------------------------------------------------
def parent_map(x):
    nd = x.nodes
    return {int(i): int(p) for i, p in zip(nd.node_id.values, nd.parent_id.values)}


def coords_of(x):
    nd = x.nodes
    return {int(i): (float(a), float(b), float(c), float(r)) for i, a, b, c, r in
            zip(nd.node_id.values, nd.x.values, nd.y.values, nd.z.values, nd.radius.values)}


def topo_fix(pm):
    """roots, leafs, branch points from the parent map alone."""
    cnt = {}
    for i, p in pm.items():
        if p >= 0:
            cnt[p] = cnt.get(p, 0) + 1
    return sorted(i for i, p in pm.items() if p < 0 or cnt.get(i, 0) != 1)


def make_neuron(case):
    rows = case['rows']
    df = G.rows_to_df(rows)
    rad = case.get('radii')
    if rad:
        df['radius'] = [float(Fr(rad[str(r['id'])])) if str(r['id']) in rad else 0.01 for r in rows]
    if case.get('int32'):
        df['node_id'] = df.node_id.astype(np.int32)
        df['parent_id'] = df.parent_id.astype(np.int32)
    x = navis.TreeNeuron(df, units=case.get('units', '1 nm'))
    conns = case.get('connectors')
    if conns:
        x.connectors = pd.DataFrame(dict(connector_id=list(range(1, len(conns) + 1)), node_id=np.array(conns, dtype=np.int64),
                                         x=0.0, y=0.0, z=0.0, type=[k % 2 for k in range(len(conns))]))
    if case.get('tags'):
        x.tags = {k: list(v) for k, v in case['tags'].items()}
    if case.get('soma') is not None:
        x.soma = case['soma']
    elif case.get('soma_none'):
        x.soma = None
    return x


def frs(v):
    f = Fr(v)
    return str(f.numerator) if f.denominator == 1 else f'{f.numerator}/{f.denominator}'


def close(a, b, tol=TOL):
    a, b = Fr(a), Fr(b)
    return abs(a - b) <= tol * max(1, abs(b))


def cable64(pm, c):
    """Cable length in float64 (navis' own `cable_length` accumulates in float32)."""
    return float(sum(math.sqrt(sum((c[i][k] - c[p][k]) ** 2 for k in range(3))) for i, p in pm.items() if p >= 0))


def edge_len(a, b):
    d2 = sum((a[k] - b[k]) ** 2 for k in range(3))
    r = math.isqrt(d2)
    return r if r * r == d2 else None


# ------------------------------------------------------------------------------------------------
# downsampling
# ------------------------------------------------------------------------------------------------
def case_ds(ctx, case, be=None):
    x = make_neuron(case)
    f, pres, how = case['f'], case['pres'], case.get('how', 'func')
    fpy = float('inf') if f == 'inf' else f
    pm0 = parent_map(x)
    wire = G.wire_neuron(x)
    soma = [] if x.soma is None else [int(v) for v in np.atleast_1d(x.soma)]
    what = f"downsample(f={f}, preserve={case.get('presform', 'list')}, via={how}) [{be}]"
    try:
        if how == 'simple':
            y = x.simple
            soma = []
        elif how == 'method':
            y = x.downsample(fpy, inplace=False, preserve_nodes=_pres_arg(case, pres))
        elif how == 'inplace':
            y = x.copy()
            navis.downsample_neuron(y, fpy, inplace=True, preserve_nodes=_pres_arg(case, pres))
        else:
            y = navis.downsample_neuron(x, fpy, preserve_nodes=_pres_arg(case, pres))
    except Exception as e:
        ctx.oracle(False, f'{what} raised {type(e).__name__}: {str(e)[:100]}', case)
        return
    ctx.count('ds_factor', f)
    ctx.count('ds_how', how)
    mpres = sorted(set((pres or []) + soma))
    model = ctx.ask(f"f.ops ds={f}={','.join(map(str, mpres))} | {wire}")
    ctx.corr(G.topo_neuron(y), model, f'{what}: node table vs Lean `downsample`', case)
    # property oracle on navis' own output (Lean checker)
    fix = sorted(set(topo_fix(pm0)) | (set(mpres) & set(pm0)))
    if len(pm0) <= 1:
        fix = sorted(pm0)
    chk = ctx.ask(f"c13.dscheck {f} {','.join(map(str, fix))} | {wire} | {G.wire_neuron(y)}")
    if chk != '1':
        pm1 = parent_map(y)
        miss = [i for i in fix if i not in pm1]
        det = f'fix points dropped: {miss}' if miss else 'a kept node is not linked to its nearest kept ancestor within the factor, or a row changed'
        sig = None
        ctx.oracle(False, f'{what}: {det}', case, signature=sig)
    else:
        ctx.oracle(True, what, case)
    c0, c1 = coords_of(x), coords_of(y)
    ctx.oracle(all(i in c0 and c0[i] == c1[i] for i in c1), f'{what}: a kept node changed id/coordinates/radius', case)
    w = ctx.ask('f.wf ' + G.wire_neuron(y))
    ctx.oracle(w == '1 1', f'{what}: result is not a well-formed, correctly labelled forest ({w})', case)
    # branching structure: forks and tips unchanged (child counts of non-slab nodes)
    def cc(pm):
        c = {}
        for i, p in pm.items():
            if p >= 0:
                c[p] = c.get(p, 0) + 1
        return c
    cc0, cc1 = cc(pm0), cc(parent_map(y))
    pm1 = parent_map(y)
    tf = [i for i in topo_fix(pm0) if i in pm1]
    ctx.oracle(all(cc0.get(i, 0) == cc1.get(i, 0) for i in tf) and all(cc1.get(i, 0) == 1 for i in pm1 if i not in tf or cc0.get(i, 0) == 1),
               f'{what}: number of children of a root/leaf/branch point changed (branching structure)', case)


def _pres_arg(case, pres):
    form = case.get('presform', 'list')
    if pres is None:
        return None
    if form == 'set':
        return set(pres)
    if form == 'array':
        return np.array(pres, dtype=np.int64)
    if form == 'connectors':
        return 'connectors'
    return list(pres)


# ------------------------------------------------------------------------------------------------
# resampling
# ------------------------------------------------------------------------------------------------
def parse_model(out):
    head, _, body = out.partition(' # ')
    meta = dict(t.split('=') for t in head.split())
    ents = []
    for e in body.split(' ; '):
        e = e.strip()
        if not e:
            continue
        hdr, _, pts = e.partition('@')
        first, last, k, base, coll, total = hdr.split(',')
        P = [tuple(Fr(v) for v in p.split(',')) for p in pts.split()]
        ents.append(dict(first=int(first), last=int(last), k=int(k), base=int(base), collapsed=coll == '1', total=Fr(total), pts=P))
    return meta, ents


def seg_path(pm0, first, last):
    s = [first]
    while s[-1] != last and pm0.get(s[-1], -1) >= 0 and len(s) <= len(pm0) + 1:
        s.append(pm0[s[-1]])
    return s


def dist_to_polyline(p, poly):
    best = None
    P = np.array(p[:3], dtype=float)
    for a, b in zip(poly[:-1], poly[1:]):
        A, B = np.array(a[:3], dtype=float), np.array(b[:3], dtype=float)
        d = B - A
        dd = float(d @ d)
        t = 0.0 if dd == 0 else min(1.0, max(0.0, float((P - A) @ d) / dd))
        v = float(np.linalg.norm(P - (A + t * d)))
        best = v if best is None else min(best, v)
    return best


def refused_segments(x, resf, method):
    """First nodes of the small segments for which scipy's interp1d raises ValueError although the segment is not
    shorter than the target (too few points for the spline order, or repeated arc lengths caused by zero-length
    edges).  With `skip_errors=True` (default) resample_skeleton keeps the original nodes of such a segment."""
    import scipy.interpolate
    if method == 'linear':
        return set()
    c = coords_of(x)
    out = set()
    for seg in x.small_segments:
        pts = np.array([c[int(i)][:3] for i in seg])
        dist = np.insert(np.cumsum(np.linalg.norm(np.diff(pts.T), axis=0)), 0, 0)
        if dist[-1] < resf or (method == 'cubic' and len(seg) <= 3):
            continue
        try:
            scipy.interpolate.interp1d(dist, pts[:, 0], kind=method)
        except ValueError:
            out.add(int(seg[0]))
    return out


def interp1d_refuses(x, resf, method):
    return bool(refused_segments(x, resf, method))


def nearest_check(ctx, x, y, case, what, queries):
    """queries: list of (label, old node id, new node id or None).  The new node must be a nearest node of
    the resampled neuron to the old node's position."""
    if not queries:
        return
    c0, c1 = coords_of(x), coords_of(y)
    qs = ' '.join(','.join(frs(v) for v in c0[q[1]][:3]) for q in queries)
    ns = ' '.join(f"{i}:" + ','.join(frs(v) for v in c[:3]) for i, c in c1.items())
    out = ctx.ask(f'c13.nearest {frs(TOL)} | {qs} | {ns}')
    sets = [set(int(v) for v in s.split(',') if v) for s in out.split(';')]
    for (lab, old, new), adm in zip(queries, sets):
        ctx.oracle(new is not None and int(new) in adm,
                   f'{what}: {lab} on old node {old} re-attached to {new}, nearest new node(s) {sorted(adm)}', case,
                   signature=case.get('_sig_nearest'))


def case_rs(ctx, case, be=None):
    x = make_neuron(case)
    rows = case['rows']
    res = case['res']
    method = case.get('method', 'linear')
    how = case.get('how', 'func')
    what = f"resample_skeleton(res={res!r}, method={method}, via={how}) [{be}]"
    pm0, c0 = parent_map(x), coords_of(x)
    soma0 = x.soma
    try:
        resf = float(x.map_units(res, on_error='raise'))
    except Exception as e:
        ctx.oracle(False, f'{what}: map_units raised {type(e).__name__}', case)
        return
    if 'res_expect' in case:
        ctx.oracle(close(resf, Fr(case['res_expect'])), f"{what}: unit string maps to {resf}, expected {case['res_expect']}", case)
    kw = {}
    if case.get('mapcol'):
        x.nodes['vcol'] = [float(Fr(case['mapcol'][str(r['id'])])) for r in rows]
        kw['map_columns'] = ['vcol']
    try:
        if how == 'method':
            y = x.resample(res, inplace=False)
        elif how == 'inplace':
            y = x.copy()
            navis.resample_skeleton(y, res, inplace=True, method=method, **kw)
        else:
            y = navis.resample_skeleton(x, res, method=method, **kw)
    except Exception as e:
        sig = None
        pmx = pm0
        if method != 'linear' and isinstance(e, KeyError) and interp1d_refuses(x, resf, method):
            sig = 'resample_skeleton/non-linear-method/interp1d-refuses-a-segment/KeyError'
        if isinstance(e, AttributeError) and 'to_nunmeric' in str(e):
            sig = 'resample_skeleton/id-overflow-branch/pd.to_nunmeric-AttributeError'
        ctx.oracle(False, f'{what} raised {type(e).__name__}: {str(e)[:100]}', case, signature=sig)
        ctx.count('rs_error', type(e).__name__)
        return
    ctx.count('rs_method', method)
    ctx.count('rs_how', how)
    radii = case.get('radii') or {}
    rad = ','.join(f"{r['id']}={radii.get(str(r['id']), '1/100')}" for r in rows)
    out = ctx.ask(f"c13.resample {frs(Fr(resf))} | {G.wire_rows(rows)} | {rad}")
    meta, ents = parse_model(out)
    if meta.get('exact') != '1':
        ctx.notes.append('generator produced a non-integer edge length; case skipped')
        return
    pm1, c1 = parent_map(y), coords_of(y)
    ids0 = set(pm0)
    if any(i < 0 for i in pm1):
        sig = 'resample_skeleton/int32-ids-near-2**31/new-ids-wrap-negative' if str(x.nodes.node_id.dtype) == 'int32' else None
        ctx.oracle(False, f'{what}: result contains negative node ids {sorted(i for i in pm1 if i < 0)[:4]} (fresh ids wrapped around the id dtype)', case, signature=sig)
        return
    # -- anchors keep id and coordinates ---------------------------------------------------------
    anchors = topo_fix(pm0)
    if method == 'linear':
        ok = all(a in c1 and c1[a][:3] == c0[a][:3] for a in anchors)
    else:   # splines pass through their knots only up to rounding
        ok = all(a in c1 and all(close(c1[a][k], c0[a][k]) for k in range(3)) for a in anchors)
    ctx.oracle(ok, f'{what}: a root / leaf / branch point lost its id or moved', case)
    if not ok:
        return
    # -- well-formed, ids unique ------------------------------------------------------------------
    nd = y.nodes
    ctx.oracle(not bool(nd[['node_id', 'parent_id', 'x', 'y', 'z']].isnull().any().any()), f'{what}: NaN in the node table', case)
    w = ctx.ask('f.wf ' + G.wire_neuron(y))
    ctx.oracle(w == '1 1', f'{what}: result is not a well-formed, correctly labelled forest ({w})', case)
    linear = method == 'linear'
    refused = refused_segments(x, resf, method)
    total_interior = 0
    seen_new = set()
    for e in ents:
        seg = seg_path(pm0, e['first'], e['last'])
        poly = [c0[i] for i in seg]
        k = e['k']
        if method == 'cubic' and len(seg) <= 3:
            k = 0
        kept_original = e['first'] in refused
        if kept_original:
            k = len(seg) - 2
        # walk the implementation's chain between the two anchors
        ch = [e['first']]
        while ch[-1] != e['last'] and len(ch) <= k + len(seg) + 3:
            nxt = pm1.get(ch[-1], -1)
            if nxt < 0:
                break
            ch.append(nxt)
        if ch[-1] != e['last']:
            ctx.oracle(False, f"{what}: segment {e['first']}→{e['last']}: walking up from the first anchor does not reach the last anchor", case)
            return
        inner = ch[1:-1]
        ctx.count('rs_seg', 'collapsed' if e['collapsed'] else ('k=0' if k == 0 else 'k>0'))
        if e['total'] == Fr(resf):
            ctx.count('rs_tie', 'total==res')
        elif (e['total'] / Fr(resf) * 2).denominator == 1 and (e['total'] / Fr(resf)).denominator == 2:
            ctx.count('rs_tie', 'half')
        if not ctx.corr(len(inner), k, f"{what}: segment {e['first']}→{e['last']} (length {e['total']}): number of interior nodes vs model", case):
            return
        if kept_original:
            # scipy cannot interpolate this segment with the requested method: its original nodes must be kept as they are
            ctx.count('rs_seg', 'kept-original(skip_errors)')
            ctx.oracle(ch == seg and all(c1[i][:3] == c0[i][:3] for i in seg),
                       f"{what}: segment {e['first']}→{e['last']} cannot be interpolated by scipy; its original nodes {seg} must be kept, got {ch}", case)
            total_interior += len(inner)
            continue
        ok = all(i not in ids0 for i in inner) and not (set(inner) & seen_new)
        ctx.oracle(ok, f"{what}: interior ids {inner} of segment {e['first']}→{e['last']} are not fresh/unique", case)
        seen_new |= set(inner)
        total_interior += len(inner)
        # every new node on the original cable
        scale = max(1.0, max(abs(v) for p in poly for v in p[:3]))
        for i in inner:
            if linear:
                d = dist_to_polyline(c1[i], poly)
                ctx.oracle(d <= 1e-9 * scale, f"{what}: new node {i} lies {d:g} off the original cable of segment {e['first']}→{e['last']}", case)
        if linear:
            # positions / radii = the model's exact arc-length interpolation
            cum = [0]
            for a, b in zip(seg[:-1], seg[1:]):
                cum.append(cum[-1] + edge_len([int(v) for v in c0[a][:3]], [int(v) for v in c0[b][:3]]))
            dup = {d for d in cum if cum.count(d) > 1}
            for j, i in enumerate(ch[:-1]):
                m = e['pts'][j]
                got = c1[i]
                s = Fr(j) * e['total'] / (k + 1)
                okp = all(close(got[a], m[a]) for a in range(3))
                if not ctx.oracle(okp, f"{what}: node {i} (sample {j} of {k + 2} of segment {e['first']}→{e['last']}) is at {got[:3]}, but the point at "
                                  f"arc length {j}/{k + 1} of the original cable is {tuple(float(v) for v in m[:3])}", case):
                    return
                if s in dup:
                    ctx.count('rs_radius', 'skipped-at-coincident-nodes')
                else:
                    if not ctx.oracle(close(got[3], m[3]), f"{what}: radius of node {i} (sample {j} of segment {e['first']}→{e['last']}) is "
                                      f"{got[3]}, linear interpolation along the cable gives {float(m[3])}", case):
                        return
                    ctx.count('rs_radius', 'compared')
    nroots = sum(1 for p in pm0.values() if p < 0)
    ctx.oracle(len(pm1) == nroots + len(ents) + total_interior and len(set(nd.node_id.values.tolist())) == len(nd),
               f'{what}: node count {len(pm1)} ≠ roots {nroots} + segments {len(ents)} + interior {total_interior}', case)
    if linear:
        cl0, cl1 = cable64(pm0, c0), cable64(pm1, c1)
        ctx.oracle(cl1 <= cl0 * (1 + 1e-9) + 1e-9, f'{what}: cable length increased {cl0} → {cl1}', case)
    # mapped column (numeric): same interpolation as the radius
    if case.get('mapcol') and linear:
        rad2 = ','.join(f"{r['id']}={case['mapcol'][str(r['id'])]}" for r in rows)
        _, ents2 = parse_model(ctx.ask(f"c13.resample {frs(Fr(resf))} | {G.wire_rows(rows)} | {rad2}"))
        vals = {int(i): float(v) for i, v in zip(nd.node_id.values, nd['vcol'].values)} if 'vcol' in nd.columns else None
        ctx.oracle(vals is not None, f'{what}: mapped column is missing from the result', case)
        if vals is not None:
            for e in ents2:
                seg = seg_path(pm0, e['first'], e['last'])
                cum = [0]
                for a, b in zip(seg[:-1], seg[1:]):
                    cum.append(cum[-1] + edge_len([int(v) for v in c0[a][:3]], [int(v) for v in c0[b][:3]]))
                dup = {d for d in cum if cum.count(d) > 1}
                ch = [e['first']]
                while ch[-1] != e['last']:
                    ch.append(pm1[ch[-1]])
                for j, i in enumerate(ch[:-1]):
                    if Fr(j) * e['total'] / (e['k'] + 1) in dup:
                        continue
                    if not ctx.corr(close(vals[i], e['pts'][j][3]), True, f'{what}: mapped column at node {i} = {vals[i]} vs model {float(e["pts"][j][3])}', case):
                        return
    # -- soma / connectors / tags ------------------------------------------------------------------
    queries = []
    if soma0 is not None:
        s0 = [int(v) for v in np.atleast_1d(soma0)]
        s1 = y.soma
        if s1 is None:
            sig = 'resample_skeleton/soma-node-id-0/dropped' if s0 == [0] else None
            ctx.oracle(False, f'{what}: soma {s0} is lost (result has no soma)', case, signature=sig)
        else:
            s1 = [int(v) for v in np.atleast_1d(s1)]
            if len(s1) != len(s0):
                ctx.oracle(False, f'{what}: somas {s0} mapped to {s1}', case)
            else:
                queries += [('soma', a, b) for a, b in zip(s0, s1)]
    if x.has_connectors:
        ok = y.has_connectors and len(y.connectors) == len(x.connectors) and \
            y.connectors.connector_id.tolist() == x.connectors.connector_id.tolist()
        ctx.oracle(ok, f'{what}: connector table changed size/ids', case)
        if ok:
            queries += [('connector', int(a), int(b)) for a, b in zip(x.connectors.node_id.values, y.connectors.node_id.values)]
    if x.has_tags:
        t0, t1 = x.tags, y.tags if y.has_tags else {}
        ok = sorted(t0) == sorted(t1) and all(len(t0[k]) == len(t1[k]) for k in t0)
        ctx.oracle(ok, f'{what}: tags changed keys/sizes', case)
        if ok:
            for k in t0:
                queries += [(f'tag {k}', int(a), int(b)) for a, b in zip(t0[k], t1[k])]
    nearest_check(ctx, x, y, case, what, queries)
    ctx.count('rs_attach', len(queries))
    return y


def case_soma_list(ctx, case, be=None):
    """#20/#21: several detected somas → `_soma` is pinned to a list by resampling; the resampled neuron must
    still be usable (subset / prune)."""
    y = case_rs(ctx, case, be)
    if y is None:
        return
    ids = [int(i) for i in y.nodes.node_id.values]
    pm = parent_map(y)
    leaf = [i for i in ids if i not in set(pm.values()) and pm[i] >= 0]
    keep = [i for i in ids if not leaf or i != leaf[0]]
    nso = len(np.atleast_1d(y.soma)) if y.soma is not None else 0
    for name, fn in (('subset_neuron', lambda: navis.subset_neuron(y, keep)),
                     ('prune_at_depth', lambda: navis.prune_at_depth(y, 10 ** 6, source=int(y.root[0])))):
        try:
            z = fn()
            ok, msg = True, ''
        except Exception as e:
            ok, msg = False, f'{type(e).__name__}: {str(e)[:80]}'
        sig = 'resample_skeleton/soma-pinned-to-list/then-subset-broadcast-ValueError' if (not ok and 'broadcast' in msg and nso >= 2) else None
        ctx.oracle(ok, f'after resample_skeleton of a neuron with {nso} somas, {name} raises {msg}', case, signature=sig)
        if ok and nso:
            zids = set(int(i) for i in z.nodes.node_id.values)
            want = sorted(int(v) for v in np.atleast_1d(y.soma) if int(v) in zids)
            got = [] if z.soma is None else sorted(int(v) for v in np.atleast_1d(z.soma))
            ctx.oracle(got == want, f'after resample_skeleton + {name}: somas {got}, expected the surviving ones {want}', case)


# ------------------------------------------------------------------------------------------------
# generators
# ------------------------------------------------------------------------------------------------
def rand_radii(r, rows, p=0.6):
    return {str(rw['id']): f'{r.randint(1, 64)}/64' for rw in rows if r.random() < p}


def seg_totals(rows):
    pm = {rw['id']: rw['parent'] for rw in rows}
    pos = {rw['id']: (rw['x'], rw['y'], rw['z']) for rw in rows}
    fix = set(topo_fix(pm))
    out = []
    for i in fix:
        if pm[i] < 0:
            continue
        tot, cur = 0, i
        while True:
            p = pm[cur]
            tot += edge_len(pos[cur], pos[p]) or 0
            cur = p
            if cur in fix:
                break
        out.append(tot)
    return out


def pick_res(r, rows):
    tots = [t for t in seg_totals(rows) if t > 0]
    c = r.random()
    if tots and c < 0.25:
        return r.choice(tots)                                    # exact tie total == res
    if tots and c < 0.5:
        t = r.choice(tots)
        m = r.choice([1, 2, 3, 4])                               # total / res = m + 1/2  (half-to-even)
        v = Fr(2 * t, 2 * m + 1)
        if v.denominator in (1, 2, 4, 8):
            return float(v) if v.denominator > 1 else int(v)
    if c < 0.6:
        return r.choice([0.5, 1.5, 2.5, 0.75, 3.5])
    return r.choice([1, 1, 2, 2, 3, 4, 5, 6, 7, 9, 11, 14, 22, 40])


def gen_cases(ctx, nf=None):
    r = ctx.rng
    n = nf or ctx.budget(200, 3000)
    for k in range(n):
        rows, meta = G.rand_forest(r, nmax=10 if k % 3 == 0 else 26, allow_zero_edges=(k % 4 == 0))
        ids = [rw['id'] for rw in rows]
        # ---- downsample
        pres = None if r.random() < 0.3 else [i for i in ids if r.random() < 0.2]
        presform = r.choice(['list', 'list', 'set', 'array', 'connectors'])
        d = dict(rows=rows, f=r.choice([2, 2, 3, 3, 4, 5, 7, 10, 'inf', 'inf']), pres=pres, presform=presform, meta=meta,
                 how=r.choice(['func', 'func', 'method', 'inplace']))
        if presform == 'connectors':
            d['connectors'] = pres or [ids[0]]
            d['pres'] = sorted(set(d['connectors']))
        if r.random() < 0.35:
            d['soma'] = r.choice(ids)
        yield ('ds', d)
        if k % 6 == 0:
            yield ('ds', dict(rows=rows, f='inf', pres=None, how='simple', meta=meta, **({'soma': r.choice(ids)} if r.random() < 0.5 else {})))
        # ---- resample (integer edge lengths)
        rs = dict(rows=rows, res=pick_res(r, rows), radii=rand_radii(r, rows), meta=meta, how=r.choice(['func', 'func', 'func', 'method', 'inplace']))
        if r.random() < 0.4:
            rs['soma'] = r.choice(ids)
        else:
            rs['soma_none'] = True
        if r.random() < 0.4:
            rs['connectors'] = [r.choice(ids) for _ in range(r.randint(1, 5))]
        if r.random() < 0.3:
            rs['tags'] = {'a': [r.choice(ids) for _ in range(r.randint(1, 3))], 'b': [r.choice(ids)]}
        if r.random() < 0.2 and rs['how'] != 'method':
            rs['mapcol'] = {str(i): f'{r.randint(-32, 32)}/8' for i in ids}
        if r.random() < 0.12 and isinstance(rs['res'], int):
            u = r.choice([2, 8])
            rs['units'] = f'{u} nm'
            rs['res_expect'] = str(rs['res'])
            rs['res'] = f"{rs['res'] * u} nm"
        yield ('rs', rs)
        if k % 5 == 0:
            yield ('rs', dict(rows=rows, res=r.choice([1, 2, 3, 5]), method=r.choice(['nearest', 'slinear', 'quadratic', 'cubic', 'zero']),
                              soma_none=True, meta=meta))
        if k % 10 == 0:
            # ids close to 2**31 in an int32 table: the fresh ids need the overflow branch
            rows2, meta2 = G.rand_forest(r, nmax=12, labeling='seq')
            base = 2 ** 31 - len(rows2) - r.randint(2, 6)
            for rw in rows2:
                rw['id'] += base
                rw['parent'] = rw['parent'] + base if rw['parent'] >= 0 else -1
            yield ('rs', dict(rows=rows2, res=r.choice([1, 2]), int32=True, soma_none=True, meta=meta2))
        if k % 10 == 5:
            # several detected somas (radius above the detection threshold)
            rows2, meta2 = G.rand_forest(r, n=r.randint(4, 14), shape=r.choice(['chain', 'random', 'caterpillar']))
            ids2 = [rw['id'] for rw in rows2]
            big = r.sample(ids2, 2)
            radii = {str(i): (f'{r.choice([2000, 3000, 5000])}' if i in big else '1/64') for i in ids2}
            yield ('somalist', dict(rows=rows2, res=r.choice([2, 3, 5]), radii=radii, meta=meta2))
        if k % 10 == 7:
            rows2, meta2 = G.rand_forest(r, nmax=12, labeling='zero')
            if r.random() < 0.5:
                yield ('rs', dict(rows=rows2, res=r.choice([1, 2, 3]), soma=0, meta=meta2))
            else:   # soma at node id 0 found by the radius detection (x.soma is an array)
                yield ('rs', dict(rows=rows2, res=r.choice([1, 2, 3]), radii={'0': '2000'}, meta=meta2))


def small_scope(ctx):
    """thorough tier: every rooted forest shape with ≤ 5 nodes (parent index < own index) × factors × soma."""
    import itertools
    for n in range(1, 6):
        for par in itertools.product(*[range(-1, i) for i in range(n)]):
            rows = [dict(id=i + 1, parent=(par[i] + 1 if par[i] >= 0 else -1), x=3 * i, y=0, z=0) for i in range(n)]
            # coordinates: place children 3 away from the parent along x/y/z cyclically to keep integer lengths
            pos = {}
            for i in range(n):
                if par[i] < 0:
                    pos[i] = [40 * i, 0, 0]
                else:
                    p = list(pos[par[i]]); p[i % 3] += 3; pos[i] = p
                rows[i].update(x=pos[i][0], y=pos[i][1], z=pos[i][2])
            meta = dict(shape='exhaustive', n=n, labeling='seq', order='parent_first')
            for f in (2, 3, 'inf'):
                yield ('ds', dict(rows=rows, f=f, pres=None, meta=meta))
            yield ('ds', dict(rows=rows, f=2, pres=[n], meta=meta, soma=1))
            for res in (2, 3, 6):
                yield ('rs', dict(rows=rows, res=res, soma_none=True, meta=meta))


RUNNERS = {'ds': case_ds, 'rs': case_rs, 'somalist': case_soma_list}


def run(ctx, be=None):
    ctx.extra['rule'] = ('forests from harness/gen.py (integer coordinates, integer edge lengths, zero-length edges in every 4th case); a case = '
                         '(forest, downsample factor/preserve set/soma) or (forest, resolution, radii, soma/connectors/tags, method); resolutions '
                         'are drawn so that exact ties total == res and total/res = m + 1/2 occur; non-trivial when ≥ 3 nodes')
    ctx.extra['assumptions'] = ['scipy interp1d(kind=linear) = np.interp; cKDTree nearest neighbour is exact up to the tolerance 1e-9; '
                                'numpy round is half-to-even']
    streams = [gen_cases(ctx)]
    if not ctx.quick() and not ctx.search_mode:
        streams.append(small_scope(ctx))
    for st in streams:
        for kind, case in st:
            case = dict(case, kind=kind)
            ctx.case(case, nontrivial=len(case['rows']) >= 3)
            m = case['meta']
            ctx.count('shape', m['shape']); ctx.count('labeling', m['labeling']); ctx.count('kind', kind)
            RUNNERS[kind](ctx, case, be)


def _norm(what):
    import re
    return re.sub(r'[-+]?\d[\d./e+-]*', '#', what)


def _drop_leaf(case, nid):
    rows = case['rows']
    if len(rows) <= 2 or any(r['parent'] == nid for r in rows) or case.get('soma') == nid:
        return None
    c = {k: v for k, v in case.items() if not k.startswith('_')}
    c['rows'] = [r for r in rows if r['id'] != nid]
    for k in ('pres', 'connectors'):
        if c.get(k):
            c[k] = [i for i in c[k] if i != nid]
            if not c[k] and k == 'connectors':
                return None
    if c.get('tags'):
        c['tags'] = {k: [i for i in v if i != nid] for k, v in c['tags'].items()}
        if not all(c['tags'].values()):
            return None
    for k in ('radii', 'mapcol'):
        if c.get(k):
            c[k] = {a: b for a, b in c[k].items() if a != str(nid)}
    return c


def shrink(ctx, f):
    """Drop leaf nodes one at a time while the same oracle failure persists."""
    from .common import Ctx
    case = dict(f['case'])
    kind = case.get('kind')
    if kind not in RUNNERS:
        return f
    sub = Ctx(ctx.prop, ctx.tier, ctx.seed)
    sub.drv = ctx.drv
    sub.known = []
    best, want = f, _norm(f['what'])
    progress = True
    while progress:
        progress = False
        for r in list(case['rows']):
            c2 = _drop_leaf(case, r['id'])
            if c2 is None:
                continue
            sub.failures = []
            try:
                RUNNERS[kind](sub, dict(c2, kind=kind), case.get('be'))
            except Exception:
                continue
            hit = [x for x in sub.failures if x['kind'] == 'oracle' and _norm(x['what']) == want]
            if hit:
                case = dict(c2, kind=kind)
                best = dict(hit[0], case=case)
                progress = True
                break
    return best


def replay(ctx, rp):
    case = rp['case']
    kind = case.get('kind') or ('ds' if 'f' in case else 'rs')
    ctx.case(case)
    RUNNERS[kind](ctx, dict(case, kind=kind), case.get('be'))
