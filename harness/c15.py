"""C15 — coordinate arithmetic and units keep physical quantities consistent.

Tie (checked on every run), all four neuron types (TreeNeuron, MeshNeuron, Dotprops, VoxelNeuron):
 (a) `units` setter: every spelling (strings, pint units / quantities, numbers, None, per-axis tuples) — pint
     is the oracle for *parsing* (external) — against the Lean `setUnits` (`c15.setunits`); spellings of the same
     unit must yield equal `.units`.
 (b) `* / + -` (also `*=` …) with numbers, 3-vectors, 4-vectors (lists, tuples, arrays; dyadic and decimal):
     the neuron navis returns — coordinates, radii, connectors, offset, units, name, id, or the fact that it
     raises — against the Lean `mul/div/add/sub` (`c15.arith`); dyadic data are compared exactly, decimal factors
     and all unit magnitudes with relative tolerance 2^-40 *inside the driver* (in `Rat`).  The prefix pint's
     `to_compact` picked is read off navis' output and handed to the model (external choice).
 (c) `convert_units` to several targets against `convertUnits` (`c15.convert`).
 (d) `map_units` against `mapUnits` (incl. `round_smart`) (`c15.map`).
 (e) the `(units, name, id)` flow of every non-scaling operation against the model's operation classes
     (`c15.meta`).
Oracles (the property itself, on the implementation's output):
 * scaling: `samePhysB` (Lean, proved sound in Props/C15) of input and navis' output — coordinates × units,
   connectors × units, radii × units unchanged; bounding box × units and cable length × units (navis' own
   properties) unchanged; undoing the operation restores the input (`back`, and navis' own `x*k/k`, `x+o-o`);
 * convert_units: requested unit, physical value of the unit = 1 target unit, physical sizes preserved;
 * map_units: result × neuron unit = the length (within `round_smart`'s bound), the same for every spelling of
   the same neuron unit; string-valued distance arguments (`prune_twigs`, `prune_at_depth`, `resample_skeleton`,
   `heal_skeleton`, `geodesic_matrix`, `downsample`-free) give the same result on a neuron in its unit and on the
   same neuron rescaled, and the same as the numeric argument `length / unit`;
 * metadata: `(units, name, id)` before == after for copy, re-wrap, reroot, cut, subset, prune_* functions and
   methods, heal, stitch, resample, downsample, make_dotprops, pickling, …

Second pass (streams in harness/c15_ext.py, translator/gen_units.py → Gen/Units.lean):
 (h) `hist`    physical quantities after a *history*: warm every cached view (igraph, networkx graph, segments, geodesic
               matrix, cable length, simple) → 1-3 of `* / *= /= + - += -=` (numbers, 4-vectors, offsets) / `convert_units`,
               re-warming in between → every distance-valued observable of the result (graph edge weights, cable length,
               dist_to_root, dist_between, geodesic_matrix function + cached property, segment_length, sampling_resolution,
               `.simple`, bbox, area, volume) under each back-end against (1) a cache-free rebuild, (2) the original × units,
               (3) the Lean model `runHist` (`c15.hist`: resulting table, surviving caches, view contents, and the proved-sound
               checkers `histPhysB / histPathB / histCableB` on navis' own numbers), (4) functions given '<n> microns'.
 (h') `histmd` the same for MeshNeuron (trimesh / graphs) and Dotprops (KD-tree, > one leaf of points).
 (s) `strsite` the remaining `map_units` call sites (cable_overlap, voxelize incl. per-axis pitch, average_skeletons,
               split_into_fragments, tortuosity; thorough: mesh2skeleton) with strings, neuron in two units, every back-end.
 (m) `mapx`    map_units on NeuronLists, `on_error`, function form, bare pint.Unit;  `nlarith` NeuronList `* /` and
               `convert_units` against the members.
 (u) `addunits` `navis.config.add_units = True` (restored afterwards): cable_length / surface_area / volume of skeletons, meshes,
               voxels in 1 nm / 8 nm / 0.5 um / per-axis / no units and their `* / *=` / convert_units versions: the reported
               quantity, converted to base units by pint, against the Lean `addUnitsPhys` with the power literal of the
               generated `@add_units` site (`c15.addunits`, checker `addUnitsB`), its dimension, and invariance under scaling.
 (o) `optsweep` metadata sweep with an option dimension: per operation the non-default value of every bool / Literal option
               of its signature (one at a time) plus listed value sets (make_dotprops: k ∈ {20, 5, 0, None} × resample ∈
               {False, number, unit string}; NeuronList input), every input type.
 The metadata sweep additionally covers every method with `inplace=` that the translator finds in the four classes
 (`Gen.Units.inplaceMethods`), in-place forms and NeuronList forms; uncovered methods / call sites become evidence notes.
"""
import copy as _copy, math, pickle, warnings, itertools
from fractions import Fraction
import numpy as np
import pandas as pd

warnings.filterwarnings('ignore')
import navis
import pint
from . import gen as G
from . import c15_ext as E

navis.config.pbar_hide = True
navis.set_loggers('ERROR')
ureg = navis.config.ureg

TOL = 40            # relative tolerance 2^-40 (driver side)
B_ALL = ['fastcore', 'igraph', 'networkx']
KINDS = ['T', 'M', 'D', 'V']
CLS = {'T': 'TreeNeuron', 'M': 'MeshNeuron', 'D': 'Dotprops', 'V': 'VoxelNeuron'}


# ---------------------------------------------------------------------------------------------
# exact numbers / wire format
# ---------------------------------------------------------------------------------------------
def fr(x):
    """exact rational of a Python / numpy number (floats via as_integer_ratio)."""
    if isinstance(x, Fraction):
        return x
    if isinstance(x, (int, np.integer)):
        return Fraction(int(x))
    x = float(x)
    if not math.isfinite(x):
        raise ValueError('non-finite')
    return Fraction(*x.as_integer_ratio())


def rs(q):
    q = fr(q)
    return str(q.numerator) if q.denominator == 1 else f'{q.numerator}/{q.denominator}'


def v3s(v):
    return ','.join(rs(c) for c in v)


def ptss(a):
    a = np.asarray(a)
    return '-' if len(a) == 0 else ' '.join(v3s(r) for r in a)


def unit_exp(u):
    """decimal exponent (relative to metre) of a pint unit, or 'D'."""
    q = ureg.Quantity(1, u)
    if q.dimensionless:
        return 'D'
    m = q.to('meter').magnitude
    e = round(math.log10(m))
    assert abs(m / 10.0 ** e - 1) < 1e-9, (u, m)
    return e


def units_wire(x):
    u = x.units_xyz
    return f'{v3s(u.magnitude)}@{unit_exp(u.units)}'


def units_prefix(x):
    e = unit_exp(x.units_xyz.units)
    return 0 if e == 'D' else e


def conns_of(x):
    c = getattr(x, 'connectors', None)
    if c is None or len(c) == 0:
        return np.zeros((0, 3))
    return c[['x', 'y', 'z']].values


def wire(x, kind):
    if kind == 'T':
        pts, rad = x.nodes[['x', 'y', 'z']].values, ','.join(rs(r) for r in x.nodes['radius'].values) or '-'
    elif kind == 'M':
        pts, rad = np.asarray(x.vertices), '-'
    elif kind == 'D':
        pts, rad = np.asarray(x.points), '-'
    else:
        pts, rad = np.asarray(x.voxels), '-'
    off = v3s(x.offset) if kind == 'V' else '0,0,0'
    return f'{kind};{ptss(pts)};{rad};{ptss(conns_of(x))};{off};{units_wire(x)};{x.name};{int(x.id)}'


def kv(line):
    out = {}
    for part in line.split(' '):
        k, _, v = part.partition('=')
        out[k] = v
    return out


def parse_answer(ans):
    """`model=<neuron wire possibly with blanks> corr=.. phys=.. back=..` → dict (model keeps its blanks)."""
    out = {}
    i = ans.find(' corr=')
    if ans.startswith('model=') and i > 0:
        out['model'] = ans[6:i]
        out.update(kv(ans[i + 1:]))
    else:
        out['raw'] = ans
    return out


# ---------------------------------------------------------------------------------------------
# unit specifications (JSON-able) → Python objects and model arguments
# ---------------------------------------------------------------------------------------------
def unit_obj(spec):
    """materialise a unit spec: None | ['str', s] | ['num', v] | ['qty', mag, unit] | ['unit', unit] |
    ['pintqty', mag, unit] (plain pint.Quantity, not from navis' registry) | ['tuple', [spec,…]] | ['qarr', [a,b,c], unit]"""
    if spec is None:
        return None
    t = spec[0]
    if t == 'str':
        return spec[1]
    if t == 'num':
        return spec[1]
    if t == 'qty':
        return ureg.Quantity(spec[1], spec[2])
    if t == 'pintqty':
        return pint.Quantity(spec[1], spec[2])
    if t == 'unit':
        return getattr(ureg, spec[1])
    if t == 'tuple':
        return tuple(unit_obj(s) for s in spec[1])
    if t == 'list':
        return [unit_obj(s) for s in spec[1]]
    if t == 'qarr':
        return ureg.Quantity(np.array(spec[1]), spec[2])
    raise ValueError(spec)


def unit_arg(spec):
    """model argument of one element; pint parses strings (external)."""
    if spec is None:
        return 'N'
    t = spec[0]
    if t == 'num':
        return f'n:{rs(spec[1])}'
    if t == 'str':
        s = spec[1].replace('microns', 'um').replace('micron', 'um')   # the setter's own spelling fix
        q = ureg(s)
        if not isinstance(q, pint.Quantity):
            q = ureg.Quantity(q)                                       # e.g. ureg('5') is a plain number
        return f'p:{rs(q.magnitude)}@{unit_exp(q.units)}'
    if t in ('qty', 'pintqty'):
        return f'p:{rs(spec[1])}@{unit_exp(getattr(ureg, spec[2]))}'
    if t == 'unit':
        return f'p:1@{unit_exp(getattr(ureg, spec[1]))}'
    raise ValueError(spec)


def unit_args(spec):
    if spec is not None and spec[0] in ('tuple', 'list'):
        return [unit_arg(s) for s in spec[1]]
    if spec is not None and spec[0] == 'qarr':
        return [f'p:{rs(m)}@{unit_exp(getattr(ureg, spec[2]))}' for m in spec[1]]
    return [unit_arg(spec)]


# groups of spellings denoting the same unit
SPELLINGS = {
    'um': [['str', 'um'], ['str', 'micron'], ['str', 'microns'], ['str', '1 micrometer'], ['str', 'micrometer'],
           ['str', '1 um'], ['str', '1.0 microns'], ['unit', 'um'], ['qty', 1, 'um'], ['pintqty', 1, 'micrometer'],
           ['tuple', [['str', 'um']] * 3], ['qty', 1.0, 'micrometer']],
    '8nm': [['str', '8 nm'], ['str', '8 nanometer'], ['str', '8 nanometers'], ['str', '8.0 nm'], ['qty', 8, 'nm'],
            ['pintqty', 8, 'nanometer'], ['tuple', [['str', '8 nm']] * 3], ['list', [['qty', 8, 'nm']] * 3],
            ['qarr', [8, 8, 8], 'nm'], ['str', '8e0 nm']],
    'nm': [['str', 'nm'], ['str', 'nanometer'], ['str', '1 nm'], ['unit', 'nm'], ['qty', 1, 'nanometer']],
    '0.5um': [['str', '0.5 um'], ['str', '0.5 micron'], ['str', '.5 microns'], ['qty', 0.5, 'um'], ['str', '0.5 micrometer']],
    'aniso': [['tuple', [['str', '4 nm'], ['str', '4 nm'], ['str', '40 nm']]],
              ['list', [['str', '4 nanometer'], ['str', '4 nanometer'], ['str', '40 nanometer']]],
              ['qarr', [4, 4, 40], 'nm'], ['tuple', [['qty', 4, 'nm'], ['qty', 4, 'nm'], ['qty', 40, 'nm']]],
              ['tuple', [['str', '4.0 nm'], ['str', '4 nm'], ['str', '4e1 nm']]]],
    'none': [None, ['num', 1], ['str', 'dimensionless'], ['str', '1 dimensionless'], ['num', 1.0], ['str', '']],
    '2dimless': [['num', 2], ['str', '2 dimensionless'], ['num', 2.0], ['tuple', [['num', 2]] * 3]],
    'anisodimless': [['tuple', [['num', 4], ['num', 4], ['num', 40]]], ['list', [['num', 4.0], ['num', 4], ['num', 40]]]],
    'mm': [['str', 'mm'], ['str', 'millimeter'], ['qty', 1, 'mm']],
    '2mm': [['str', '2 mm'], ['qty', 2, 'millimeter']],
    'm': [['str', 'm'], ['str', 'meter'], ['unit', 'm']],
    '16nm': [['str', '16 nm'], ['qty', 16, 'nm'], ['str', '16.0 nanometer']],
}
BAD_UNITS = [['tuple', [['str', 'nm'], ['str', 'um'], ['str', 'nm']]], ['tuple', [['str', 'nm'], ['str', 'nm']]],
             ['list', [['num', 1], ['num', 2], ['num', 3], ['num', 4]]], ['tuple', [['str', '4 nm'], ['num', 4], ['str', '4 nm']]]]
# units used for generated neurons (isometric / anisotropic / dimensionless)
NEURON_UNITS = [['str', '8 nm'], ['str', 'nm'], ['str', 'um'], ['str', 'micron'], ['str', '1 micrometer'],
                ['str', '0.5 um'], ['str', '2 microns'], ['qty', 8, 'nm'], ['unit', 'um'], ['str', '16 nm'],
                ['str', '4 nanometers'], ['str', 'mm'], ['str', '0.25 mm'], ['str', 'm'],
                ['tuple', [['str', '4 nm'], ['str', '4 nm'], ['str', '40 nm']]],
                ['tuple', [['str', '0.5 um'], ['str', '1 um'], ['str', '2 um']]], ['qarr', [8, 8, 32], 'nm'],
                None, ['num', 2], ['num', 0.5], ['tuple', [['num', 4], ['num', 4], ['num', 40]]],
                ['str', '3 nm'], ['str', '10 nm'], ['str', '0.1 um']]


def is_aniso(spec):
    return spec is not None and spec[0] in ('tuple', 'list', 'qarr') and len(set(map(str, spec[1]))) > 1


# ---------------------------------------------------------------------------------------------
# neurons (JSON-able description → navis object)
# ---------------------------------------------------------------------------------------------
TETRA_F = [[0, 1, 2], [0, 1, 3], [0, 2, 3], [1, 2, 3]]
CUBE_V = [[0, 0, 0], [1, 0, 0], [1, 1, 0], [0, 1, 0], [0, 0, 1], [1, 0, 1], [1, 1, 1], [0, 1, 1]]
CUBE_F = [[0, 1, 2], [0, 2, 3], [4, 6, 5], [4, 7, 6], [0, 5, 1], [0, 4, 5], [1, 6, 2], [1, 5, 6], [2, 7, 3], [2, 6, 7],
          [3, 4, 0], [3, 7, 4]]


def dy(r, lo=-40, hi=40, q=4):
    """dyadic rational with denominator q as float"""
    return r.randint(lo * q, hi * q) / q


def gen_neuron(r, kind=None, units='rand', nmax=8):
    kind = kind or r.choice(KINDS)
    d = {'k': kind, 'units': r.choice(NEURON_UNITS) if isinstance(units, str) and units == 'rand' else units,
         'name': r.choice(['nA', 'dm_1', 'x']), 'id': r.choice([7, 77, 123456789, 2 ** 40 + 1])}
    nc = r.choice([0, 1, 2, 3])
    d['conns'] = [[dy(r), dy(r), dy(r)] for _ in range(nc)]
    if kind == 'T':
        rows, _ = G.rand_forest(r, n=r.randint(1, nmax), labeling=r.choice(['seq', 'shuffled', 'sparse']))
        frac = r.random() < 0.5
        d['rows'] = [[rw['id'], rw['parent'], rw['x'] + (dy(r, 0, 1) if frac else 0), rw['y'], rw['z']] for rw in rows]
        d['radii'] = [r.choice([1 / 64, 1 / 128, 3 / 256, 1 / 1024]) for _ in rows]
    elif kind == 'M':
        if r.random() < 0.5:
            d['verts'] = [[r.randint(-20, 20) for _ in range(3)] for _ in range(4)]
            d['faces'] = TETRA_F
        else:
            s = [r.choice([1, 2, 4, 0.5]) for _ in range(3)]
            o = [r.randint(-8, 8) for _ in range(3)]
            d['verts'] = [[v[i] * s[i] + o[i] for i in range(3)] for v in CUBE_V]
            d['faces'] = CUBE_F
    elif kind == 'D':
        n = r.randint(1, nmax)
        d['points'] = [[dy(r), dy(r), dy(r)] for _ in range(n)]
    else:
        n = r.randint(1, nmax)
        d['voxels'] = [[r.randint(0, 6) for _ in range(3)] for _ in range(n)]
        d['offset'] = r.choice([None, [0, 0, 0], [10, 20, 30], [dy(r), dy(r), dy(r)]])
    return d


OWN = object()
INT_DTYPES = ['int64', 'int32', 'uint32']


def int_dtype(d, values):
    """numpy dtype for the coordinate arrays of an integer-typed neuron description (`d['dtype']`); unsigned only when no
    value is negative; None for the default float arrays"""
    dt = d.get('dtype')
    if not dt:
        return None
    flat = [v for row in values for v in (row if isinstance(row, (list, tuple)) else [row])]
    if any(float(v) != int(v) for v in flat):
        return None
    if dt.startswith('uint') and any(v < 0 for v in flat):
        dt = dt[1:]
    return np.dtype(dt)


def intify(r, d, dtype=None):
    """turn a neuron description into one with integer-valued, integer-typed coordinates (and radii)"""
    d = dict(d, dtype=dtype or r.choice(INT_DTYPES))
    if d['k'] == 'T':
        d['rows'] = [[w[0], w[1], int(round(w[2])), int(w[3]), int(w[4])] for w in d['rows']]
        d['radii'] = [r.choice([1, 2, 3]) for _ in d['rows']]
    elif d['k'] == 'D':
        d['points'] = [[int(round(c)) for c in p_] for p_ in d['points']]
    elif d['k'] == 'M':
        d['verts'] = [[int(round(c * 4)) for c in v] for v in d['verts']]
    return d


# operands whose result on integer coordinates is not an integer
INT_SCAL = [3, 0.5, 2.5, 1.5, 7, 125, 0.3]


def build(d, units=OWN):
    u = unit_obj(d['units']) if units is OWN else units
    k = d['k']
    if k == 'T':
        rows = d['rows']
        df = pd.DataFrame({'node_id': np.array([w[0] for w in rows], dtype=np.int64),
                           'parent_id': np.array([w[1] for w in rows], dtype=np.int64),
                           'x': np.array([w[2] for w in rows], dtype=float), 'y': np.array([w[3] for w in rows], dtype=float),
                           'z': np.array([w[4] for w in rows], dtype=float), 'radius': np.array(d['radii'], dtype=float)})
        dt = int_dtype(d, [w[2:5] for w in rows] + [d['radii']])
        if dt is not None:          # integer-typed coordinate / radius columns (e.g. voxel coordinates)
            for c in ('x', 'y', 'z', 'radius'):
                df[c] = df[c].astype(dt)
        n = navis.TreeNeuron(df, units=u, name=d['name'], id=d['id'])
    elif k == 'M':
        dt = int_dtype(d, d['verts'])
        n = navis.MeshNeuron((np.array(d['verts'], dtype=dt or float), np.array(d['faces'])), units=u, name=d['name'], id=d['id'])
    elif k == 'D':
        p = np.array(d['points'], dtype=int_dtype(d, d['points']) or float)
        vect = np.tile(np.array([1.0, 0, 0]), (len(p), 1))
        n = navis.Dotprops(p, k=None, vect=vect, alpha=np.ones(len(p)), units=u, name=d['name'], id=d['id'])
    else:
        n = navis.VoxelNeuron(np.array(d['voxels']), offset=d['offset'], units=u, name=d['name'], id=d['id'])
    if d['conns']:
        c = np.array(d['conns'], dtype=float)
        m = len(c)
        nid = np.array([d['rows'][i % len(d['rows'])][0] for i in range(m)], dtype=np.int64) if k == 'T' else np.zeros(m, dtype=np.int64)
        n.connectors = pd.DataFrame({'connector_id': np.arange(1, m + 1), 'node_id': nid,
                                     'type': np.arange(m) % 2, 'x': c[:, 0], 'y': c[:, 1], 'z': c[:, 2]})
    return n


# ---------------------------------------------------------------------------------------------
# factors
# ---------------------------------------------------------------------------------------------
DYADIC = [2, 0.5, 4, 8, 0.25, 1.5, 3, 16, 0.125, 1, 1024, 5]
DECIMAL = [0.1, 1000, 0.001, 0.3, 7.7, 1e-6, 1e6, 2.5e3, 0.008, 125, 1 / 3]


def gen_factor(r, kind, scaling):
    """→ dict(shape: s|v3|v4, vals, container, exact)"""
    exact = r.random() < 0.6
    pool = DYADIC if exact else DECIMAL + DYADIC
    if not scaling:
        pool = pool + [-2, -0.75, 0, 100]
    shape = r.choice(['s', 's', 'v3', 'v3', 'v4'] if scaling else ['s', 'v3', 'v3', 'v4'])
    if kind == 'T' and scaling:
        shape = r.choice(['s', 's', 'v4', 'v4', 'v3'])
    n = {'s': 1, 'v3': 3, 'v4': 4}[shape]
    vals = [r.choice(pool) for _ in range(n)]
    if shape != 's' and r.random() < 0.2:
        vals = [vals[0]] * n                       # isotropic vector
    if shape == 'v4' and r.random() < 0.3:
        vals[3] = vals[0]
    cont = 'num' if shape == 's' else r.choice(['list', 'tuple', 'array'])
    if shape == 's' and r.random() < 0.2:
        cont = r.choice(['np.float64', 'int']) if float(vals[0]).is_integer() else 'np.float64'
    return {'shape': shape, 'vals': vals, 'cont': cont}


def factor_obj(f):
    v, c = f['vals'], f['cont']
    if f['shape'] == 's':
        if c == 'int':
            return int(v[0])
        if c == 'np.float64':
            return np.float64(v[0])
        return v[0]
    if c == 'list':
        return list(v)
    if c == 'tuple':
        return tuple(v)
    return np.array(v, dtype=float)


def factor_wire(f):
    v = f['vals']
    if f['shape'] == 's':
        return f's:{rs(v[0])}'
    return f"{f['shape']}:{','.join(rs(c) for c in v)}"


def exact_factor(v, op):
    """float arithmetic with this operand is exact on the generated (small dyadic) data"""
    q = fr(v)
    if q.denominator > 1024 or abs(q.numerator) > 2 ** 20:
        return False
    if op == 'div':
        n = abs(q.numerator)
        return n != 0 and n & (n - 1) == 0
    return True


OPS = {'mul': lambda a, b: a * b, 'div': lambda a, b: a / b, 'add': lambda a, b: a + b, 'sub': lambda a, b: a - b}


def iop(op, a, b):
    if op == 'mul':
        a *= b
    elif op == 'div':
        a /= b
    elif op == 'add':
        a += b
    else:
        a -= b
    return a


def phys_bbox(x, kind):
    """bounding box × units in metres (navis' own `bbox` and `units_xyz`); voxels: bbox is already in base units."""
    bb = np.asarray(x.bbox, dtype=float)
    u = x.units_xyz
    e = unit_exp(u.units)
    sc = 1.0 if e == 'D' else 10.0 ** e
    if kind == 'V':
        return bb * sc
    return bb * np.asarray(u.magnitude, dtype=float)[:, None] * sc


def close_arr(a, b, rel=1e-9):
    a, b = np.asarray(a, dtype=float), np.asarray(b, dtype=float)
    return a.shape == b.shape and bool(np.all(np.abs(a - b) <= rel * np.maximum(1.0, np.abs(b))))


# ---------------------------------------------------------------------------------------------
# case runners
# ---------------------------------------------------------------------------------------------
def case_setunits(ctx, case):
    spec = case['spec']
    try:
        args = unit_args(spec)
    except Exception as e:                      # pint cannot parse: outside the model
        ctx.count('setunits', 'pint-unparsable')
        return
    try:
        n = build(dict(case['neuron'], units=None), units=unit_obj(spec))
        impl = units_wire(n)
    except (ValueError, TypeError) as e:
        impl = 'ERR'
        n = None
    ans = kv(ctx.ask(f"c15.setunits {TOL} {' '.join(args)} | {impl}"))
    ctx.count('setunits', 'raises' if impl == 'ERR' else ('aniso' if is_aniso(spec) else 'ok'))
    ctx.corr('ok', ans.get('corr'), f"units setter vs model for {spec!r}: impl={impl} model={ans.get('model')}", case)
    if n is not None:
        # the neuron carries the unit it was given (pint's reading of the spelling is the reference)
        want = []
        for a in (args * 3 if len(args) == 1 else args):
            if a == 'N':
                want.append((Fraction(1), True))
            else:
                m, _, e = a[2:].partition('@')
                if a.startswith('n:'):
                    want.append((Fraction(m), True))
                else:
                    want.append((Fraction(m) * (1 if e == 'D' else Fraction(10) ** int(e)), e == 'D'))
        got, gd = units_phys(n)
        ok = len(want) == 3 and all(w[1] == gd and abs(g - w[0]) <= abs(w[0]) / 2 ** TOL for g, w in zip(got, want))
        ctx.oracle(ok, f'{CLS[case["neuron"]["k"]]}(…, units={spec!r}).units == {n.units!r}: not the unit given', case)
    grp = case.get('group')
    if grp and n is not None:
        ref = build(dict(case['neuron'], units=None), units=unit_obj(SPELLINGS[grp][0]))
        same = bool(np.all(n.units_xyz == ref.units_xyz)) and str(n.units_xyz.units) == str(ref.units_xyz.units)
        ctx.oracle(same, f'spelling {spec!r} and {SPELLINGS[grp][0]!r} of the same unit give different .units: '
                         f'{n.units!r} vs {ref.units!r}', case, signature=f'units-setter/spelling/{grp}')
        # and both map a fixed length identically
        if not n.units.dimensionless and n.is_isometric:
            ctx.oracle(n.map_units('5 microns') == ref.map_units('5 microns'),
                       f'map_units differs between spellings {spec!r} / {SPELLINGS[grp][0]!r}', case)


def voxel_world(x):
    return np.asarray(x.voxels, dtype=float) * np.asarray(x.units_xyz.magnitude, dtype=float) + np.asarray(x.offset, dtype=float)


INT_DP_SIG = 'Dotprops.arithmetic/integer-points/result-truncated'


def int_points(x, kind):
    return kind == 'D' and np.issubdtype(np.asarray(x.points).dtype, np.integer)


def case_arith(ctx, case):
    d, op, f = case['neuron'], case['op'], case['factor']
    kind = d['k']
    x = build(d)
    xin = wire(x, kind)
    fo = factor_obj(f)
    scaling = op in ('mul', 'div')
    try:
        if case.get('inplace'):
            y = iop(op, x.copy(), fo)
        else:
            y = OPS[op](x, fo)
        if not isinstance(y, navis.BaseNeuron):
            raise TypeError('NotImplemented')
        out, p = wire(y, kind), units_prefix(y)
    except ZeroDivisionError:
        ctx.count('arith', f'{kind}/{op}/zero-division')
        return
    except OverflowError:                 # numpy refuses e.g. a negative integer offset on an unsigned column
        ctx.count('arith', f'{kind}/{op}/overflow-unsigned')
        return
    except (ValueError, TypeError, IndexError) as e:
        y, out, p = None, 'ERR', 0
    exact = all(exact_factor(v, op) for v in f['vals'])
    tolD = 'x' if exact else str(TOL)
    ans = parse_answer(ctx.ask(f'c15.arith {op} {factor_wire(f)} {p} {tolD} {TOL} | {xin} | {out}'))
    ctx.count('arith', f"{kind}/{op}/{f['shape']}/{'raises' if y is None else ('exact' if exact else 'tol')}")
    # input never modified (cheap sanity for the correspondence itself)
    ctx.corr(xin, wire(x, kind), f'{CLS[kind]} {op}: operand neuron modified', case)
    if y is not None and int_points(x, kind) and ans.get('corr') != 'ok':
        ctx.count('arith', 'D/integer-points/truncated')
        ctx.oracle(False, f'Dotprops {op} {f} on integer-typed points ({np.asarray(x.points).dtype}): the result is written back into '
                          f'the integer array and truncated: impl={out} expected={ans.get("model")}', case, signature=INT_DP_SIG)
        return
    ctx.corr('ok', ans.get('corr'), f"{CLS[kind]}.{op} {f} vs model: impl={out} model={ans.get('model')}", case)
    if y is None:
        return
    if scaling:
        if kind != 'V':
            ctx.oracle(ans.get('phys') == '1', f'{CLS[kind]} {op} {f}: coordinates/connectors/radii × units changed '
                                               f'(in={xin} out={out})', case)
            ctx.oracle(close_arr(phys_bbox(y, kind), phys_bbox(x, kind)),
                       f'{CLS[kind]} {op} {f}: bounding box × units changed', case)
            if kind == 'T' and f['shape'] == 's' and x.is_isometric:
                a = x.cable_length * float(x.units_xyz.magnitude[0]) * (1 if x.units.dimensionless else 10.0 ** unit_exp(x.units.units))
                b = y.cable_length * float(y.units_xyz.magnitude[0]) * (1 if y.units.dimensionless else 10.0 ** unit_exp(y.units.units))
                ctx.oracle(close_arr(b, a, rel=1e-5), f'TreeNeuron {op} {f}: cable length × units changed {a} -> {b}', case)
        else:
            dunder = '__mul__' if op == 'mul' else '__truediv__'
            ctx.oracle(ans.get('phys') == '1' or all(v == 1 for v in f['vals']),
                       f'VoxelNeuron {op} {f}: physical size changes (units {x.units!r} -> {y.units!r} on the same '
                       f'voxel grid)', case, signature=f'VoxelNeuron.{dunder}/physical-size-scales')
            # consistency that should hold at least: world coordinates and connectors scale alike
            k3 = np.array((f['vals'] * 3)[:3] if f['shape'] == 's' else f['vals'][:3], dtype=float)
            want = voxel_world(x) * k3 if op == 'mul' else voxel_world(x) / k3
            # the voxel size keeps its SI prefix (navis 881c0e3: no to_compact — offset and connectors live in that unit)
            ctx.oracle(units_prefix(y) == units_prefix(x),
                       f'VoxelNeuron {op} {f}: the prefix of the voxel size changed ({x.units!r} -> {y.units!r}) while offset and '
                       f'connectors stay in the old one', case)
            ctx.oracle(close_arr(voxel_world(y), want),
                       f'VoxelNeuron {op} {f}: world coordinates not scaled like the connectors ({x.units!r} -> {y.units!r})', case)
    else:
        ctx.oracle(ans.get('phys') == '1', f'{CLS[kind]} {op} {f}: coordinates and connectors not shifted by the same '
                                           f'vector, or radii / units touched (in={xin} out={out})', case)
    ctx.oracle(ans.get('back') == '1', f'{CLS[kind]} {op} {f}: undoing the operation does not restore the input', case)
    # the implementation's own inverse
    inv = {'mul': 'div', 'div': 'mul', 'add': 'sub', 'sub': 'add'}[op]
    try:
        z = OPS[inv](y, fo)
    except (ValueError, TypeError) as e:
        ctx.oracle(False, f'{CLS[kind]}: inverse operation raised {type(e).__name__}: {e}', case)
        return
    r = ctx.ask(f'c15.cmp {tolD} {TOL} | {wire(z, kind)} | {xin}')
    fields = set(r[5:].split(',')) if r.startswith('diff:') else set()
    ok = r == 'ok' or (fields <= {'unit-base', 'unit-mag'} and units_phys_close(z, x))
    ctx.oracle(ok, f'{CLS[kind]}: (x {op} f) {inv} f != x  [{r}] f={f} x={xin} got={wire(z, kind)}', case)


def units_phys(x):
    u = x.units_xyz
    e = unit_exp(u.units)
    return [fr(m) * (1 if e == 'D' else Fraction(10) ** e) for m in u.magnitude], e == 'D'


def units_phys_close(a, b, k=TOL):
    (pa, da), (pb, db) = units_phys(a), units_phys(b)
    return da == db and all(abs(p - q) <= abs(q) / 2 ** k for p, q in zip(pa, pb))


TARGETS = [('nm', -9), ('um', -6), ('mm', -3), ('m', 0), ('micron', -6), ('microns', -6), ('micrometer', -6),
           ('nanometer', -9), ('U:um', -6), ('U:nm', -9), ('pm', -12), ('km', 3)]


def case_convert(ctx, case):
    d, (tname, tgt) = case['neuron'], case['target']
    kind = d['k']
    x = build(d)
    xin = wire(x, kind)
    to = getattr(ureg, tname[2:]) if tname.startswith('U:') else tname
    dimless = bool(x.units.dimensionless)
    err = None
    try:
        y = x.convert_units(to, inplace=False) if not case.get('inplace') else None
        if case.get('inplace'):
            y = x.copy()
            y.convert_units(to, inplace=True)
        out, p = wire(y, kind), units_prefix(y)
    except Exception as e:
        y, out, p, err = None, 'ERR', tgt, e
    ans = parse_answer(ctx.ask(f'c15.convert {tgt} {p} {TOL} {TOL} | {xin} | {out}'))
    ctx.count('convert', f"{kind}/{'dimless' if dimless else ('aniso' if not x.is_isometric else 'iso')}/"
                         f"{'raises' if y is None else 'ok'}")
    if y is not None and int_points(x, kind) and ans.get('corr') != 'ok':
        ctx.count('convert', 'D/integer-points/truncated')
        ctx.oracle(False, f'Dotprops.convert_units({tname!r}) on integer-typed points ({np.asarray(x.points).dtype}): the converted '
                          f'coordinates are written back into the integer array and truncated: impl={out} expected={ans.get("model")}',
                   case, signature=INT_DP_SIG)
        return
    ctx.corr('ok', ans.get('corr'), f"{CLS[kind]}.convert_units({tname}) vs model: impl={out} model={ans.get('model')}", case)
    ctx.corr(xin, wire(x, kind), f'{CLS[kind]}.convert_units: input modified', case)
    if dimless:
        ctx.oracle(y is None, 'convert_units on a dimensionless neuron did not raise', case)
        return
    if y is None:
        # skeletons with per-axis units convert too (navis 549685a; before: 'requires 4 multipliers')
        ctx.oracle(False, f'{CLS[kind]}.convert_units({tname!r}) raised {type(err).__name__}: {err} for units {x.units!r}', case)
        return
    conv1 = kind == 'V' and close_arr(np.asarray(x.units_xyz.to(to).magnitude, dtype=float), 1.0)
    sig = 'VoxelNeuron.convert_units/unit-and-size-wrong' if kind == 'V' and not conv1 else None
    ok_unit = ans.get('unit') == '1' and (p == tgt or kind != 'V')
    if p != tgt and kind != 'V':     # float rounding inside to_compact: '1000.0 millimeter' for 1 m — same quantity
        ctx.count('convert', 'unit-equal-but-other-prefix')
    ctx.oracle(ok_unit, f'{CLS[kind]}.convert_units({tname!r}) from {x.units!r} gives units {y.units!r} '
                        f'(expected 1 {tname})', case, signature=sig)
    ctx.oracle(ans.get('phys') == '1', f'{CLS[kind]}.convert_units({tname!r}): physical coordinates changed '
                                       f'in={xin} out={out}', case, signature=sig)
    ctx.oracle(y.name == x.name and y.id == x.id, 'convert_units changed name/id', case)


LENGTHS = [['str', '5 microns'], ['str', '1 nm'], ['str', '0.5 um'], ['str', '2.5 micrometer'], ['str', '1 mm'],
           ['str', '300 nm'], ['str', '40 nanometers'], ['str', '1 micron'], ['qty', 5, 'um'], ['qty', 125, 'nm'],
           ['str', '1000 nm'], ['str', '1e3 nm'], ['str', '7 nm'], ['str', '1 nanometer'], ['str', '12.5 um'],
           ['num', 5], ['num', 0.25], ['str', '3'], ['pintqty', 2, 'um'], ['str', '0.064 um'], ['str', '1 m'],
           # zero, negative, very small, very large magnitudes
           ['str', '0 nm'], ['str', '0 um'], ['qty', 0, 'um'], ['str', '0.0 microns'], ['str', '-5 nm'], ['qty', -2, 'um'],
           ['num', 0], ['num', -5], ['str', '1e-12 nm'], ['str', '1e-7 nm'], ['str', '1e12 um'], ['str', '1e9 microns'],
           ['str', '0.000001 nm'], ['qty', 1e-9, 'nm'], ['str', '5 km']]


def length_arg(spec):
    """(python object, model argument, physical metres as Fraction or None)"""
    t = spec[0]
    if t == 'num':
        return spec[1], f'n:{rs(spec[1])}', None
    if t == 'str':
        q = pint.Quantity(spec[1])                   # what to_neuron_space does (pint parsing is external)
        e = unit_exp(q.units)
        return spec[1], f'q:{rs(q.magnitude)}@{e}', (None if e == 'D' else fr(q.magnitude) * Fraction(10) ** e)
    if t in ('qty', 'pintqty'):
        e = unit_exp(getattr(ureg, spec[2]))
        return unit_obj(spec), f'q:{rs(spec[1])}@{e}', fr(spec[1]) * Fraction(10) ** e
    raise ValueError(spec)


def case_map(ctx, case):
    d, spec = case['neuron'], case['length']
    x = build(d)
    obj, arg, phys = length_arg(spec)
    try:
        v = x.map_units(obj)
        if isinstance(v, (pint.Quantity,)):
            v = v.magnitude
        impl = rs(v)
    except (ValueError, AttributeError, pint.errors.DimensionalityError) as e:
        v, impl = None, 'ERR'
    ans = kv(ctx.ask(f'c15.map {arg} {TOL} | {units_wire(x)} | {impl}'))
    ctx.count('map', f"{'raises' if v is None else 'ok'}/exact={ans.get('exact')}")
    tie = False
    if v is not None and phys is not None and not x.units.dimensionless:
        # round_smart on the *float* ratio may fall on the other side of an exact decimal tie (1.25e-7 -> 1.3e-7):
        # IEEE noise, not modelled — the correspondence is skipped there, the physical oracle below is not
        um0 = fr(x.units_xyz.magnitude[0]) * Fraction(10) ** unit_exp(x.units_xyz.units)
        q = phys / um0
        dd = max(8 - (len(str(int(abs(q)))) - 1 if abs(q) >= 1 else 0), 0)
        yv = q * 10 ** dd
        tie = abs((yv - math.floor(yv)) - Fraction(1, 2)) < Fraction(1, 10 ** 6)
    if tie:
        ctx.count('map', 'near-tie-skipped')
    else:
        ctx.corr('ok', ans.get('corr'), f"map_units({spec!r}) on {x.units!r}: impl={impl} model={ans.get('model')}", case)
    if v is None:
        ok = bool(x.units.dimensionless) or not x.is_isometric
        # lengths of zero or below are mapped too (navis 0b634c2; before, round_smart raised a math domain error)
        ctx.oracle(ok, f'map_units({spec!r}) raised on a neuron with isometric length units {x.units!r}', case)
        return
    if phys is not None:
        um = fr(x.units_xyz.magnitude[0]) * Fraction(10) ** unit_exp(x.units_xyz.units)
        ratio = phys / um
        # round_smart keeps at least max(8 - digits, 0) decimals: bound 0.5·10^-d relative to the ratio, or exact
        n_int = len(str(int(abs(ratio)))) - 1 if abs(ratio) >= 1 else 0
        bound = Fraction(1, 2) / Fraction(10) ** max(8 - n_int, 0) + abs(ratio) * Fraction(1, 2 ** 40)
        ctx.oracle(abs(fr(v) - ratio) <= bound, f'map_units({spec!r}) on {x.units!r} = {v}: not the physical length '
                                               f'(expected {float(ratio)})', case)


# ---- string-valued distance arguments -----------------------------------------------------------------------
def tree_desc(r, nmin=6, nmax=14):
    rows, meta = G.rand_forest(r, n=r.randint(nmin, nmax), shape=r.choice(['random', 'caterpillar', 'broom', 'balanced', 'broot']),
                               labeling=r.choice(['seq', 'shuffled', 'sparse']), order=r.choice(G.ORDERS))
    return {'k': 'T', 'rows': [[w['id'], w['parent'], w['x'], w['y'], w['z']] for w in rows],
            'radii': [1 / 1024] * len(rows), 'conns': [], 'name': 'tn', 'id': 4711, 'units': ['str', '8 nm']}


STR_UNITS = [(['str', '8 nm'], Fraction(8, 10 ** 9)), (['str', 'nm'], Fraction(1, 10 ** 9)), (['str', '0.5 um'], Fraction(1, 2 * 10 ** 6)),
             (['str', 'micron'], Fraction(1, 10 ** 6)), (['str', '16 nanometers'], Fraction(16, 10 ** 9)), (['str', '4 nm'], Fraction(4, 10 ** 9))]


def dec_str(q):
    """exact finite decimal string of a Fraction, or None"""
    q = Fraction(q)
    d, k = q.denominator, 0
    while d % 10 == 0:
        d //= 10; k += 1
    a = b = 0
    while d % 2 == 0:
        d //= 2; a += 1
    while d % 5 == 0:
        d //= 5; b += 1
    if d != 1:
        return None
    k += max(a, b)
    n = q * 10 ** k
    assert n.denominator == 1
    s = str(abs(n.numerator)).rjust(k + 1, '0')
    out = (s[:-k] + '.' + s[-k:]) if k else s
    return ('-' if q < 0 else '') + out


def fmt_len(m):
    """spellings of the physical length m (Fraction, metres)"""
    out = []
    for name, e in (('microns', -6), ('nm', -9), ('um', -6), ('nanometers', -9), ('micrometer', -6)):
        s = dec_str(m / Fraction(10) ** e)
        if s is not None and len(s) <= 12:
            out.append((f'{s} {name}', m))
    return out


def nodes_sig(x):
    nd = x.nodes
    return sorted(zip(map(int, nd.node_id.values), map(int, nd.parent_id.values)))


def phys_nodes(x):
    u = x.units_xyz
    e = unit_exp(u.units)
    return np.sort((x.nodes[['x', 'y', 'z']].values * np.asarray(u.magnitude, dtype=float) * (1.0 if e == 'D' else 10.0 ** e)).round(18), axis=0)


def run_strfun(fn, x, arg):
    if fn == 'prune_twigs':
        return navis.prune_twigs(x, arg)
    if fn == 'prune_twigs_exact':
        return navis.prune_twigs(x, arg, exact=True)
    if fn == 'prune_at_depth':
        return navis.prune_at_depth(x, arg)
    if fn == 'resample':
        return navis.resample_skeleton(x, arg)
    if fn == 'heal':
        frag = navis.subset_neuron(x, x.nodes.node_id.values[::2])
        return navis.heal_skeleton(frag, max_dist=arg)
    if fn == 'geodesic':
        return navis.geodesic_matrix(x, limit=arg)
    raise ValueError(fn)


def result_sig(fn, res):
    if fn == 'geodesic':
        v = np.asarray(res.values if hasattr(res, 'values') else res, dtype=float)
        return ('fin', np.isfinite(v).tolist(), sorted(map(int, res.index)))
    if fn in ('resample', 'prune_twigs_exact'):
        return ('n', res.n_nodes)
    if fn == 'heal':      # which fragment's root survives is incidental: compare the undirected skeleton
        return ('uedges', sorted(tuple(sorted(e)) for e in nodes_sig(res) if e[1] >= 0), sorted(e[0] for e in nodes_sig(res)))
    return ('nodes', nodes_sig(res))


def case_strarg(ctx, case):
    d, fn = case['neuron'], case['fn']
    ustr, k = case['units'], case['k']
    d1 = dict(d, units=ustr)
    A = build(d1)
    um = fr(A.units_xyz.magnitude[0]) * Fraction(10) ** unit_exp(A.units_xyz.units)
    # threshold half-way between integer multiples of the unit: never a tie with an integer path length
    m = (Fraction(case['steps']) + Fraction(1, 2)) * um
    cands = fmt_len(m)
    if not cands:
        ctx.count('strarg', 'unformattable')
        return
    s, exactm = cands[case['fmt'] % len(cands)]
    # the same neuron with coordinates × k and units / k (built from scratch, not via navis' arithmetic)
    d2 = dict(d, rows=[[w[0], w[1], w[2] * k, w[3] * k, w[4] * k] for w in d['rows']], radii=[v * k for v in d['radii']])
    mag2 = float(fr(A.units_xyz.magnitude[0]) / fr(k))
    B = build(d2, units=ureg.Quantity(mag2, A.units_xyz.units))
    num = float(exactm / um)
    try:
        rn = run_strfun(fn, A, num)
    except Exception as e:                       # the function itself fails on this input: not C15's business
        ctx.count('strarg', f'{fn}/numeric-raises:{type(e).__name__}')
        return
    try:
        ra, rb = run_strfun(fn, A, s), run_strfun(fn, B, s)
    except Exception as e:
        ctx.oracle(False, f'{fn}(x, {s!r}) raised {type(e).__name__}: {e} although the numeric argument {num} works', case)
        return
    ctx.count('strarg', fn)
    ctx.count('map_sites_exercised', E.SITE_OF[fn.replace('prune_twigs_exact', 'prune_twigs')])
    ctx.oracle(result_sig(fn, ra) == result_sig(fn, rn),
               f'{fn}(x, {s!r}) on units {A.units!r} differs from the numeric argument {num}', case)
    ctx.oracle(result_sig(fn, ra) == result_sig(fn, rb),
               f'{fn}(x, {s!r}) differs between the neuron in {A.units!r} and the same neuron rescaled by {k} '
               f'({B.units!r})', case)
    if fn in ('resample', 'prune_twigs_exact'):
        ctx.oracle(close_arr(phys_nodes(ra), phys_nodes(rb), rel=1e-6),
                   f'{fn}(x, {s!r}): physical node positions differ between {A.units!r} and rescaled {B.units!r}', case)
    # the mapping itself
    ctx.oracle(abs(fr(A.map_units(s)) - exactm / um) <= abs(exactm / um) / 2 ** 30 and
               abs(fr(B.map_units(s)) - exactm / um * fr(k)) <= abs(exactm / um * fr(k)) / 2 ** 30,
               f'map_units({s!r}) is not length/unit on {A.units!r} or {B.units!r}', case)


# ---- metadata sweep --------------------------------------------------------------------------------------------
def md(x):
    u = x.units_xyz
    e = unit_exp(u.units)
    return (tuple(fr(m) * (1 if e == 'D' else Fraction(10) ** e) for m in u.magnitude), 'D' if e == 'D' else 'L', x.name, x.id)


def md_wire(x):
    return f'{units_wire(x)};{x.name};{int(x.id)}'


def _interior(x):
    nd = x.nodes
    ids = nd.node_id.values[nd.parent_id.values >= 0]
    return int(ids[len(ids) // 2])


def _branchless_cut(x):
    return _interior(x)


# (name, model class, signature-or-None, function)
TREE_OPS = [
    ('x.copy()', 'copy', lambda x: x.copy()),
    ('x.copy(deepcopy=True)', 'copy', lambda x: x.copy(deepcopy=True)),
    ('copy.copy(x)', 'copy', lambda x: _copy.copy(x)),
    ('copy.deepcopy(x)', 'copy', lambda x: _copy.deepcopy(x)),
    ('NeuronList([x]).copy()', 'copy', lambda x: navis.NeuronList([x]).copy()[0]),
    ('TreeNeuron(x)', 'rewrap', lambda x: navis.TreeNeuron(x)),
    ('reroot_skeleton', 'oncopy', lambda x: navis.reroot_skeleton(x, _interior(x))),
    ('x.reroot', 'oncopy', lambda x: x.reroot(_interior(x))),
    ('cut_skeleton[0]', 'oncopy', lambda x: navis.cut_skeleton(x, _interior(x))[0]),
    ('cut_skeleton[1]', 'oncopy', lambda x: navis.cut_skeleton(x, _interior(x))[1]),
    ('subset_neuron', 'oncopy', lambda x: navis.subset_neuron(x, x.nodes.node_id.values[: max(1, x.n_nodes // 2)])),
    ('prune_twigs', 'oncopy', lambda x: navis.prune_twigs(x, 5)),
    ('x.prune_twigs', 'oncopy', lambda x: x.prune_twigs(5)),
    ('prune_by_strahler', 'oncopy', lambda x: navis.prune_by_strahler(x, 1)),
    ('x.prune_by_strahler', 'oncopy', lambda x: x.prune_by_strahler(1)),
    ('prune_at_depth', 'oncopy', lambda x: navis.prune_at_depth(x, 10)),
    ('x.prune_at_depth', 'oncopy', lambda x: x.prune_at_depth(10)),
    ('x.prune_distal_to', 'reinitcut', lambda x: x.prune_distal_to(_interior(x))),
    ('x.prune_proximal_to', 'reinitcut', lambda x: x.prune_proximal_to(_interior(x))),
    ('longest_neurite', 'oncopy', lambda x: navis.longest_neurite(x, 1)),
    ('x.prune_by_longest_neurite', 'oncopy', lambda x: x.prune_by_longest_neurite(1)),
    ('drop_fluff', 'oncopy', lambda x: navis.drop_fluff(x)),
    ('heal_skeleton', 'oncopy', lambda x: navis.heal_skeleton(navis.subset_neuron(x, x.nodes.node_id.values[::2]))),
    ('stitch_skeletons(cut)', 'oncopy', lambda x: navis.stitch_skeletons(*navis.cut_skeleton(x, _interior(x)))),
    ('resample_skeleton', 'oncopy', lambda x: navis.resample_skeleton(x, 2)),
    ('x.resample', 'oncopy', lambda x: x.resample(2)),
    ('downsample_neuron', 'oncopy', lambda x: navis.downsample_neuron(x, 2)),
    ('x.downsample', 'oncopy', lambda x: x.downsample(2)),
    ('despike_skeleton', 'oncopy', lambda x: navis.despike_skeleton(x)),
    ('smooth_skeleton', 'oncopy', lambda x: navis.smooth_skeleton(x)),
    ('remove_nodes', 'oncopy', lambda x: navis.remove_nodes(x, [_interior(x)])),
    ('make_dotprops', 'construct', lambda x: navis.make_dotprops(x, k=min(3, x.n_nodes))),
    ('pickle', 'pickle', lambda x: pickle.loads(pickle.dumps(x))),
    # second pass: remaining methods taking `inplace=` (Gen.Units.inplaceMethods), in-place forms, NeuronList forms
    ('x.cell_body_fiber', 'oncopy', lambda x: _with_soma(x).cell_body_fiber(reroot_soma=False)),
    ('cell_body_fiber', 'oncopy', lambda x: navis.cell_body_fiber(_with_soma(x), reroot_soma=False)),
    ('x.prune_by_volume', 'oncopy', lambda x: x.prune_by_volume(_half_box(x))),
    ('in_volume', 'oncopy', lambda x: navis.in_volume(x, _half_box(x), inplace=False)),
    ('x.reroot(inplace)', 'oncopy', lambda x: _inpl(x, lambda y: y.reroot(_interior(y), inplace=True))),
    ('x.prune_twigs(inplace)', 'oncopy', lambda x: _inpl(x, lambda y: y.prune_twigs(5, inplace=True))),
    ('x.prune_distal_to(inplace)', 'reinitcut', lambda x: _inpl(x, lambda y: y.prune_distal_to(_interior(y), inplace=True))),
    ('x.prune_proximal_to(inplace)', 'reinitcut', lambda x: _inpl(x, lambda y: y.prune_proximal_to(_interior(y), inplace=True))),
    ('x.resample(inplace)', 'oncopy', lambda x: _inpl(x, lambda y: y.resample(2, inplace=True))),
    ('x.downsample(inplace)', 'oncopy', lambda x: _inpl(x, lambda y: y.downsample(2, inplace=True))),
    ('x.prune_by_strahler(inplace)', 'oncopy', lambda x: _inpl(x, lambda y: y.prune_by_strahler(1, inplace=True))),
    ('x.prune_at_depth(inplace)', 'oncopy', lambda x: _inpl(x, lambda y: y.prune_at_depth(10, inplace=True))),
    ('heal_skeleton(inplace)', 'oncopy', lambda x: _inpl(navis.subset_neuron(x, x.nodes.node_id.values[::2]), lambda y: navis.heal_skeleton(y, inplace=True))),
    ('NeuronList.reroot', 'oncopy', lambda x: navis.NeuronList([x]).reroot([_interior(x)])[0]),
    ('NeuronList.prune_twigs', 'oncopy', lambda x: navis.NeuronList([x, x.copy()]).prune_twigs(5)[0]),
    ('prune_twigs(NeuronList)', 'oncopy', lambda x: navis.prune_twigs(navis.NeuronList([x, x.copy()]), 5)[1]),
    ('resample_skeleton(NeuronList)', 'oncopy', lambda x: navis.resample_skeleton(navis.NeuronList([x, x.copy()]), 2)[0]),
    ('NeuronList.downsample', 'oncopy', lambda x: navis.NeuronList([x, x.copy()]).downsample(2)[1]),
    ('split_into_fragments[0]', 'oncopy', lambda x: navis.split_into_fragments(x, n=2)[0]),
    ('longest_neurite(from_root=False)', 'oncopy', lambda x: navis.longest_neurite(x, 1, from_root=False)),
    ('insert_nodes', 'oncopy', lambda x: navis.insert_nodes(x, [(int(x.nodes.node_id.values[x.nodes.parent_id.values >= 0][0]),
                                                              int(x.nodes.parent_id.values[x.nodes.parent_id.values >= 0][0]))])),
    ('rewire_skeleton', 'oncopy', lambda x: navis.rewire_skeleton(x, x.graph.copy())),
    ('TreeNeuron(x, units=x.units)', 'rewrap', lambda x: navis.TreeNeuron(x, units=x.units_xyz if not x.is_isometric else x.units)),
]


def _with_soma(x):
    y = x.copy()
    y.soma = int(y.nodes.node_id.values[y.nodes.parent_id.values >= 0][-1])
    return y


def _half_box(x):
    bb = np.asarray(x.bbox, dtype=float)
    lo, hi = bb[:, 0] - 1, bb[:, 1] + 1
    hi = hi.copy()
    hi[0] = (lo[0] + hi[0]) / 2 + 0.25
    v = np.array([[a, b, c] for a in (lo[0], hi[0]) for b in (lo[1], hi[1]) for c in (lo[2], hi[2])])
    f = np.array([[0, 1, 3], [0, 3, 2], [4, 7, 5], [4, 6, 7], [0, 5, 1], [0, 4, 5], [2, 3, 7], [2, 7, 6], [0, 2, 6], [0, 6, 4],
                  [1, 5, 7], [1, 7, 3]])
    return navis.Volume(v, f, name='box')


def _inpl(x, f):
    y = x.copy()
    r = f(y)
    if r is not None and r is not y:
        raise AssertionError('in-place call returned a different object')
    return y


MESH_OPS = [
    ('x.copy()', 'copy', lambda x: x.copy()),
    ('MeshNeuron(x)', 'rewrap', lambda x: navis.MeshNeuron(x)),
    ('subset_neuron', 'oncopy', lambda x: navis.subset_neuron(x, [0, 1, 2])),
    ('downsample_neuron', 'oncopy', lambda x: navis.downsample_neuron(x, 2)),
    ('make_dotprops', 'construct', lambda x: navis.make_dotprops(x, k=3)),
    ('pickle', 'pickle', lambda x: pickle.loads(pickle.dumps(x))),
    ('x.validate', 'oncopy', lambda x: x.validate(inplace=False)),
    ('x.copy() [deep]', 'copy', lambda x: _copy.deepcopy(x)),
    ('NeuronList([x]).copy()', 'copy', lambda x: navis.NeuronList([x]).copy()[0]),
]
DOT_OPS = [
    ('x.copy()', 'copy', lambda x: x.copy()),
    ('subset_neuron', 'oncopy', lambda x: navis.subset_neuron(x, list(range(max(1, len(x.points) // 2))))),
    ('downsample_neuron', 'oncopy', lambda x: navis.downsample_neuron(x, 2)),
    ('make_dotprops', 'construct', lambda x: navis.make_dotprops(x, k=min(3, len(x.points)))),
    ('pickle', 'pickle', lambda x: pickle.loads(pickle.dumps(x))),
    ('x.downsample', 'oncopy', lambda x: x.downsample(2, inplace=False)),
    ('x.drop_fluff', 'oncopy', lambda x: x.drop_fluff(epsilon=1000.0, inplace=False)),
    ('drop_fluff', 'oncopy', lambda x: navis.drop_fluff(x, epsilon=1000.0)),
    ('x.recalculate_tangents', 'oncopy', lambda x: x.recalculate_tangents(min(3, len(x.points)), inplace=False)),
    ('copy.deepcopy(x)', 'copy', lambda x: _copy.deepcopy(x)),
]
VOX_OPS = [
    ('x.copy()', 'copy', lambda x: x.copy()),
    ('x.strip()', 'oncopy', lambda x: x.strip()),
    ('pickle', 'pickle', lambda x: pickle.loads(pickle.dumps(x))),
    ('x.threshold', 'oncopy', lambda x: x.threshold(1, inplace=False)),
    ('copy.deepcopy(x)', 'copy', lambda x: _copy.deepcopy(x)),
]
# methods of Gen.Units.inplaceMethods → the sweep entry that exercises them (None: cannot run offline)
METHOD_COVER = {('TreeNeuron', 'resample'): 'x.resample', ('TreeNeuron', 'downsample'): 'x.downsample', ('TreeNeuron', 'reroot'): 'x.reroot',
                ('TreeNeuron', 'prune_distal_to'): 'x.prune_distal_to', ('TreeNeuron', 'prune_proximal_to'): 'x.prune_proximal_to',
                ('TreeNeuron', 'prune_by_strahler'): 'x.prune_by_strahler', ('TreeNeuron', 'prune_twigs'): 'x.prune_twigs',
                ('TreeNeuron', 'prune_at_depth'): 'x.prune_at_depth', ('TreeNeuron', 'cell_body_fiber'): 'x.cell_body_fiber',
                ('TreeNeuron', 'prune_by_longest_neurite'): 'x.prune_by_longest_neurite', ('TreeNeuron', 'prune_by_volume'): 'x.prune_by_volume',
                ('TreeNeuron', 'reload'): None, ('MeshNeuron', 'validate'): 'x.validate', ('Dotprops', 'downsample'): 'x.downsample',
                ('Dotprops', 'drop_fluff'): 'x.drop_fluff', ('Dotprops', 'recalculate_tangents'): 'x.recalculate_tangents',
                ('VoxelNeuron', 'strip'): 'x.strip()', ('VoxelNeuron', 'threshold'): 'x.threshold'}
SWEEP = {'T': TREE_OPS, 'M': MESH_OPS, 'D': DOT_OPS, 'V': VOX_OPS}
SWEEP_UNITS = [['str', '8 nm'], ['str', 'um'], ['str', '2 microns'], ['qty', 16, 'nm'], ['num', 2],
               ['tuple', [['str', '4 nm'], ['str', '4 nm'], ['str', '40 nm']]], ['str', '0.5 um'], None]


def sweep_sig(kind, name):
    base = name.replace('x.', '').replace('()', '')
    return f'{base}/units-lost'


def case_sweep(ctx, case):
    d, opname = case['neuron'], case['op']
    kind = d['k']
    ent = [e for e in SWEEP[kind] if e[0] == opname]
    if not ent:
        return
    _, cls, fn = ent[0]
    x = build(d)
    before, bw = md(x), md_wire(x)
    try:
        y = fn(x)
        if isinstance(y, navis.NeuronList):
            y = y[0]
    except Exception as e:
        ctx.count('sweep_errors', f'{CLS[kind]}/{opname}/{type(e).__name__}')
        return
    after = md(y)
    ctx.count('sweep', f'{CLS[kind]}/{opname}')
    model = ctx.ask(f'c15.meta {cls} | {wire(x, kind)}')
    ok_units = before[:2] == after[:2]
    # correspondence with the model's operation class (units compared by physical value and dimension)
    mu = model.split(';')[0] if model != 'ERR' else None
    impl_same = 'kept' if ok_units else ('dimensionless-1' if after[:2] == ((1, 1, 1), 'D') else 'other')
    model_same = 'kept' if mu == units_wire(x) else ('dimensionless-1' if mu == '1,1,1@D' else 'other')
    ctx.corr(impl_same, model_same, f'{CLS[kind]} {opname}: units flow differs from the model class {cls!r}: '
                                    f'before={bw} after={md_wire(y)} model={model}', case)
    ctx.corr(f'{y.name};{int(y.id)}', ';'.join(model.split(';')[1:]), f'{CLS[kind]} {opname}: name/id flow differs from model', case)
    ctx.corr(bw, md_wire(x), f'{CLS[kind]} {opname}: metadata of the input changed', case)
    lost = after[:2] == ((1, 1, 1), 'D') and not ok_units
    ctx.oracle(ok_units, f'{CLS[kind]} {opname}: units {x.units!r} -> {y.units!r}', case,
               signature=sweep_sig(kind, opname) if lost else None)
    ctx.oracle(after[2] == before[2], f'{CLS[kind]} {opname}: name {before[2]!r} -> {after[2]!r}', case)
    ctx.oracle(after[3] == before[3], f'{CLS[kind]} {opname}: id {before[3]!r} -> {after[3]!r}', case)


def units_wire_close(ua, ub, k=TOL):
    (ma, ba), (mb, bb) = ua.split('@'), ub.split('@')
    return ba == bb and all(abs(Fraction(p) - Fraction(q)) <= abs(Fraction(q)) / 2 ** k
                            for p, q in zip(ma.split(','), mb.split(',')))


def case_rewrap(ctx, case):
    """`cls(x)` keeps the units, `cls(x, units=u)` overrides them, a bare table is `1 dimensionless`."""
    d, spec = case['neuron'], case['spec']
    kind = d['k']
    cls = {'T': navis.TreeNeuron, 'M': navis.MeshNeuron}[kind]
    x = build(d)
    default = bool(case.get('default', False)) or spec is None      # `units=None` *is* the default
    hd = 'D' if default else ' '.join(unit_args(spec))
    try:
        y = cls(x) if default else cls(x, units=unit_obj(spec))
        impl = md_wire(y)
    except (ValueError, TypeError):
        y, impl = None, 'ERR'
    model = ctx.ask(f'c15.reinit {hd} | {wire(x, kind)}')
    ctx.count('rewrap', f"{CLS[kind]}/{'default' if default else ('raises' if y is None else 'explicit')}")

    def same(a, b):
        if a == 'ERR' or b == 'ERR':
            return a == b
        (ua, *ra), (ub, *rb) = a.split(';'), b.split(';')
        return ra == rb and units_wire_close(ua, ub)
    ctx.corr(True, same(impl, model), f'{CLS[kind]}(x, units={"default" if default else spec!r}): impl={impl} model={model}', case)
    if y is None:
        return
    if default:
        ctx.oracle(md(y) == md(x), f'{CLS[kind]}(x): (units, name, id) {md_wire(x)} -> {md_wire(y)}', case,
                   signature=f'{CLS[kind]}(x)/units-lost' if md(y)[:2] == ((1, 1, 1), 'D') and md(y)[2:] == md(x)[2:] else None)
    else:
        ref = build(dict(d, conns=[]), units=unit_obj(spec))
        ctx.oracle(md(y) == md(ref), f'{CLS[kind]}(x, units={spec!r}) has units {y.units!r}, expected {ref.units!r} '
                                     f'(name/id {y.name!r}/{y.id!r})', case)
    # construction from a bare table: dimensionless
    if kind == 'T':
        z = navis.TreeNeuron(x.nodes.copy())
        ctx.corr(units_wire(z), ctx.ask('c15.fromtable D'), 'TreeNeuron(table) units vs model', case)
        ctx.oracle(bool(z.units.dimensionless) and float(z.units.magnitude) == 1.0,
                   f'TreeNeuron(table) without units is {z.units!r}, expected 1 dimensionless', case)


RUNNERS = {'hist': E.case_hist, 'histmd': E.case_histmd, 'strsite': E.case_strsite, 'mapx': E.case_mapx, 'm2s': E.case_m2s, 'strzero': E.case_strzero, 'nlarith': E.case_nlarith, 'addunits': E.case_addunits, 'optsweep': E.case_optsweep, 'rewrap': case_rewrap, 'setunits': case_setunits, 'arith': case_arith, 'convert': case_convert, 'map': case_map,
           'strarg': case_strarg, 'sweep': case_sweep}


# ---------------------------------------------------------------------------------------------
# generators
# ---------------------------------------------------------------------------------------------
def gen_cases(ctx):
    r = ctx.rng
    small = gen_neuron(r, 'D', nmax=2)
    # (a) every spelling, every neuron type once
    for grp, specs in SPELLINGS.items():
        for spec in specs:
            yield 'setunits', {'spec': spec, 'group': grp, 'neuron': gen_neuron(r, r.choice(KINDS), nmax=3)}
    for spec in BAD_UNITS:
        yield 'setunits', {'spec': spec, 'group': None, 'neuron': small}
    for _ in range(ctx.budget(40, 400)):
        mags = [r.choice([1, 2, 4, 8, 0.5, 40, 3, 10, 0.25]) for _ in range(3)]
        un = r.choice(['nm', 'um', 'mm', 'nanometer', 'microns', 'micron', 'm'])
        form = r.choice(['tuple-str', 'qarr', 'tuple-num', 'str', 'qty'])
        if form == 'tuple-str':
            spec = ['tuple', [['str', f'{m} {un}'] for m in mags]]
        elif form == 'qarr':
            spec = ['qarr', mags, un.replace('microns', 'um').replace('micron', 'um')]
        elif form == 'tuple-num':
            spec = ['tuple', [['num', m] for m in mags]]
        elif form == 'str':
            spec = ['str', f'{mags[0]} {un}']
        else:
            spec = ['qty', mags[0], un.replace('microns', 'um').replace('micron', 'um')]
        yield 'setunits', {'spec': spec, 'group': None, 'neuron': small}
    # (b) arithmetic
    for i in range(ctx.budget(700, 7000)):
        kind = KINDS[i % 4]
        op = r.choice(['mul', 'mul', 'div', 'div', 'add', 'sub'])
        nd = gen_neuron(r, kind)
        fac = gen_factor(r, kind, op in ('mul', 'div'))
        if kind in 'TMD' and (i // 4) % 4 == 0:
            # integer-typed tables (voxel coordinates): operands with non-integer results make a truncation visible
            nd = intify(r, nd, INT_DTYPES[(i // 16) % 3])
            if nd['units'] is not None and nd['units'][0] in ('str', 'qty', 'unit') and r.random() < 0.7:
                nd['units'] = r.choice([['str', '8 nm'], ['str', 'nm'], ['str', '4 nanometers'], ['str', '16 nm']])
            if op in ('mul', 'div'):
                if fac['shape'] == 's':
                    fac['vals'], fac['cont'] = [r.choice(INT_SCAL)], 'num'
                else:
                    fac['vals'] = [r.choice(INT_SCAL + [2, 1]) for _ in fac['vals']]
            else:
                fac['vals'] = [r.choice([0.5, 2.5, -0.25, 1.5]) for _ in fac['vals']]
                if fac['shape'] == 's':
                    fac['cont'] = 'num'
        yield 'arith', {'neuron': nd, 'op': op, 'factor': fac, 'inplace': r.random() < 0.25}
    # (c) convert_units
    for i in range(ctx.budget(250, 2500)):
        kind = KINDS[i % 4]
        nd = gen_neuron(r, kind)
        if kind in 'TMD' and (i // 4) % 3 == 0:
            nd = intify(r, nd, INT_DTYPES[(i // 12) % 3])
            nd['units'] = r.choice([['str', '8 nm'], ['str', 'nm'], ['str', '4 nanometers'], ['str', '16 nm'], ['str', '0.5 um'],
                                    ['tuple', [['str', '4 nm'], ['str', '4 nm'], ['str', '40 nm']]]])
        yield 'convert', {'neuron': nd, 'target': list(r.choice(TARGETS[:10] if i % 7 else TARGETS)),
                          'inplace': r.random() < 0.3}
    # (d) map_units
    for i in range(ctx.budget(300, 3000)):
        kind = KINDS[i % 4] if i % 3 else 'T'
        if r.random() < 0.3:
            mag = r.choice([1, 2, 3, 7, 8, 16, 0.5, 0.3, 10, 12.5])
            L = ['str', f"{r.choice([1, 5, 0.5, 2.5, 40, 300, 1000, 7, 12.5, 0.064])} {r.choice(['nm', 'um', 'microns', 'micron', 'mm', 'nanometers'])}"]
            nd = gen_neuron(r, kind, units=['str', f"{mag} {r.choice(['nm', 'um', 'micron'])}"], nmax=3)
        else:
            L = r.choice(LENGTHS)
            nd = gen_neuron(r, kind, nmax=3)
        yield 'map', {'neuron': nd, 'length': L}
    # (e) string-valued distance arguments
    fns = ['prune_twigs', 'prune_at_depth', 'resample', 'heal', 'geodesic', 'prune_twigs_exact']
    for i in range(ctx.budget(60, 600)):
        u, _ = r.choice(STR_UNITS)
        yield 'strarg', {'neuron': tree_desc(r), 'fn': fns[i % len(fns)], 'units': u, 'k': r.choice([0.5, 2, 8, 0.125, 4]),
                         'steps': r.randint(1, 14), 'fmt': r.randint(0, 4)}
    # (h) physical quantities after a history (warm caches -> arithmetic -> distance observables), every back-end
    for i in range(ctx.budget(66, 800)):
        yield 'hist', E.gen_hist(r, B_ALL[i % len(B_ALL)], i // len(B_ALL))
    for i in range(ctx.budget(40, 400)):
        yield 'histmd', E.gen_histmd(r, 'MD'[i % 2], i // 2)
    # (s) every other map_units call site with a string argument, neuron in two units, every back-end
    for i in range(ctx.budget(42, 420)):
        yield 'strsite', E.gen_strsite(r, i)
    # (z) zero / negative / huge lengths as strings: must behave like the numeric argument length/unit
    for i in range(ctx.budget(24, 240)):
        yield 'strzero', E.gen_strzero(r, i)
    if not ctx.quick():
        yield 'm2s', {'length': '1 micron'}
    for i in range(ctx.budget(45, 450)):
        yield 'nlarith', E.gen_nlarith(r, i)
    # (m) map_units: NeuronList, on_error, function form, pint.Unit
    for i in range(ctx.budget(80, 800)):
        yield 'mapx', E.gen_mapx(r, i)
    # (u) config.add_units = True: unit-carrying properties as physical quantities, invariant under scaling
    for i in range(ctx.budget(80, 600)):
        yield 'addunits', E.gen_addunits(r, i)
    # (o) metadata sweep with an option dimension (non-default bool / Literal / listed values per operation)
    for rep in range(ctx.budget(1, 6)):
        for c_ in E.gen_optsweep(r, rep):
            yield 'optsweep', c_
    # (f') re-wrapping: default keeps, explicit units override, bare table is dimensionless
    specs = [sp[0] for sp in SPELLINGS.values()] + BAD_UNITS[:2]
    for i in range(ctx.budget(40, 400)):
        kind = 'TM'[i % 2]
        yield 'rewrap', {'neuron': gen_neuron(r, kind, nmax=5), 'spec': r.choice(specs), 'default': i % 4 == 0}
    # (f) metadata sweep
    for rep in range(ctx.budget(3, 16)):
        for kind in KINDS:
            for (name, cls, _) in SWEEP[kind]:
                u = SWEEP_UNITS[rep % len(SWEEP_UNITS)] if rep < len(SWEEP_UNITS) else r.choice(SWEEP_UNITS)
                if kind == 'T':
                    nd = dict(tree_desc(r, 7, 12), units=u, name=r.choice(['skel', 'n_1']), id=r.choice([5, 2 ** 33]))
                    nd['conns'] = [[1.0, 2.0, 3.0]]
                else:
                    nd = gen_neuron(r, kind, units=u)
                    if kind == 'D':
                        nd['points'] = [[dy(r), dy(r), dy(r)] for _ in range(6)]
                yield 'sweep', {'neuron': nd, 'op': name}


def nontrivial(kind, case):
    if kind == 'arith':
        return any(v != 1 for v in case['factor']['vals']) if case['op'] in ('mul', 'div') else any(v != 0 for v in case['factor']['vals'])
    return True


def run_case(ctx, kind, c):
    """an exception escaping a runner means navis returned something the harness cannot even canonicalise: the
    tie is broken (reported as a correspondence failure, which triggers the failing-input search)"""
    from .common import Timeout
    try:
        RUNNERS[kind](ctx, c)
    except Timeout:
        raise
    except Exception as e:
        import traceback
        if isinstance(e, (RuntimeError, BrokenPipeError, OSError)) and ('navisdrv' in str(e) or 'driver died' in str(e) or isinstance(e, (BrokenPipeError, OSError))):
            raise                                # driver / infrastructure problem: exit 2, never a violation
        ctx.fail('corr', f'{kind}: harness could not evaluate the case: {type(e).__name__}: {e} '
                         f'[{traceback.format_exc().strip().splitlines()[-3].strip()}]', c)


def run(ctx):
    ctx.extra['rule'] = (
        'setunits: every spelling of 12 unit groups + malformed + random per-axis forms on a random neuron type; '
        'arith: random neuron (TreeNeuron from harness.gen forests with dyadic coordinates/radii, tetrahedron/cube MeshNeuron, '
        'Dotprops, VoxelNeuron with offset; 0-3 connectors; 24 unit forms incl. per-axis, dimensionless, numbers) × op × '
        'factor (number / 3-vector / 4-vector; list, tuple, array, int, np.float64; dyadic = exact comparison, decimal = 2^-40) × '
        'inplace; non-trivial when the factor is not the identity; convert: neuron × 12 targets; map: neuron units × 21 '
        'length forms + random; strarg: 6 functions × units × rescale factor × threshold half-way between integer path '
        'lengths; sweep: every catalogued non-scaling operation (functions, methods, in-place and NeuronList forms; every method with '
        '`inplace=` found in the source) × neuron type × 8 unit forms; hist: per back-end a deterministic core (all caches warm, then '
        'each operator form once) + random histories of 1-3 steps with re-warming, 9 unit forms, scalar/4-vector/offset operands, '
        'convert_units; histmd: cube MeshNeuron / Dotprops with up to 48 points (more than one KD-tree leaf), warm → operator(s); '
        'addunits: T/T/M/V × 10 unit forms × {x, x*k, x/k, x*=k, convert_units} with config.add_units on; optsweep: every operation × '
        'every one-at-a-time option variant read from its signature + listed sets; '
        'strsite: 7 further map_units call sites × units × rescale factor × back-end; mapx / nlarith: NeuronList, on_error, '
        'pint.Unit, elementwise arithmetic. distinct = JSON digest')
    ctx.extra['assumptions'] = [
        'pint parses unit / length strings (external): the model receives (magnitude, base unit) as parsed by pint',
        "pint's to_compact picks the SI prefix (external): the prefix is read off navis' output and given to the model; "
        'every theorem is quantified over all prefixes',
        'zero factors (ZeroDivisionError / inf) and negative scale factors are not generated',
        'IEEE rounding: dyadic factors are compared exactly, decimal factors and all unit magnitudes within 2^-40 relative',
        'VoxelNeuron.downsample / make_dotprops / mesh legitimately change the voxel size / unit and are not in the sweep',
        'histories: a cached view is modelled by the coordinates it was computed from; which attributes are present after a '
        'warming step is read off the navis object, their content is the model\'s; `_clear_temp_attr` deletes by literal name '
        'match against TEMP_ATTR (the rule C02 pins from the source)',
        'navis-fastcore computes in float32: inexact histories are compared within 2^-18 relative under that back-end; '
        'round_smart keeps 8 decimals, so string-length comparisons are made only where length/unit has at most that many',
        'thresholds of string-valued arguments lie half-way between integer path lengths; functions whose result depends on '
        'ties between equally long branches are compared only for exactly representable (dyadic) histories',
    ]
    for kind, case in gen_cases(ctx):
        c = dict(case, kind=kind)
        ctx.case(c, nontrivial=nontrivial(kind, case), sample_every=97)
        run_case(ctx, kind, c)
    # coverage of what the translator found in the current source (a note, never an alarm: a *new* call site or method
    # is not a defect, it is a hole in this harness)
    meta = (ctx.extra.get('generated_from_source', {}).get('files', {}) or {}).get('Units.lean', {})
    done = set(ctx.hist.get('map_sites_exercised', {}))
    miss = [s_ for s_ in meta.get('map_sites', []) if s_ not in done]
    if not ctx.quick():
        miss = [s_ for s_ in miss if 'resample_along_axis' not in s_]
    else:
        miss = [s_ for s_ in miss if 'resample_along_axis' not in s_ and 'mesh2skeleton' not in s_]
    if miss:
        ctx.notes.append(f'map_units call sites in the source that no stream exercised with a string argument: {miss}')
    if 'sampling.resampling.resample_along_axis:interval' not in done:
        ctx.notes.append('resample_along_axis raises for every input under pandas 3 (read-only `.values` assignment): its '
                         '`interval` string argument cannot be exercised')
    swept = {k_.split('/', 1)[1] for k_ in ctx.hist.get('sweep', {})}
    for cname, ms in (meta.get('inplace_methods', {}) or {}).items():
        for m_ in ms:
            ent = METHOD_COVER.get((cname, m_), '?')
            if ent is None:
                continue
            if ent == '?' or ent not in swept:
                ctx.notes.append(f'method {cname}.{m_}(inplace=…) found in the source is not covered by the metadata sweep')
    errs = ctx.hist.get('sweep_errors', {})
    if errs:
        ctx.notes.append(f'sweep operations that raised (not evaluated): {sorted(errs)}')


def replay(ctx, rp):
    case = rp['case']
    ctx.case(case)
    run_case(ctx, case['kind'], case)
