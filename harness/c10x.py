"""C10 second pass: streams for the parts of reroot / cut / subset the first pass did not reach.

* `prune`   — the METHOD forms `TreeNeuron.prune_distal_to` / `prune_proximal_to` with one or SEVERAL nodes (list /
              array / tuple / tags / a tag naming several nodes), in place and not; compared with the successive
              single prunes (the property's "several cuts = successive single cuts") and with the Lean model of the
              loop as written (`c10x.prune`).
* `cutx`    — `cut_skeleton` front end: ids / tags / mixed lists / duplicates, `ret=` variants, NeuronList input,
              root / absent / multi-tree error behaviour; vs `c10x.cutskel` (neuron state: nodes + connectors + tags + soma).
* `rerootx` — every way to reroot (function, method, `n.root = …` setter, NeuronList; in place or not; warm graph
              caches), tags as targets; the graph kept across the reroot is compared edge by edge *with weights*
              (`c10x.rerootg`, `c10x.graphof`).
* `subsetx` — every subset form (list / tuple / set / array / Series / boolean mask (array and list) / DiGraph / Graph /
              DataFrame / callable), `keep_disc_cn`, `prevent_fragments`, in place, NeuronList; connectors, tags and the
              pinned soma of the result vs `c10x.subsetn`.
"""
import warnings
import numpy as np
import pandas as pd
import networkx as nx

warnings.filterwarnings('ignore')
import navis
from . import gen as G

navis.config.pbar_hide = True
navis.set_loggers('ERROR')


# ------------------------------------------------------------------------------------------------
# neuron state <-> wire
# ------------------------------------------------------------------------------------------------
def make_att(rng, rows, tags=True, conns=True, soma=True, multi_tag=False):
    """Materialised attachments (JSON-able): connectors, tags, pinned soma."""
    ids = [r['id'] for r in rows]
    att = {'conn': [], 'tags': None, 'soma': None}
    if conns and rng.random() < 0.8:
        k = rng.randint(1, max(1, 2 * len(ids)))
        att['conn'] = [[100 + j, rng.choice(ids), rng.choice(['pre', 'post'])] for j in range(k)]
    if tags and rng.random() < 0.85:
        t = {}
        for name in rng.sample(['ta', 'tb', 'tc', 'z', 'soma_tag'], rng.randint(1, 3)):
            t[name] = [rng.choice(ids)]
        if multi_tag or rng.random() < 0.3:
            t['many'] = sorted(set(rng.sample(ids, min(len(ids), rng.randint(2, 3)))))
        att['tags'] = t
    if soma and rng.random() < 0.5:
        att['soma'] = rng.choice(ids)
    return att


def build(case, be=None):
    if case.get('int32') and be is None and all(abs(r['id']) < 2 ** 31 - 1 for r in case['rows']):
        # the dtype of navis' own example neurons (only in C10's own run: the networkx path has a recorded C02 finding for it)
        df = G.rows_to_df(case['rows'])
        df['node_id'] = df.node_id.astype(np.int32); df['parent_id'] = df.parent_id.astype(np.int32)
        x = navis.TreeNeuron(df, units='1 nm')
    else:
        x = G.to_neuron(case['rows'])
    att = case.get('att') or {}
    if att.get('conn'):
        x.connectors = pd.DataFrame({'connector_id': [c[0] for c in att['conn']], 'node_id': [c[1] for c in att['conn']],
                                     'type': [c[2] for c in att['conn']], 'x': 0.0, 'y': 0.0, 'z': 0.0})
    if att.get('tags') is not None:
        x.tags = {k: list(v) for k, v in att['tags'].items()}
    if att.get('soma') is not None:
        x.soma = att['soma']
    else:
        x.soma = None
    return x


def pinned_soma(x):
    s = getattr(x, '_soma', None)
    if s is None or callable(s):
        return '-'
    if navis.utils.is_iterable(s):
        return ','.join(str(int(v)) for v in s)
    return str(int(s))


def wire_full(x):
    cn = ''
    if x.has_connectors:
        c = x.connectors
        cn = ' '.join(f"{int(a)}:{int(b)}:{0 if str(t) == 'pre' else 1}" for a, b, t in zip(c.connector_id.values, c.node_id.values, c['type'].values))
    tags = getattr(x, 'tags', None)
    tg = '-' if tags is None else ' '.join(f"{k}={','.join(str(int(i)) for i in v)}" for k, v in tags.items())
    return f"{G.wire_neuron(x)} | {cn} | {tg} | {pinned_soma(x)}"


def show_full(x):
    cn = ','.join(str(int(a)) for a in x.connectors.connector_id.values) if x.has_connectors else ''
    tags = getattr(x, 'tags', None)
    tg = '-' if tags is None else ' '.join(f"{k}={','.join(str(int(i)) for i in tags[k])}" for k in sorted(tags))
    return f"{G.topo_neuron(x)} # {cn} # {tg} # {pinned_soma(x)}"


def parent_map(x):
    return {int(i): int(p) for i, p in zip(x.nodes.node_id.values, x.nodes.parent_id.values)}


def ancestors(pm, i):
    out = [i]
    while pm.get(out[-1], -1) >= 0 and len(out) <= len(pm) + 1:
        out.append(pm[out[-1]])
    return out


def uedges_of(x):
    nd = x.nodes
    return sorted(tuple(sorted((int(i), int(p)))) for i, p in zip(nd.node_id.values, nd.parent_id.values) if p >= 0)


def where_wire(nodes):
    return ','.join(str(n) for n in nodes)


def resolve(nodes, tags):
    """Expand `t:name` entries to their node ids (None when a tag is unknown)."""
    out = []
    for n in nodes:
        if isinstance(n, str):
            if tags is None or n[2:] not in tags:
                return None
            out += list(tags[n[2:]])
        else:
            out.append(n)
    return out


def simulate_prune(pm0, tags, nodes, which):
    """Kept node set of the successive single prunes, straight from the parent map (None = some step must raise).
    Tags are looked up in the *current* neuron: a tag whose nodes are all gone no longer exists."""
    alive = set(pm0)
    for n in nodes:
        if isinstance(n, str):
            if tags is None or n[2:] not in tags:
                return None
            cs = [i for i in tags[n[2:]] if i in alive]
            if not cs:
                return None
        else:
            cs = [n]
        for c in dict.fromkeys(cs):
            # the current root: the only alive node whose parent is not alive
            if c in alive and (pm0[c] < 0 or pm0[c] not in alive) and isinstance(n, str):
                return 'tag-on-root'      # bypasses the "node is root" check: igraph raises, networkx splits (whole, [root])
            if c not in alive or pm0[c] < 0 or pm0[c] not in alive:
                return None
            below = {i for i in alive if c in ancestors(pm0, i)}
            alive = (alive - below) | {c} if which == 'distal' else below
    return alive


def to_arg(nodes, form):
    vals = [n[2:] if isinstance(n, str) else n for n in nodes]
    if form == 'scalar':
        return vals[0]
    if form == 'array':
        return np.array(vals) if all(isinstance(v, str) for v in vals) or all(not isinstance(v, str) for v in vals) else np.array(vals, dtype=object)
    if form == 'tuple':
        return tuple(vals)
    return list(vals)


def attached_ok(ctx, x0, y, what, case, be, keep_disc=False, sig=None):
    """Connectors and tags of `y` are exactly those of `x0` that sit on surviving nodes."""
    alive = set(int(i) for i in y.nodes.node_id.values)
    if x0.has_connectors:
        want = [int(c) for c, n in zip(x0.connectors.connector_id.values, x0.connectors.node_id.values) if keep_disc or int(n) in alive]
        got = [int(c) for c in y.connectors.connector_id.values] if y.has_connectors else []
        ctx.oracle(got == want, f'{what}: connectors kept {got}, expected exactly those on surviving nodes {want} [{be}]', case, signature=sig)
    t0 = getattr(x0, 'tags', None)
    if t0 is not None:
        want = {k: [i for i in v if i in alive] for k, v in t0.items()}
        want = {k: v for k, v in want.items() if v}
        got = {k: [int(i) for i in v] for k, v in (getattr(y, 'tags', None) or {}).items()}
        ctx.oracle(got == want, f'{what}: tags {got}, expected exactly the tagged surviving nodes {want} [{be}]', case, signature=sig)


def wf_ok(ctx, y, what, case, be, sig=None):
    w = ctx.ask('f.wf ' + G.wire_neuron(y))
    ctx.oracle(w == '1 1', f'{what}: result not a well-formed, correctly labelled forest (wf labels = {w}) [{be}]', case, signature=sig)


# ------------------------------------------------------------------------------------------------
# prune_distal_to / prune_proximal_to (method forms)
# ------------------------------------------------------------------------------------------------
def _sig_prune(case):
    # (a list mixing ids and tags used to turn the ids into strings: repaired in navis, no signature any more)
    return None


def case_prune(ctx, case, be=None):
    x = build(case, be)
    which, nodes, form, inplace = case['which'], case['nodes'], case.get('form', 'list'), case.get('inplace', False)
    meth = 'prune_distal_to' if which == 'distal' else 'prune_proximal_to'
    pm0 = parent_map(x)
    full0 = show_full(x)
    wire = wire_full(x)
    tags = case['att'].get('tags')
    sig = _sig_prune(case)
    work = x.copy() if inplace else x
    if case.get('via') == 'neuronlist':
        target = navis.NeuronList([work])
    else:
        target = work
    arg = to_arg(nodes, form)
    try:
        ret = getattr(target, meth)(arg, inplace=inplace)
        err = None
    except Exception as e:
        ret, err = None, e
    if case.get('via') == 'neuronlist' and ret is not None:
        ret = ret[0]
    y = work if inplace else ret
    model = ctx.ask(f"c10x.prune {which} {where_wire(nodes)} | {wire}")
    ctx.count('prune_form', f"{which}/{form}/{'inplace' if inplace else 'copy'}/{len(nodes)}")
    # ---- reference: successive SINGLE prunes (one id / one tag per call) through the same method (fresh objects)
    ids = resolve(nodes, tags)
    ref, ref_err = x, None
    try:
        for n in nodes:
            ref = getattr(ref, meth)(n[2:] if isinstance(n, str) else int(n), inplace=False)
    except Exception as e:
        ref, ref_err = None, e
    want = simulate_prune(pm0, tags, nodes, which)
    if want == 'tag-on-root':
        ctx.count('prune_outcome', 'tag-on-root:' + ('raise' if err else 'ok'))
        return
    if err is not None:
        ctx.count('prune_outcome', 'raise:' + type(err).__name__)
        # raising is correct exactly when the successive single prunes raise, too (node pruned away earlier, root, unknown tag)
        legit = model.startswith('ERR') and ref_err is not None and want is None
        ctx.oracle(legit, f'{meth}({arg!r}, inplace={inplace}) raised {type(err).__name__}: {str(err)[:90]} although the successive '
                          f'single prunes succeed [{be}]', case, signature=sig)
        if not inplace:
            ctx.oracle(show_full(x) == full0, f'{meth} (raising) modified its input [{be}]', case)
        return
    ctx.count('prune_outcome', 'ok')
    if inplace:
        ctx.oracle(ret is None or case.get('via') == 'neuronlist', f'{meth}(inplace=True) returned {type(ret).__name__}', case)
    impl = show_full(y)
    ctx.corr(impl, model, f'{meth}({where_wire(nodes)}, {form}, inplace={inplace}): neuron vs model of the loop [{be}]', case, signature=sig)
    # ---- oracle: several prunes == successive single prunes
    if ref is not None:
        ctx.oracle(G.topo_neuron(y) == G.topo_neuron(ref),
                   f'{meth}({arg!r}, inplace={inplace}): several nodes at once differ from the successive single prunes '
                   f'(kept {sorted(parent_map(y))} vs {sorted(parent_map(ref))}) [{be}]', case, signature=sig)
    else:
        ctx.oracle(False, f'{meth}({arg!r}) succeeded although a successive single prune raises {type(ref_err).__name__ if ref_err else "?"} [{be}]', case, signature=sig)
    # ---- oracle: the kept node set, from the parent map of the input
    if want is None:
        ctx.oracle(False, f'{meth}({arg!r}) succeeded although a requested node is pruned away / a root / unknown at its turn [{be}]', case, signature=sig)
    else:
        ctx.oracle(set(parent_map(y)) == want, f'{meth}({arg!r}): kept {sorted(parent_map(y))}, expected {sorted(want)} [{be}]', case, signature=sig)
        pm = parent_map(y)
        if which == 'distal' and ids is not None:
            kids = {p for p in pm.values() if p >= 0}
            ctx.oracle(all(c not in kids for c in ids if c in pm), f'{meth}: a cut node still has children [{be}]', case, signature=sig)
        ctx.oracle(sum(1 for p in pm.values() if p < 0) == 1, f'{meth}: the result is not a single tree [{be}]', case, signature=sig)
        ctx.oracle(all(p == pm0[i] or p < 0 for i, p in pm.items()), f'{meth}: a surviving node changed its parent [{be}]', case, signature=sig)
    attached_ok(ctx, x, y, meth, case, be, sig=sig)
    wf_ok(ctx, y, meth, case, be, sig)
    if not inplace:
        ctx.oracle(show_full(x) == full0, f'{meth}(inplace=False) modified its input [{be}]', case)


# ------------------------------------------------------------------------------------------------
# cut_skeleton front end
# ------------------------------------------------------------------------------------------------
_ERRCLASS = {'ERR:no-tags': ValueError, 'ERR:no-tag': ValueError, 'ERR:not-found': ValueError, 'ERR:is-root': ValueError,
             'ERR:multi-tree': ValueError, 'ERR:gone': IndexError, 'ERR:no-edge': ValueError}


def case_cutx(ctx, case, be=None):
    x = build(case, be)
    where, ret, form = case['where'], case.get('ret', 'both'), case.get('form', 'list')
    pm0 = parent_map(x)
    full0 = show_full(x)
    wire = wire_full(x)
    tags = case['att'].get('tags')
    arg = to_arg(where, form)
    target = navis.NeuronList([x]) if case.get('via') == 'neuronlist' else x
    try:
        res = navis.cut_skeleton(target, arg, ret=ret)
        err = None
    except Exception as e:
        res, err = None, e
    model = ctx.ask(f"c10x.cutskel {ret} {where_wire(where)} | {wire}")
    ctx.count('cutx_form', f"{ret}/{form}/{len(where)}")
    ids = resolve(where, tags)
    tag_on_root = ids is not None and any(isinstance(w, str) for w in where) and any(pm0.get(i, 0) < 0 for i in ids)
    if tag_on_root:
        # a tag sitting on the root bypasses the "node is root" check: igraph raises, networkx returns (whole, [root]);
        # either way no fragment is wrong — only watch that nothing else happens
        ctx.count('cutx_outcome', 'tag-on-root:' + ('raise' if err else 'ok'))
        return
    if err is not None:
        ctx.count('cutx_outcome', 'raise:' + type(err).__name__)
        ctx.oracle(model.startswith('ERR'), f'cut_skeleton({arg!r}, ret={ret}) raised {type(err).__name__}: {str(err)[:90]} where the '
                                            f'specification yields fragments [{be}]', case)
        if model.startswith('ERR'):
            ctx.count('cutx_error', model)
            ctx.corr(type(err).__name__, _ERRCLASS.get(model, ValueError).__name__, f'cut_skeleton error class for {model} [{be}]', case)
        ctx.oracle(show_full(x) == full0, f'cut_skeleton (raising) modified its input [{be}]', case)
        return
    ctx.count('cutx_outcome', 'ok')
    impl = ' || '.join(show_full(f) for f in res)
    ctx.corr(impl, model, f'cut_skeleton({where_wire(where)}, ret={ret}): fragments (nodes, connectors, tags, soma) vs model [{be}]', case)
    if ids is None:
        return
    cuts = list(dict.fromkeys(ids))
    if ret == 'both':
        frs = [parent_map(f) for f in res]
        ctx.oracle(len(res) == len(cuts) + 1, f'cut_skeleton: {len(res)} fragments for {len(cuts)} cuts [{be}]', case)
        # every original edge exactly once; nodes shared between fragments are cut nodes
        ue = sorted(e for f in res for e in uedges_of(f))
        ctx.oracle(ue == uedges_of(x), f'cuts {cuts}: the fragments do not contain every original edge exactly once [{be}]', case)
        cnt = {}
        for f in frs:
            for i in f:
                cnt[i] = cnt.get(i, 0) + 1
        ctx.oracle(set(cnt) == set(pm0), f'cuts {cuts}: fragments lose or invent nodes [{be}]', case)
        ctx.oracle(all((c == 2) == (i in cuts) and c <= 2 for i, c in cnt.items()), f'cuts {cuts}: fragments share something other than exactly the cut nodes [{be}]', case)
        # each cut node roots one fragment, which holds exactly the nodes below it up to the next cuts
        for c in cuts:
            own = [f for f in frs if f.get(c, 0) < 0 and c in f]
            want = {i for i in pm0 if c in ancestors(pm0, i) and not any(d != c and d != i and d in ancestors(pm0, i)[:ancestors(pm0, i).index(c)] for d in cuts)}
            ctx.oracle(len(own) == 1 and set(own[0]) == want, f'cuts {cuts}: no fragment is exactly the subtree of {c} up to the next cuts {sorted(want)} [{be}]', case)
        if len(cuts) == 1:
            ctx.oracle(frs[0].get(cuts[0], 0) < 0 and cuts[0] in frs[0], f'cut {cuts[0]}: the distal part is not returned first [{be}]', case)
        # Lean-side checker (proved: accepts exactly the permutations of the model's fragments, which are the fragments
        # the specification `fragKeep` describes): the implementation's own fragments
        if cuts and all(pm0.get(c, -1) >= 0 for c in cuts):
            root = next(i for i, p in pm0.items() if p < 0)
            ans = ctx.ask(f"c10x.fragsok {root} {where_wire(cuts)} | {G.wire_neuron(x)} | " + ' || '.join(G.wire_neuron(f) for f in res))
            if ans != 'BAD-OP':
                ctx.count('lean_checker', 'fragsOKB')
                ctx.oracle(ans == '1', f'cuts {cuts}: the fragments are not the specified ones (Lean checker fragsOKB) [{be}]', case)
        # several cuts == successive single cuts
        frags = [x]
        try:
            for c in cuts:
                k = next(i for i, f in enumerate(frags) if c in f.nodes.node_id.values)
                d, p = navis.cut_skeleton(frags[k], c)
                frags[k:k + 1] = [d, p]
            ctx.oracle([show_full(f) for f in frags] == [show_full(f) for f in res],
                       f'cuts {cuts}: several cuts differ from successive single cuts [{be}]', case)
        except Exception as e:
            ctx.oracle(False, f'cuts {cuts}: successive single cuts raise {type(e).__name__} but the joint call does not [{be}]', case)
    elif len(cuts) == 1:
        c = cuts[0]
        dset = {i for i in pm0 if c in ancestors(pm0, i)}
        want = dset if ret == 'distal' else (set(pm0) - dset) | {c}
        ctx.oracle(len(res) == 1 and set(parent_map(res[0])) == want, f'cut {c} ret={ret}: got {sorted(parent_map(res[0]))}, expected {sorted(want)} [{be}]', case)
    for f in res:
        attached_ok(ctx, x, f, 'cut_skeleton piece', case, be)
        wf_ok(ctx, f, 'cut_skeleton piece', case, be)
    ctx.oracle(show_full(x) == full0, f'cut_skeleton modified its input [{be}]', case)


# ------------------------------------------------------------------------------------------------
# reroot: all entry points, graph with weights
# ------------------------------------------------------------------------------------------------
def wgraph_nx(g):
    return ' '.join(f"{int(a)}>{int(b)}:{int(round(float(d['weight'])))}" for a, b, d in sorted(g.edges(data=True), key=lambda e: (e[0], e[1])))


def wgraph_ig(g):
    ids = g.vs['node_id']
    es = sorted((int(ids[e.source]), int(ids[e.target]), e['weight']) for e in g.es)
    return ' '.join(f"{a}>{b}:{int(round(float(w)))}" for a, b, w in es)


def wu(s):
    out = []
    for tok in s.split():
        ab, w = tok.split(':')
        a, b = ab.split('>')
        out.append((min(int(a), int(b)), max(int(a), int(b)), int(w)))
    return sorted(out)


def _sig_reroot(case, be):
    # (rerooting by tag used to fail always: repaired in navis, no signature any more)
    if be == 'networkx' and any(r['id'] == 0 for r in case['rows']):
        return 'reroot/networkx/node-id-0'
    return None


def case_rerootx(ctx, case, be=None):
    x = build(case, be)
    targets, via, warm = case['targets'], case.get('via', 'func'), case.get('warm', 'both')
    tags = case['att'].get('tags')
    sig = _sig_reroot(case, be)
    pm0 = parent_map(x)
    if warm in ('both', 'nx'):
        _ = x.graph
    if warm in ('both', 'ig'):
        _ = x.igraph
    g0 = wgraph_nx(x.graph)
    full0 = show_full(x)
    wire = wire_full(x)
    cable0 = float(x.cable_length)
    arg = to_arg(targets, 'scalar' if len(targets) == 1 and case.get('form') != 'list' else case.get('form', 'list'))
    inplace = via in ('func_inplace', 'method_inplace', 'setter')
    work = x.copy() if inplace else x
    try:
        if via == 'func':
            y = navis.reroot_skeleton(work, arg, inplace=False)
        elif via == 'func_inplace':
            r = navis.reroot_skeleton(work, arg, inplace=True); y = work
            ctx.oracle(r is work, 'reroot_skeleton(inplace=True) did not return its input', case)
        elif via == 'method':
            y = work.reroot(arg, inplace=False)
        elif via == 'method_inplace':
            r = work.reroot(arg, inplace=True); y = work
            ctx.oracle(r is None, 'reroot(inplace=True) returned something', case)
        elif via == 'setter':
            work.root = arg; y = work
        elif via == 'neuronlist':
            y = navis.reroot_skeleton(navis.NeuronList([work]), arg, inplace=False)
        err = None
    except Exception as e:
        y, err = None, e
    model = ctx.ask(f"c10x.rerootn {where_wire(targets)} | {wire}")
    ctx.count('rerootx_via', f"{via}/{'tag' if any(isinstance(t, str) for t in targets) else 'id'}/{len(targets)}")
    if err is not None:
        ctx.count('rerootx_outcome', 'raise:' + type(err).__name__)
        ctx.oracle(model.startswith('ERR'), f'reroot via {via} to {arg!r} raised {type(err).__name__}: {str(err)[:90]} [{be}]', case, signature=sig)
        return
    ctx.count('rerootx_outcome', 'ok')
    ctx.corr(show_full(y), model, f'reroot via {via} to {where_wire(targets)}: neuron (nodes, connectors, tags, soma) vs model [{be}]', case, signature=sig)
    ids = resolve(targets, tags)
    pm = parent_map(y)
    if ids is not None and not model.startswith('ERR'):
        ctx.oracle(pm.get(ids[-1], 0) < 0, f'reroot via {via}: requested node {ids[-1]} is not a root afterwards [{be}]', case, signature=sig)
    ctx.oracle(sorted(pm) == sorted(pm0), f'reroot via {via} changed the node set [{be}]', case, signature=sig)
    ctx.oracle(uedges_of(y) == uedges_of(x), f'reroot via {via} changed the undirected edge set [{be}]', case, signature=sig)
    ctx.oracle(float(y.cable_length) == cable0, f'reroot via {via} changed the cable length [{be}]', case, signature=sig)
    # the graphs navis keeps across the reroot (edited in place, not recomputed): same undirected edges WITH weights,
    # and exactly the graph of the new node table
    want_g = ctx.ask('c10x.graphof ' + G.wire_neuron(y, labels=False))
    for name, got in (('graph', wgraph_nx(y.graph)), ('igraph', wgraph_ig(y.igraph) if y.igraph is not None else None)):
        if got is None:
            continue
        ctx.oracle(wu(got) == wu(g0), f'reroot via {via}: undirected weighted edges of .{name} changed [{be}]', case, signature=sig)
        ctx.oracle(got == want_g, f'reroot via {via}: .{name} kept across the reroot is not the graph of the new node table [{be}]', case, signature=sig)
    if len(targets) == 1 and ids is not None and ids[0] in pm0:
        ans = ctx.ask(f"c10x.rerootok {ids[0]} | {G.wire_neuron(x)} | {G.wire_neuron(y)}")
        if ans != 'BAD-OP':
            ctx.count('lean_checker', 'rerootOKB')
            ctx.oracle(ans == '1', f'reroot via {via} to {ids[0]}: rejected by the Lean checker rerootOKB (ids/coordinates, well-formedness, labels, '
                                   f'undirected edges, new root, rows off the path untouched) [{be}]', case, signature=sig)
    if len(targets) == 1 and ids is not None and ids[0] in pm0 and pm0[ids[0]] >= 0:
        for b in ('ig', 'nx'):
            m = ctx.ask(f"c10x.rerootg {b} {ids[0]} | {G.wire_neuron(x, labels=False)}")
            ctx.corr(want_g, m, f'reroot to {ids[0]}: graph of the new table vs the in-place graph edit as written ({b}) [{be}]', case, signature=sig)
    wf_ok(ctx, y, f'reroot via {via}', case, be, sig)
    if not inplace:
        ctx.oracle(show_full(x) == full0 and wgraph_nx(x.graph) == g0, f'reroot via {via} (not in place) modified its input [{be}]', case, signature=sig)


# ------------------------------------------------------------------------------------------------
# subset: all forms and options
# ------------------------------------------------------------------------------------------------
FORMS = ['list', 'tuple', 'set', 'array', 'series', 'mask', 'mask_list', 'graph', 'ugraph', 'df', 'callable', 'index']


def _sig_subset(case):
    # (a boolean mask together with prevent_fragments used to raise: repaired in navis, no signature any more)
    return None


def subset_arg(x, keep, form):
    ks = set(keep)
    if form == 'list':
        return list(keep)
    if form == 'tuple':
        return tuple(keep)
    if form == 'set':
        return set(keep)
    if form == 'array':
        return np.array(keep, dtype=np.int64)
    if form == 'series':
        return pd.Series(list(keep), dtype=np.int64)
    if form == 'index':
        return pd.Index(list(keep), dtype=np.int64)
    if form == 'mask':
        return np.array([int(i) in ks for i in x.nodes.node_id.values], dtype=bool)
    if form == 'mask_list':
        return [int(i) in ks for i in x.nodes.node_id.values]
    if form == 'graph':
        return x.graph.subgraph([k for k in keep if k in x.graph])
    if form == 'ugraph':
        return x.graph.to_undirected().subgraph([k for k in keep if k in x.graph])
    if form == 'df':
        return x.nodes[x.nodes.node_id.isin(list(keep))]
    if form == 'callable':
        return lambda n: np.array(list(keep), dtype=np.int64)
    raise ValueError(form)


def case_subsetx(ctx, case, be=None):
    x = build(case, be)
    keep, form = case['keep'], case['form']
    pf, kd, inplace = case.get('pf', False), case.get('keep_disc_cn', False), case.get('inplace', False)
    sig = _sig_subset(case)
    pm0 = parent_map(x)
    present = [k for k in keep if k in pm0]
    if form in ('mask', 'mask_list', 'graph', 'ugraph', 'df'):
        keep_eff = present            # these forms cannot name absent nodes
    else:
        keep_eff = list(keep)
    full0 = show_full(x)
    wire = wire_full(x)
    work = x.copy() if inplace else x
    target = navis.NeuronList([work]) if case.get('via') == 'neuronlist' else work
    try:
        y = navis.subset_neuron(target, subset_arg(work, keep, form), inplace=inplace, keep_disc_cn=kd, prevent_fragments=pf)
        err = None
    except Exception as e:
        y, err = None, e
    if isinstance(y, navis.NeuronList):
        y = y[0]
    ctx.count('subsetx_form', f"{form}/{'pf' if pf else 'plain'}/{'kd' if kd else '-'}/{'inplace' if inplace else 'copy'}")
    absent = [k for k in keep_eff if k not in pm0]
    if err is not None:
        ctx.count('subsetx_outcome', 'raise:' + type(err).__name__)
        # `prevent_fragments` cannot connect nodes that do not exist: raising is the documented reaction
        ok = pf and bool(absent) and isinstance(err, ValueError)
        ctx.oracle(ok, f'subset_neuron(form={form}, prevent_fragments={pf}) raised {type(err).__name__}: {str(err)[:90]} [{be}]', case, signature=sig)
        return
    ctx.count('subsetx_outcome', 'ok')
    if inplace:
        ctx.oracle(y is work or case.get('via') == 'neuronlist', 'subset_neuron(inplace=True) did not return its input', case)
    ks = where_wire(keep_eff)
    if pf and form in ('mask', 'mask_list'):
        # the mask is translated into the ids it marks before the connecting nodes are looked for
        m = ''.join('1' if int(i) in set(keep) else '0' for i in x.nodes.node_id.values)
        model = ctx.ask(f"c10x.subsetn pfmask {int(kd)} {m} | {wire}")
    elif pf:
        model = ctx.ask(f"c10x.subsetn pf {int(kd)} {ks} | {wire}")
        # the roots of the result are determined by the kept set only when it has one top node per tree (always, by
        # `prevent_fragments_connected`); compare the whole neuron
    elif form in ('mask', 'mask_list'):
        m = ''.join('1' if int(i) in set(keep) else '0' for i in x.nodes.node_id.values)
        model = ctx.ask(f"c10x.subsetn mask {int(kd)} {m} | {wire}")
    else:
        model = ctx.ask(f"c10x.subsetn ids {int(kd)} {ks} | {wire}")
    ctx.corr(show_full(y), model, f'subset_neuron(form={form}, pf={pf}, keep_disc_cn={kd}, inplace={inplace}): neuron vs model [{be}]', case, signature=sig)
    pm = parent_map(y)
    if not pf:
        ans = ctx.ask(f"c10x.subsetok {where_wire(sorted(set(present)))} | {G.wire_neuron(x)} | {G.wire_neuron(y)}")
        if ans != 'BAD-OP':
            ctx.count('lean_checker', 'subsetOKB')
            ctx.oracle(ans == '1', f'subset({form}): rejected by the Lean checker subsetOKB (requested ids in table order, coordinates, parent kept iff '
                                   f'it survives, labels) [{be}]', case, signature=sig)
        ctx.oracle(sorted(pm) == sorted(set(present)), f'subset({form}) did not return exactly the requested nodes [{be}]', case, signature=sig)
        for i, p in pm.items():
            want = pm0[i] if (pm0[i] in pm) else -1
            if p != want and not (p < 0 and want < 0):
                ctx.oracle(False, f'subset({form}): node {i} has parent {p}, expected {want} [{be}]', case, signature=sig)
                break
    else:
        want = set()
        by_root = {}
        for i in present:
            by_root.setdefault(ancestors(pm0, i)[-1], []).append(i)
        for rt, grp in by_root.items():
            paths = [ancestors(pm0, i) for i in grp]
            common = set(paths[0]).intersection(*map(set, paths[1:]))
            lca = max(common, key=lambda n: len(ancestors(pm0, n)))
            for p in paths:
                for n in p:
                    want.add(n)
                    if n == lca:
                        break
        ctx.oracle(set(pm) == want, f'subset({form}, prevent_fragments): got {sorted(pm)}, smallest connected superset is {sorted(want)} [{be}]', case, signature=sig)
        ctx.oracle(sum(1 for p in pm.values() if p < 0) == len(by_root), f'subset(prevent_fragments) fragmented a tree [{be}]', case, signature=sig)
        und = {tuple(sorted((i, p))) for i, p in pm.items() if p >= 0}
        und0 = {tuple(sorted((i, p))) for i, p in pm0.items() if p >= 0 and i in pm and p in pm}
        ctx.oracle(und == und0, f'subset(prevent_fragments): edges among kept nodes changed [{be}]', case, signature=sig)
    attached_ok(ctx, x, y, f'subset({form})', case, be, keep_disc=kd, sig=sig)
    s0 = case['att'].get('soma')
    if s0 is not None:
        ctx.oracle(pinned_soma(y) == (str(s0) if s0 in pm else '-'), f'subset({form}): pinned soma {s0} became {pinned_soma(y)} [{be}]', case, signature=sig)
    wf_ok(ctx, y, f'subset({form})', case, be, sig)
    if not inplace:
        ctx.oracle(show_full(x) == full0, f'subset_neuron(inplace=False) modified its input [{be}]', case)


def case_autosoma(ctx, case, be=None):
    """The default soma *detector* (not a pinned id) across a subset that keeps the soma node."""
    rows = case['rows']
    df = G.rows_to_df(rows)
    df['radius'] = [5000.0 if r['id'] == case['big'] else 0.01 for r in rows]
    x = navis.TreeNeuron(df, units='1 nm')
    s0 = x.soma
    y = navis.subset_neuron(x, case['keep'])
    ctx.count('autosoma', 1)
    if s0 is not None and case['big'] in case['keep']:
        ok = y.soma is not None and case['big'] in np.atleast_1d(y.soma)
        ctx.oracle(ok, f'subset_neuron dropped the (auto-detected) soma {case["big"]} although its node survives: soma = {y.soma}', case,
                   signature='subset_neuron/auto-soma-detector-dropped')


def case_misc(ctx, case, be=None):
    """Edge behaviour: cutting an isolated node / a leaf, a TreeNeuron as subset (not a documented form: must be refused, not
    misread), subset_neuron over a NeuronList of several neurons with a callable."""
    what = case['what']
    x = build(case)
    pm0 = parent_map(x)
    ctx.count('misc', what)
    if what == 'cut-isolated':
        try:
            navis.cut_skeleton(x, case['node'])
            ctx.oracle(False, f'cut_skeleton at the only node {case["node"]} of a single-node skeleton did not raise [{be}]', case)
        except ValueError:
            pass
        except Exception as e:
            ctx.oracle(False, f'cut_skeleton at an isolated node raised {type(e).__name__} instead of ValueError [{be}]', case)
    elif what == 'cut-leaf':
        c = case['node']
        d, p = navis.cut_skeleton(x, c)
        ctx.oracle(parent_map(d) == {c: -1}, f'cut at the leaf {c}: distal part is {parent_map(d)} [{be}]', case)
        ctx.oracle(parent_map(p) == pm0, f'cut at the leaf {c}: proximal part is not the whole skeleton [{be}]', case)
        attached_ok(ctx, x, d, 'cut at a leaf (distal)', case, be)
        attached_ok(ctx, x, p, 'cut at a leaf (proximal)', case, be)
    elif what == 'subset-by-treeneuron':
        y = navis.subset_neuron(x, case['keep'])
        try:
            z = navis.subset_neuron(x, y)
            ctx.oracle(sorted(parent_map(z)) == sorted(parent_map(y)), f'subset_neuron(x, <TreeNeuron>) returned {sorted(parent_map(z))} [{be}]', case)
        except TypeError:
            ctx.count('misc', 'subset-by-treeneuron:TypeError')
        ctx.oracle(parent_map(x) == pm0, 'subset_neuron(x, <TreeNeuron>) modified its input', case)
    elif what == 'subset-neuronlist':
        x2 = build(dict(case, rows=case['rows2'], att=case['att2']))
        nl = navis.NeuronList([x, x2])
        leafs = lambda n: n.nodes.node_id.values[~np.isin(n.nodes.node_id.values, n.nodes.parent_id.values)]
        res = navis.subset_neuron(nl, leafs, inplace=False)
        ctx.oracle(len(res) == 2, f'subset_neuron over a NeuronList returned {len(res)} neurons', case)
        for a, b in zip((x, x2), res):
            want = sorted(int(i) for i in leafs(a))
            ctx.oracle(sorted(parent_map(b)) == want and all(p < 0 for p in parent_map(b).values()),
                       f'subset_neuron(NeuronList, callable): got {parent_map(b)}, expected the leafs {want} as isolated nodes [{be}]', case)
            attached_ok(ctx, a, b, 'subset_neuron(NeuronList, callable)', case, be)
            model = ctx.ask(f"c10x.subsetn ids 0 {where_wire(want)} | {wire_full(a)}")
            ctx.corr(show_full(b), model, f'subset_neuron(NeuronList, callable): neuron vs model [{be}]', case)
        ctx.oracle(parent_map(x) == pm0, 'subset_neuron(NeuronList) modified its input', case)


RUNNERS = {'misc': case_misc, 'prune': case_prune, 'cutx': case_cutx, 'rerootx': case_rerootx, 'subsetx': case_subsetx, 'autosoma': case_autosoma}


# ------------------------------------------------------------------------------------------------
# generators
# ------------------------------------------------------------------------------------------------
def _pm(rows):
    return {r['id']: r['parent'] for r in rows}


def gen_for_forest(r, rows, meta, k=0):
    """Extra cases for one generated forest (called from c10.gen_cases)."""
    ids = [rw['id'] for rw in rows]
    pm = _pm(rows)
    nonroot = [i for i in ids if pm[i] >= 0]
    single = sum(1 for p in pm.values() if p < 0) == 1
    att = make_att(r, rows, multi_tag=(k % 4 == 0))
    i32 = (k % 9 == 2)
    tagnames = ['t:' + t for t in (att['tags'] or {})]
    # ---- reroot through every entry point
    via = ['func', 'func_inplace', 'method', 'method_inplace', 'setter', 'neuronlist'][k % 6]
    tg = [r.choice(ids) for _ in range(r.choice([1, 1, 2, 3]))]
    yield ('rerootx', dict(rows=rows, att=att, targets=tg, via=via, warm=r.choice(['both', 'nx', 'ig', 'none']),
                           form=r.choice(['list', 'array', 'tuple']), int32=i32, meta=meta))
    single_tags = [t for t in tagnames if len(att['tags'][t[2:]]) == 1]
    if single_tags and k % 5 == 0:
        yield ('rerootx', dict(rows=rows, att=att, targets=[r.choice(single_tags)], via=r.choice(['func', 'method', 'setter']), warm='both', meta=meta))
    # ---- subset forms
    keep = [i for i in ids if r.random() < r.choice([0.3, 0.6, 0.9])]
    if r.random() < 0.25:
        keep = keep + [max(ids) + 7]                     # an id that does not exist
    if keep:
        form = FORMS[k % len(FORMS)]
        yield ('subsetx', dict(rows=rows, att=att, keep=keep, form=form, keep_disc_cn=(k % 5 == 1), inplace=(k % 3 == 1),
                               via='neuronlist' if k % 7 == 3 else None, int32=i32, meta=meta))
        pres = [i for i in keep if i in pm]
        if pres:
            yield ('subsetx', dict(rows=rows, att=att, keep=pres, form=FORMS[(k // 2) % len(FORMS)], pf=True, keep_disc_cn=(k % 6 == 2),
                                   inplace=(k % 4 == 2), meta=meta))
    if single and len(nonroot) >= 1:
        # ---- prune methods
        which = ['distal', 'proximal'][k % 2]
        form = ['list', 'array', 'tuple'][(k // 2) % 3]
        n = min(len(nonroot), r.choice([1, 2, 2, 3]))
        nodes = r.sample(nonroot, n)
        if which == 'proximal' and n > 1 and r.random() < 0.7:
            # a descending chain, so that every later node is still there
            c = r.choice(nonroot); a = [c]
            desc = [i for i in nonroot if c in ancestors(pm, i) and i != c]
            while desc and len(a) < n:
                c = r.choice(desc); a.append(c)
                desc = [i for i in nonroot if c in ancestors(pm, i) and i != c]
            nodes = a
        yield ('prune', dict(rows=rows, att=att, which=which, nodes=nodes, form=form if n > 1 else r.choice(['scalar', 'list']),
                             inplace=(k % 3 == 0), via='neuronlist' if k % 11 == 5 else None, int32=i32, meta=meta))
        cut_tags = [t for t in tagnames if all(pm[i] >= 0 for i in att['tags'][t[2:]])]
        if cut_tags:
            nt = r.sample(cut_tags, min(len(cut_tags), r.choice([1, 2])))
            yield ('prune', dict(rows=rows, att=att, which=r.choice(['distal', 'distal', 'proximal']), nodes=nt, form=r.choice(['list', 'array']) if len(nt) > 1 else 'scalar',
                                 inplace=(k % 2 == 1), meta=meta))
            if k % 6 == 0:
                yield ('prune', dict(rows=rows, att=att, which='distal', nodes=[r.choice(nonroot), cut_tags[0]], form='list', inplace=False, meta=meta))
        # ---- cut_skeleton front end
        where = r.sample(nonroot, min(len(nonroot), r.choice([1, 2, 3, 4])))
        if cut_tags and r.random() < 0.5:
            where.insert(r.randrange(len(where) + 1), r.choice(cut_tags))
        if r.random() < 0.2:
            where.append(where[0])                       # duplicate
        ret = r.choice(['both', 'both', 'both', 'proximal', 'distal'])
        yield ('cutx', dict(rows=rows, att=att, where=where, ret=ret, form=r.choice(['list', 'array', 'tuple']) if len(where) > 1 else r.choice(['scalar', 'list']),
                            via='neuronlist' if k % 9 == 4 else None, meta=meta))
        if k % 8 == 0:
            bad = r.choice([[r.choice([i for i in ids if pm[i] < 0])], [max(ids) + 3], ['t:nosuchtag'], [nonroot[0], max(ids) + 3]])
            yield ('cutx', dict(rows=rows, att=att, where=bad, ret='both', form='list', meta=meta))
    elif not single and k % 4 == 0 and nonroot:
        yield ('cutx', dict(rows=rows, att=att, where=[nonroot[0]], ret='both', form='scalar', meta=meta))
    if len(ids) == 1:
        yield ('misc', dict(what='cut-isolated', rows=rows, att=att, node=ids[0], meta=meta))
    if single and nonroot and k % 3 == 0:
        parents = set(pm.values())
        leaf = next(i for i in ids if i not in parents)
        yield ('misc', dict(what='cut-leaf', rows=rows, att=att, node=leaf, meta=meta))
    if k % 10 == 0 and keep:
        yield ('misc', dict(what='subset-by-treeneuron', rows=rows, att=att, keep=[i for i in keep if i in pm] or ids[:1], meta=meta))


def zero_suite():
    """Zero-based node tables (the id 0 is falsy in Python): node 0 as the root, and node 0 in the middle of root paths.  Run by
    harness/c10.py under every non-default back-end (fastcore off; igraph off), where `if parent:`-style tests would go wrong."""
    trees = {
        'zero-root': ({0: -1, 1: 0, 2: 1, 3: 2, 4: 2, 5: 4, 6: 1, 7: 6}, [3, 0, 5, 1, 7, 2, 6, 4]),
        'zero-mid': ({5: -1, 3: 5, 0: 3, 2: 0, 4: 2, 1: 0, 6: 3, 7: 6}, [4, 6, 0, 5, 2, 7, 3, 1]),
    }
    steps = [(3, 0, 0), (0, 4, 0), (1, 2, 2), (2, 3, 6), (0, 0, 5), (4, 4, 7), (0, 3, 4), (6, 6, 7)]
    for name, (par, order) in trees.items():
        pos = {}
        todo = [i for i in par if par[i] < 0]
        for r in todo:
            pos[r] = (8, 8, 8)
        while todo:
            a = todo.pop()
            for i in par:
                if par[i] == a:
                    st = steps[i % len(steps)]
                    pos[i] = tuple(pos[a][k] + st[k] for k in range(3))
                    todo.append(i)
        rows = [dict(id=i, parent=par[i], x=pos[i][0], y=pos[i][1], z=pos[i][2]) for i in order]
        ids = sorted(par)
        root = next(i for i in par if par[i] < 0)
        nonroot = [i for i in ids if par[i] >= 0]
        att = {'conn': [[100 + k, i, 'pre' if k % 2 else 'post'] for k, i in enumerate(ids)], 'tags': {'z': [0], 'ta': [nonroot[-1]]}, 'soma': 0}
        meta = dict(shape=name, labeling='zero', order='shuffled', n=len(rows))
        vias = ['func', 'method_inplace', 'setter', 'method', 'func_inplace', 'neuronlist']
        for k, t in enumerate(ids):
            yield ('rerootx', dict(rows=rows, att=att, targets=[t], via=vias[k % len(vias)], warm=['both', 'nx', 'none'][k % 3], meta=meta))
            yield ('reroot', dict(rows=rows, targets=[t], meta=meta))
        for seq in ([nonroot[0], root], [nonroot[-1], 0, nonroot[1]], ['t:ta', 0]):
            yield ('rerootx', dict(rows=rows, att=att, targets=seq, via='func', warm='both', meta=meta))
        for c in nonroot:
            yield ('cut', dict(rows=rows, cuts=[c], conn=7, meta=meta))
        kids = {i: [j for j in ids if par[j] == i] for i in ids}
        deep = [(a, b) for a in nonroot for b in nonroot if a != b][::5]
        for k, (a, b) in enumerate(deep):
            yield ('prune', dict(rows=rows, att=att, which=['distal', 'proximal'][k % 2], nodes=[a, b], form=['list', 'array'][k % 2], inplace=bool(k % 3 == 0), meta=meta))
            yield ('cutx', dict(rows=rows, att=att, where=[a, b], ret='both', form='list', meta=meta))
        if par[0] >= 0:
            yield ('prune', dict(rows=rows, att=att, which='distal', nodes=[0], form='scalar', inplace=False, meta=meta))
            yield ('prune', dict(rows=rows, att=att, which='proximal', nodes=['t:z'], form='scalar', inplace=False, meta=meta))
        leaves = [i for i in ids if not kids[i]]
        for k, form in enumerate(['list', 'mask', 'graph', 'df']):
            yield ('subsetx', dict(rows=rows, att=att, keep=leaves + [0], form=form, pf=True, meta=meta))
            yield ('subsetx', dict(rows=rows, att=att, keep=[i for i in ids if i % 2 == 0], form=form, meta=meta))
            yield ('subset', dict(rows=rows, keep=leaves + [0], form=['list', 'array'][k % 2], pf=True, seed=5 + k, meta=meta))


def fixed_suite():
    """Deterministic cross product on one branched tree with sparse unsorted ids: every ordered pair of non-root nodes ×
    {distal, proximal} through the prune methods (forms and in-place cycling), every pair through cut_skeleton."""
    #      10 <- 70 <- 30 <- 40 <- 55 <- 7 <- 90
    #                   ^           ^--- 66 <- 81
    #                   +--- 25 <- 12
    par = {10: -1, 70: 10, 30: 70, 40: 30, 55: 40, 7: 55, 90: 7, 66: 55, 81: 66, 25: 30, 12: 25}
    order = [55, 10, 7, 70, 90, 30, 66, 40, 81, 25, 12]
    pos = {10: (0, 0, 0)}
    step = {70: (3, 0, 0), 30: (0, 4, 0), 40: (1, 2, 2), 55: (2, 3, 6), 7: (3, 0, 0), 90: (0, 0, 5), 66: (0, 3, 4), 81: (4, 4, 7), 25: (6, 6, 7), 12: (0, 0, 1)}
    for i in [70, 30, 40, 55, 7, 90, 66, 81, 25, 12]:
        pos[i] = tuple(pos[par[i]][k] + step[i][k] for k in range(3))
    rows = [dict(id=i, parent=par[i], x=pos[i][0], y=pos[i][1], z=pos[i][2]) for i in order]
    att = {'conn': [[100 + k, i, 'pre' if k % 2 else 'post'] for k, i in enumerate([90, 81, 12, 55, 55, 10, 30, 66])],
           'tags': {'ta': [55], 'tb': [66], 'tc': [25], 'many': [7, 81]}, 'soma': 10}
    nonroot = [i for i in order if par[i] >= 0]
    meta = dict(shape='fixed', labeling='sparse', order='shuffled', n=len(rows))
    forms = ['list', 'array', 'tuple']
    k = 0
    for a in nonroot:
        for b in nonroot:
            if a == b:
                continue
            k += 1
            yield ('prune', dict(rows=rows, att=att, which='distal', nodes=[a, b], form=forms[k % 3], inplace=(k % 2 == 0), meta=meta))
            if b in [i for i in nonroot if a in ancestors(par, i)] or k % 9 == 0:
                yield ('prune', dict(rows=rows, att=att, which='proximal', nodes=[a, b], form=forms[k % 3], inplace=(k % 2 == 1), meta=meta))
            if a < b:
                yield ('cutx', dict(rows=rows, att=att, where=[a, b] if k % 2 else [b, a], ret='both', form=forms[k % 3], meta=meta))
    for nodes in (['t:ta', 't:tb'], ['t:tb', 't:ta'], ['t:many'], ['t:tc', 't:many'], ['t:ta', 't:tc', 't:tb']):
        for inplace in (False, True):
            yield ('prune', dict(rows=rows, att=att, which='distal', nodes=nodes, form='list', inplace=inplace, meta=meta))
    yield ('prune', dict(rows=rows, att=att, which='proximal', nodes=['t:ta', 't:tb'], form='list', inplace=False, meta=meta))
    yield ('prune', dict(rows=rows, att=att, which='distal', nodes=[40, 't:tb'], form='list', inplace=False, meta=meta))
    yield ('prune', dict(rows=rows, att=att, which='proximal', nodes=[40, 't:tb'], form='list', inplace=False, meta=meta))
    for t in order:
        for via in ('func', 'method_inplace', 'setter'):
            yield ('rerootx', dict(rows=rows, att=att, targets=[t], via=via, warm='both', meta=meta))
    for tg in (['t:ta'], ['t:tb', 't:tc'], [12, 't:ta']):
        yield ('rerootx', dict(rows=rows, att=att, targets=tg, via='func', warm='both', meta=meta))
    for form in FORMS:
        for pf in (False, True):
            yield ('subsetx', dict(rows=rows, att=att, keep=[90, 81, 12, 10] if pf else [10, 70, 40, 55, 90, 81, 66], form=form, pf=pf, meta=meta))
    yield ('autosoma', dict(rows=rows, big=55, keep=[40, 55, 7, 66], meta=meta))
    yield ('autosoma', dict(rows=rows, big=55, keep=[40, 7, 66], meta=meta))
    rows2 = [dict(id=i, parent=p, x=4 * k, y=0, z=3 * (k % 2)) for k, (i, p) in enumerate([(3, -1), (9, 3), (4, 3), (8, 9), (1, 9), (6, 4)])]
    att2 = {'conn': [[200, 8, 'pre'], [201, 3, 'post'], [202, 6, 'pre']], 'tags': {'q': [8, 4]}, 'soma': None}
    yield ('misc', dict(what='subset-neuronlist', rows=rows, att=att, rows2=rows2, att2=att2, meta=meta))
    yield ('misc', dict(what='subset-by-treeneuron', rows=rows, att=att, keep=[10, 70, 30], meta=meta))
    yield ('misc', dict(what='cut-leaf', rows=rows, att=att, node=90, meta=meta))
    yield ('misc', dict(what='cut-isolated', rows=[dict(id=5, parent=-1, x=0, y=0, z=0)], att={'conn': [], 'tags': None, 'soma': None}, node=5, meta=meta))
