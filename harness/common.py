"""Shared machinery of the /verif checks: Lean build + audit, driver process, case bookkeeping,
violation / known-finding reporting, evidence writing.  See DESIGN.md §2."""
import os, sys, json, time, hashlib, subprocess, random, re, fcntl, traceback, signal
from pathlib import Path

ROOT = Path(__file__).resolve().parent.parent
LEAN = ROOT / 'lean'
REPO = Path(os.environ.get('NAVIS_REPO', '/repo'))
DRV = LEAN / '.lake' / 'build' / 'bin' / 'navisdrv'
LOCK = LEAN / '.build.lock'
STD_AXIOMS = {'propext', 'Classical.choice', 'Quot.sound'}
FORBIDDEN = re.compile(r'\b(sorry|admit|native_decide|bv_decide|implemented_by)\b|^\s*axiom\s|\bunsafe\s|maxHeartbeats\s+0')

TRUSTED_BASE = [
    "Lean 4.33 kernel (thorough tier re-checks the property modules with leanchecker)",
    "axioms: subset of {propext, Classical.choice, Quot.sound}, audited by `#print axioms` on every property theorem in this run; no sorry/native_decide/bv_decide/own axioms (grep audit)",
    "Mathlib v4.33 single tactic modules in proof files only",
    "the translator (translator/*.py) and the correspondence harness (harness/*.py, lean/Driver.lean parser/printer, canonicalisation)",
    "numpy/pandas/scipy/networkx/igraph/navis-fastcore primitives are modelled, not verified; IEEE rounding is avoided by exact-float inputs or bounded by a tolerance",
]


def log(*a):
    print(*a, file=sys.stderr, flush=True)


# ------------------------------------------------------------------------------------------------
# Lean side
# ------------------------------------------------------------------------------------------------
class LeanLock:
    def __enter__(self):
        LOCK.parent.mkdir(parents=True, exist_ok=True)
        self.f = open(LOCK, 'w')
        fcntl.flock(self.f, fcntl.LOCK_EX)
        return self

    def __exit__(self, *a):
        fcntl.flock(self.f, fcntl.LOCK_UN)
        self.f.close()


def run_cmd(cmd, cwd=None, timeout=3600, env=None):
    e = dict(os.environ)
    if env:
        e.update(env)
    p = subprocess.run(cmd, cwd=cwd, stdout=subprocess.PIPE, stderr=subprocess.STDOUT, text=True,
                       timeout=timeout, env=e)
    return p.returncode, p.stdout


def lean_build(targets, timeout=3000):
    """lake build <targets>; returns (ok, log, failing_decls)."""
    with LeanLock():
        rc, out = run_cmd(['lake', 'build'] + list(targets), cwd=LEAN, timeout=timeout)
    bad = []
    if rc != 0:
        for m in re.finditer(r'error: (NavisModel/[\w/]+\.lean):(\d+):(\d+): (.*)', out):
            bad.append({'file': m.group(1), 'line': int(m.group(2)), 'msg': m.group(4)[:300]})
    return rc == 0, out, bad


def decl_at(file, line):
    """Name of the theorem/def enclosing `line` of a Lean file (best effort)."""
    try:
        src = (LEAN / file).read_text().splitlines()
    except Exception:
        return None
    for i in range(min(line, len(src)) - 1, -1, -1):
        m = re.match(r'\s*(?:@\[[^\]]*\]\s*)?(?:private\s+|protected\s+)?(theorem|lemma|def|example|instance)\s+([\w\.\']+)?', src[i])
        if m:
            return (m.group(2) or 'example') + f' ({file}:{i+1})'
    return None


def strip_comments(src):
    src = re.sub(r'/-.*?-/', lambda m: '\n' * m.group(0).count('\n'), src, flags=re.S)
    src = re.sub(r'--.*', '', src)
    return src


def prop_theorems(prop):
    """Theorems declared in Props/<prop>.lean (fully qualified)."""
    f = LEAN / 'NavisModel' / 'Props' / f'{prop}.lean'
    if not f.exists():
        return []
    src = strip_comments(f.read_text())
    ns = re.search(r'^namespace\s+([\w\.]+)', src, flags=re.M)
    nsn = ns.group(1) if ns else ''
    names = re.findall(r'^\s*theorem\s+([\w\.\']+)', src, flags=re.M)
    return [f'{nsn}.{n}' if nsn else n for n in names]


def import_closure(roots):
    """Lean files reachable from `roots` (paths relative to lean/) through `import NavisModel.*` lines."""
    seen, todo = [], list(roots)
    while todo:
        f = todo.pop()
        if f in seen or not (LEAN / f).exists():
            continue
        seen.append(f)
        for m in re.finditer(r'^import\s+(NavisModel[\w\.]*)', (LEAN / f).read_text(), flags=re.M):
            todo.append(m.group(1).replace('.', '/') + '.lean')
    return seen


def grep_forbidden(prop=None):
    """Forbidden tokens in the files the property's theorems (and the driver) depend on."""
    if prop is None:
        files = [str(f.relative_to(LEAN)) for f in sorted((LEAN / 'NavisModel').rglob('*.lean'))] + ['Driver.lean']
    else:
        files = import_closure([f'NavisModel/Props/{prop}.lean', f'NavisModel/Drv/{prop}.lean'])
    hits = []
    for rel in files:
        src = strip_comments((LEAN / rel).read_text())
        for i, l in enumerate(src.splitlines(), 1):
            if FORBIDDEN.search(l):
                hits.append(f'{rel}:{i}: {l.strip()[:120]}')
    return hits


def leanchecker(prop):
    """Thorough tier: re-check the compiled property module and its project-local imports with Lean's
    independent .olean re-checker. Returns (ok, output, modules)."""
    mods = [f[:-5].replace('/', '.') for f in import_closure([f'NavisModel/Props/{prop}.lean'])]
    with LeanLock():
        rc, out = run_cmd(['lake', 'env', 'leanchecker'] + mods, cwd=LEAN, timeout=3000)
    return rc == 0, out[-1500:], mods


def audit(prop):
    """#print axioms on every property theorem.  Returns dict(theorems, ok, axioms, problems)."""
    thms = prop_theorems(prop)
    d = LEAN / '.lake' / 'audit'
    d.mkdir(parents=True, exist_ok=True)
    f = d / f'{prop}.lean'
    f.write_text(f'import NavisModel.Props.{prop}\n' + ''.join(f'#print axioms {t}\n' for t in thms))
    with LeanLock():
        rc, out = run_cmd(['lake', 'env', 'lean', str(f)], cwd=LEAN, timeout=1200)
    res = {}
    for m in re.finditer(r"'([^']+)' (depends on axioms: \[([^\]]*)\]|does not depend on any axioms)", out.replace('\n', ' ')):
        ax = [a.strip() for a in (m.group(3) or '').split(',') if a.strip()]
        res[m.group(1)] = ax
    problems = []
    for t in thms:
        if t not in res:
            problems.append(f'{t}: not checked ({out[-300:]})')
        elif not set(res[t]) <= STD_AXIOMS:
            problems.append(f'{t}: non-standard axioms {res[t]}')
    hits = grep_forbidden(prop)
    problems += [f'forbidden token: {h}' for h in hits]
    return {'theorems': thms, 'axioms': res, 'problems': problems, 'ok': rc == 0 and not problems and bool(thms)}


class Driver:
    """Persistent navisdrv process, line in / line out."""

    def __init__(self):
        self.p = None
        self.n = 0

    def start(self):
        main = os.environ.get('NAVIS_DRV_MAIN')   # development: interpret a per-property main file
        if main:
            cmd = ['lake', 'env', 'lean', '--run', main]
            self.p = subprocess.Popen(cmd, cwd=LEAN, stdin=subprocess.PIPE, stdout=subprocess.PIPE, text=True, bufsize=1)
            return
        if not DRV.exists():
            raise RuntimeError('navisdrv not built')
        self.p = subprocess.Popen([str(DRV)], stdin=subprocess.PIPE, stdout=subprocess.PIPE, text=True, bufsize=1)

    def ask(self, line):
        if self.p is None or self.p.poll() is not None:
            self.start()
        assert '\n' not in line
        self.p.stdin.write(line + '\n')
        self.p.stdin.flush()
        out = self.p.stdout.readline()
        if not out:
            self.p = None
            raise RuntimeError(f'driver died on: {line[:200]}')
        self.n += 1
        return out.rstrip('\n')

    def close(self):
        if self.p:
            try:
                self.p.stdin.close()
                self.p.wait(timeout=5)
            except Exception:
                self.p.kill()
            self.p = None


# ------------------------------------------------------------------------------------------------
# Known findings
# ------------------------------------------------------------------------------------------------
def load_known():
    """known_findings.json plus known_findings/*.json (committed, never written at run time)."""
    out = []
    files = [ROOT / 'known_findings.json'] + sorted((ROOT / 'known_findings').glob('*.json'))
    for f in files:
        if f.exists():
            out += json.loads(f.read_text()).get('findings', [])
    return out


# ------------------------------------------------------------------------------------------------
# Context
# ------------------------------------------------------------------------------------------------
class Timeout(Exception):
    pass


class Ctx:
    def __init__(self, prop, tier, seed):
        self.prop, self.tier, self.seed = prop, tier, seed
        self.rng = random.Random(f'{prop}-{seed}')
        self.t0 = time.time()
        self.evaluations = 0
        self.distinct = set()
        self.hist = {}
        self.samples = []
        self.failures = []      # dicts: kind, what, case, signature
        self.known_hit = {}     # signature -> what
        self.known = [k for k in load_known() if k.get('property') == prop and k.get('status') == 'open']
        self.drv = Driver()
        self.corr_checks = 0
        self.oracle_checks = 0
        self.notes = []
        self.extra = {}
        self.deadline = None
        self.search_mode = False
        self.last_case = None
        self.journal = None     # path: the case being run is journalled so that a hard crash can be attributed

    # -- bookkeeping ---------------------------------------------------------------------------
    def quick(self):
        return self.tier == 'quick'

    def budget(self, quick, thorough):
        b = quick if self.tier == 'quick' else thorough
        return b * 4 if self.search_mode and self.tier == 'quick' else b

    def count(self, name, key=1):
        h = self.hist.setdefault(name, {})
        k = str(key)
        h[k] = h.get(k, 0) + 1

    def case(self, case, nontrivial=True, sample_every=0):
        """Register one explored case (JSON-able). Returns its digest."""
        self.evaluations += 1
        dg = hashlib.sha1(json.dumps(case, sort_keys=True, default=str).encode()).hexdigest()[:16]
        if nontrivial:
            self.distinct.add(dg)
        self.last_case = case
        if len(self.samples) < 3 or (sample_every and self.evaluations % sample_every == 0 and len(self.samples) < 8):
            self.samples.append(case)
        if self.journal:
            try:
                with open(self.journal, 'w') as f:
                    json.dump(case, f, default=str)
            except Exception:
                pass
        if self.deadline and time.time() > self.deadline:
            raise Timeout()
        return dg

    def ask(self, line):
        return self.drv.ask(line)

    # -- outcomes ------------------------------------------------------------------------------
    def match_known(self, signature):
        for k in self.known:
            if k.get('signature') == signature:
                return k
        return None

    def fail(self, kind, what, case, signature=None, **extra):
        """kind: 'oracle' (property fails on the real code for this input) or 'corr' (model and
        implementation disagree)."""
        if signature:
            k = self.match_known(signature)
            if k:
                if os.environ.get('VERIF_DEBUG_KNOWN'):
                    log('known-hit:', signature[:60], '<-', what[:300])
                if signature not in self.known_hit:
                    self.known_hit[signature] = k.get('what', what)
                self.count('known_finding_hits', signature)
                return False
        d = {'kind': kind, 'what': what, 'case': case, 'signature': signature}
        d.update(extra)
        self.failures.append(d)
        return True

    def oracle(self, ok, what, case, signature=None, **extra):
        self.oracle_checks += 1
        if not ok:
            self.fail('oracle', what, case, signature, **extra)
        return ok

    def corr(self, impl, model, what, case, signature=None):
        """Compare canonical implementation output with model output."""
        self.corr_checks += 1
        if impl != model:
            self.fail('corr', what, case, signature, impl=_short(impl), model=_short(model))
            return False
        return True

    def defn(self, impl, model, what, case, signature=None):
        """Compare implementation output with the model where the model IS the property's definition
        (e.g. 'distances equal the values obtained by walking parent links'): a mismatch is a failing input
        for the property itself, not merely a broken correspondence."""
        self.corr_checks += 1
        self.oracle_checks += 1
        if impl != model:
            self.fail('oracle', what + ' — implementation differs from the definition', case, signature,
                      impl=_short(impl), model=_short(model))
            return False
        return True

    def has_new_failure(self, kind=None):
        return any(kind is None or f['kind'] == kind for f in self.failures)


def _short(x, n=2000):
    s = x if isinstance(x, str) else json.dumps(x, default=str)
    return s if len(s) <= n else s[:n] + '…'


def write_replay(prop, obj):
    d = ROOT / 'replays'
    d.mkdir(exist_ok=True)
    body = json.dumps(obj, indent=1, sort_keys=True, default=str)
    h = hashlib.sha1(body.encode()).hexdigest()[:10]
    p = d / f'{prop}-{h}.json'
    p.write_text(body)
    return p.relative_to(ROOT)


def write_evidence(ctx, aud, build_ok, violations, extra_cov=None):
    thms = aud['theorems'] if aud else []
    discharged = len([t for t in thms if aud and t in aud['axioms'] and set(aud['axioms'][t]) <= STD_AXIOMS]) if build_ok else 0
    cov = {
        'obligations': max(len(thms), 1),
        'discharged': discharged if discharged else (0 if thms else 0),
        'checker_cmd': f'cd lean && lake build NavisModel.Props.{ctx.prop} navisdrv && lake env lean .lake/audit/{ctx.prop}.lean  (#print axioms per theorem)',
        'trusted_base': TRUSTED_BASE,
        'theorems': thms,
        'axioms_used': sorted({a for t in thms for a in (aud['axioms'].get(t, []) if aud else [])}),
        'evaluations': ctx.evaluations,
        'distinct_nontrivial': len(ctx.distinct),
        'rule': ctx.extra.get('rule', 'cases are generated from one PRNG seeded by VERIF_SEED; a case counts as distinct+non-trivial when the module marks it non-trivial and its JSON digest has not been seen'),
        'samples': ctx.samples[:8] if ctx.samples else [{'theorems': thms[:5]}],
        'traces_validated_against_impl': ctx.corr_checks,
        'oracle_checks_on_impl': ctx.oracle_checks,
        'driver_requests': ctx.drv.n,
        'histograms': ctx.hist,
        'known_findings_reproduced': sorted(ctx.known_hit),
        'notes': ctx.notes,
    }
    for k, v in ctx.extra.items():
        if k != 'rule':
            cov[k] = v
    if extra_cov:
        cov.update(extra_cov)
    if cov['discharged'] < 1:
        # proof-level keys require ≥1; when the build is broken fall back to the generic keys
        cov.pop('obligations'); cov.pop('discharged')
        cov['evaluations'] = max(cov['evaluations'], 1)
        cov['distinct_nontrivial'] = max(cov['distinct_nontrivial'], 2)
    ev = {
        'property_id': ctx.prop, 'tier': ctx.tier, 'seed': ctx.seed, 'level': 'proof',
        'coverage': cov,
        'assumptions': ctx.extra.get('assumptions', []) + ['see coverage.trusted_base'],
        'wall_s': round(time.time() - ctx.t0, 2),
        'violations': violations,
    }
    d = ROOT / 'evidence'
    d.mkdir(exist_ok=True)
    (d / f'{ctx.prop}.json').write_text(json.dumps(ev, indent=1, default=str))
