"""C05 — tree distances and segment decompositions match their definitions.

Correspondence: navis' geodesic matrices / point distances / root distances / distal-to relation /
cable length / adjacency / segments / small segments vs the Lean definitions (walk parent links, sum
integer edge lengths) AND vs the as-written models instantiated with the facts the translator extracts
from the current source (`c05x.` commands).  Oracle: Lean checkers `segmentsOKB` / `smallSegmentsOKB`
on navis' own lists; a mismatch with a definition is a failing input for the property (`ctx.defn`).

Streams (kinds; every kind is also re-run by harness/c04.py under each back-end):
  dist      geodesic_matrix(directed, weight, limit, from_) + dist_between + dist_to_root + distal_to + cable + adjacency
  segments  small_segments, segments (weighted / unweighted), checker, exact order when no ties, segment_length
  geox      option forms of geodesic_matrix: from_ as scalar / numpy scalar / list / tuple / array / set (duplicates, unsorted,
            missing id -> ValueError), limit as 0 / number / float / np.inf / float('inf') / equal to an existing distance / unit
            string, NeuronList input, the cached property, units
  point     dist_between on all pairs (across fragments, a == b, list / NeuronList forms), distal_to in scalar / matrix /
            None forms (self, unreachable), dist_to_root (weight, igraph_indices)
  adjx      skeleton_adjacency_matrix(sort=False / True), x.adjacency_matrix, NeuronList forms
  cablex    parent_dist (root_dist), cable_length(mask=array / callable), NeuronList.cable_length
  hist      warm caches -> 2-4 operations (reroot, subset, cut, prune_twigs, x * k, x.nodes = …) -> every observable after
            every step
  segx      segment_length of every (small) segment, _generate_segments(return_lengths=True), NeuronList inputs
  mesh      MeshNeuron geodesic_matrix (vertex labels, from_, limit, weight) vs shortest paths on the edge graph
  dtype     node tables whose x/y/z columns are uint8 / uint16 / int16 / uint32 / int32 / int64: small edges and edges whose squared
            coordinate differences overflow the column dtype (child coordinates smaller than the parent's for the unsigned ones)
"""
import warnings, random, itertools, math
import numpy as np
import pandas as pd

warnings.filterwarnings('ignore')
import navis
from . import gen as G

navis.config.pbar_hide = True
navis.set_loggers('ERROR')

GU = navis.graph.graph_utils


def fmt(v):
    if v is None:
        return 'inf'
    f = float(v)
    if np.isinf(f) or np.isnan(f):
        return 'inf'
    if f == int(f):
        return str(int(f))
    return repr(f)


def canon_matrix(df):
    rows = sorted(df.index.tolist())
    cols = sorted(df.columns.tolist())
    sub = df.loc[rows, cols].values
    return ' '.join(f"{int(r)}=" + ','.join(fmt(v) for v in sub[i]) for i, r in enumerate(rows))


def canon_bool(df):
    rows = sorted(df.index.tolist())
    cols = sorted(df.columns.tolist())
    sub = df.loc[rows, cols].values
    return ' '.join(f"{int(r)}=" + ','.join(str(int(bool(v))) for v in sub[i]) for i, r in enumerate(rows))


def segs_wire(segs):
    return ';'.join(','.join(str(int(v)) for v in s) for s in segs)


def canon_segs(segs):
    return ';'.join(','.join(map(str, s)) for s in sorted([int(v) for v in s] for s in segs))


def ints(l):
    return ','.join(str(int(v)) for v in l)


def branch_of(be):
    """Which branch of geodesic_matrix runs for a TreeNeuron: navis-fastcore ('fc') or scipy ('sp')."""
    return 'fc' if navis.utils.fastcore else 'sp'


def warm_up(x):
    _ = x.graph; _ = x.igraph; _ = x.segments; _ = x.small_segments; _ = x.cable_length
    try:
        _ = x.geodesic_matrix
    except Exception:
        pass
    try:
        _ = x.adjacency_matrix
    except Exception:
        pass


def build(case):
    """The neuron under test. With `warm`, it is DERIVED from a neuron whose cached views (graphs, segments,
    geodesic matrix) have been read: x = (warm x0 / k) * k ... so that stale caches surviving an operation show
    up as wrong distances on the result (k dyadic: coordinates stay exact)."""
    x = G.to_neuron(case['rows'], **({'units': case['units']} if case.get('units') else {}))
    w = case.get('warm')
    if w:
        _ = x.graph; _ = x.igraph; _ = x.segments; _ = x.small_segments; _ = x.cable_length
        k = w.get('k', 2)           # integer factor: coordinates and edge lengths stay exact integers
        if w['how'] == 'mul':
            x = x * k
        elif w['how'] == 'imul':
            x *= k
        elif w['how'] == 'div_mul':
            y = x / 2
            _ = y.graph; _ = y.igraph; _ = y.segments
            x = y * (2 * k)
        elif w['how'] == 'add':
            x = x + 16
    return x


def integer_edges(ctx, wire):
    sq = ctx.ask('f.sqlens ' + wire)
    for tok in sq.split():
        i, s2, rt = tok.split(':')
        if int(rt) * int(rt) != int(s2):
            return False
    return True


def parse_lmat(s):
    """`rows=.. cols=.. # a=..` -> (rows, cols, body)"""
    head, body = s.split(' # ') if ' # ' in s else (s.rstrip(' #'), '')
    rows = cols = None
    for tok in head.split():
        if tok.startswith('rows='):
            rows = [int(v) for v in tok[5:].split(',') if v != '']
        elif tok.startswith('cols='):
            cols = [int(v) for v in tok[5:].split(',') if v != '']
    return rows, cols, body.strip()


# ================================================================================================ dist (first pass)
def case_dist(ctx, case, be=None):
    rows = case['rows']
    x = build(case)
    wire = G.wire_neuron(x, labels=False)
    ids = [r['id'] for r in rows]
    tag = f'[{be}]' if be else ''
    r = random.Random(case['seed'])
    # exact integer edge lengths?
    assert integer_edges(ctx, wire), 'generator produced a non-integer edge length'
    # --- geodesic matrix
    directed, weighted = case['directed'], case['weighted']
    limit = case['limit']
    from_ = case['from']
    kw = dict(directed=directed, weight='weight' if weighted else None)
    if limit is not None:
        kw['limit'] = limit
    if from_ is not None:
        kw['from_'] = from_
    sig = None
    if be == 'igraph' and all(rw['parent'] < 0 for rw in rows):
        sig = 'geodesic_matrix/igraph/no-edges'
    try:
        m = navis.geodesic_matrix(x, **kw)
        impl = canon_matrix(m)
        ok_labels = sorted(m.columns.tolist()) == sorted(ids) and sorted(m.index.tolist()) == sorted(set(from_) if from_ is not None else ids)
        ctx.oracle(ok_labels, f'geodesic_matrix: rows/columns are not labelled by node id {tag}', case, signature=sig)
        fr = '*' if from_ is None else ','.join(map(str, sorted(set(from_))))
        model = ctx.ask(f"f.geo {int(directed)} {int(weighted)} {'inf' if limit is None else limit} {fr} | {wire}")
        ctx.defn(impl, model, f'geodesic_matrix(directed={directed}, weight={weighted}, limit={limit}, from_={"yes" if from_ else "no"}) vs definition {tag}', case, signature=sig)
        # the as-written model of the branch that ran, instantiated with the facts of the current source
        frw = '*' if from_ is None else 'l:' + ints(from_)
        mw = ctx.ask(f"c05x.geow {branch_of(be)} {int(directed)} {int(weighted)} {'npinf' if limit is None else limit} {frw} | {wire}")
        if mw.startswith('ERR') or mw == 'BAD-OP':
            ctx.corr(impl, mw, f'geodesic_matrix vs as-written model ({branch_of(be)} branch) {tag}', case)
        else:
            rws, cls, body = parse_lmat(mw)
            ctx.corr(impl, body, f'geodesic_matrix vs as-written model ({branch_of(be)} branch) {tag}', case)
            ctx.count('label_order_as_modelled', (m.index.tolist(), m.columns.tolist()) == (rws, cls))
    except Exception as e:
        ctx.oracle(False, f'geodesic_matrix raised {type(e).__name__}: {str(e)[:100]} {tag}', case, signature=sig)
    ctx.count('geo', f'd{int(directed)}w{int(weighted)}l{"y" if limit is not None else "n"}f{"y" if from_ else "n"}')
    # --- undirected, weighted full matrix as reference for point queries
    ref = ctx.ask(f'f.geo 0 1 inf * | {wire}')
    refd = {}
    sid = sorted(ids)
    for tok in ref.split():
        a, vs = tok.split('=')
        for b, v in zip(sid, vs.split(',')):
            refd[(int(a), b)] = v
    for _ in range(3):
        a, b = r.choice(ids), r.choice(ids)
        want = refd[(a, b)]
        sig = 'dist_between/networkx/int-truncation' if be == 'networkx' else None
        try:
            d = navis.dist_between(x, a, b)
            ctx.defn(fmt(d), want, f'dist_between({a},{b}) vs definition {tag}', case, signature=sig)
        except Exception as e:
            ctx.oracle(False, f'dist_between({a},{b}) raised {type(e).__name__} (the distance is {want}) {tag}', case)
    # --- dist_to_root
    for w in (0, 1):
        try:
            d = navis.graph.dist_to_root(x, weight='weight' if w else None)
            impl = ' '.join(f'{i}={fmt(d[i])}' for i in sid)
            ctx.defn(impl, ctx.ask(f'f.distroot {w} | {wire}'), f'dist_to_root(weight={w}) vs definition {tag}', case)
        except Exception as e:
            ctx.oracle(False, f'dist_to_root raised {type(e).__name__}: {str(e)[:80]} {tag}', case)
    # --- distal_to  (a distal to b  <=>  b on a's root path)
    dirm = ctx.ask(f'f.geo 1 0 inf * | {wire}')
    dd = {}
    for tok in dirm.split():
        a, vs = tok.split('=')
        for b, v in zip(sid, vs.split(',')):
            dd[(int(a), b)] = v != 'inf'
    try:
        A = r.sample(ids, min(len(ids), 3)); B = r.sample(ids, min(len(ids), 3))
        df = navis.distal_to(x, A, B)
        if isinstance(df, (bool, np.bool_)):
            ok = bool(df) == dd[(A[0], B[0])]
        else:
            ok = all(bool(df.loc[a, b]) == dd[(a, b)] for a in A for b in B)
        ctx.oracle(ok, f'distal_to({A},{B}) disagrees with "b lies on a\'s path to the root" {tag}', case)
    except Exception as e:
        ctx.oracle(False, f'distal_to raised {type(e).__name__}: {str(e)[:80]} {tag}', case)
    # --- cable length
    try:
        ctx.defn(fmt(x.cable_length), ctx.ask('f.cable ' + wire), f'cable_length vs sum of child-parent distances {tag}', case)
    except Exception as e:
        ctx.oracle(False, f'cable_length raised {type(e).__name__}: {str(e)[:80]} {tag}', case)
    # --- adjacency matrix
    try:
        adj = GU.skeleton_adjacency_matrix(x, sort=False)
        impl = ' '.join(f'{int(a)}>{int(b)}' for a in sorted(adj.index) for b in sorted(adj.columns) if bool(adj.loc[a, b]))
        ctx.defn(impl, ctx.ask('f.adj ' + wire), f'skeleton_adjacency_matrix vs parent relation {tag}', case,
                 signature='adjacency/unsorted-ids-searchsorted')
    except Exception as e:
        ctx.oracle(False, f'skeleton_adjacency_matrix raised {type(e).__name__}: {str(e)[:80]} {tag}', case,
                   signature='adjacency/readonly-assignment')


# ================================================================================================ segments
def leaf_depths(rows_now, depth):
    pm = {i: p for i, p in rows_now}
    haschild = set(pm.values())
    return [depth[i] for i in pm if i not in haschild and pm[i] >= 0]


def compare_segments(ctx, x, wire, w, segs, case, tag):
    """navis' `segments` vs the greedy-longest model.  The decomposition and the order of the multi-node segments are
    determined only when no two leafs are equally deep and no two multi-node segments are equally long (a zero-length
    segment ties with every other zero-length segment); single-node segments (isolated nodes, all of length 0) may be
    interleaved with zero-length multi-node segments in any order.  Under ties the proved-sound checker decides alone."""
    model = ctx.ask(f'f.segs {w} | {wire}')
    mseg, mlen = model.split(' # ')
    mlist = [[int(v) for v in s.split(',')] for s in mseg.strip().split(';')] if mseg.strip() else []
    lens = [int(v) for v in mlen.split(',')] if mlen.strip() else []
    # the builder with the facts of the current source plugged in is the model (theorem generate_segments_as_written)
    ctx.corr(ctx.ask(f'c05x.segsw {w} | {wire}'), model, f'_generate_segments: as-written builder vs model (weighted={w}) {tag}', case)
    dr = ctx.ask(f'f.distroot {w} | {wire}')
    depth = {int(t.split('=')[0]): int(t.split('=')[1]) for t in dr.split()}
    nd = x.nodes
    ld = leaf_depths(list(zip(map(int, nd.node_id.values), map(int, nd.parent_id.values))), depth)
    multi_m = [(s, l) for s, l in zip(mlist, lens) if len(s) > 1]
    mlens = [l for _, l in multi_m]
    multi_i = [s for s in segs if len(s) > 1]
    if len(set(ld)) == len(ld) and len(set(mlens)) == len(mlens):
        ctx.defn(segs_wire(multi_i), segs_wire([s for s, _ in multi_m]),
                 f'segments(weighted={w}) vs greedy-longest definition (no ties): multi-node segments in order {tag}', case)
        ctx.count('segments_unique', w)
    else:
        ctx.count('segments_ties', w)
        if any(l == 0 for l in mlens):
            ctx.count('segments_zero_length_ties', w)
    ctx.defn(sorted(s[0] for s in segs if len(s) == 1), sorted(s[0] for s in mlist if len(s) == 1),
             f'segments(weighted={w}): single-node segments are not exactly the isolated nodes {tag}', case)
    return mlist, lens


def case_segments(ctx, case, be=None):
    x = build(case)
    wire = G.wire_neuron(x, labels=False)
    tag = f'[{be}]' if be else ''
    # small segments: unique answer
    try:
        ss = x.small_segments
        impl = canon_segs(ss)
        ctx.defn(impl, ctx.ask('f.smallsegs ' + wire), f'small_segments vs definition {tag}', case)
        ctx.corr(ctx.ask('c05x.smallsegsw ' + wire), ctx.ask('f.smallsegs ' + wire), f'_break_segments: as-written builder vs model {tag}', case)
        ok = ctx.ask(f'f.smallsegsok {wire} | {segs_wire(ss)}')
        ctx.oracle(ok == '1', f'small_segments do not partition the edges into leaf/branch -> branch/root paths with slabs in between {tag}', case)
    except Exception as e:
        ctx.oracle(False, f'small_segments raised {type(e).__name__}: {str(e)[:80]} {tag}', case)
    # segments (unweighted = x.segments; weighted = _generate_segments(weight='weight'))
    for w in (0, 1):
        try:
            segs = x.segments if w == 0 else GU._generate_segments(x, weight='weight')
            segs = [[int(v) for v in s] for s in segs]
        except Exception as e:
            ctx.oracle(False, f'segments(weighted={w}) raised {type(e).__name__}: {str(e)[:80]} {tag}', case)
            continue
        ok = ctx.ask(f'f.segsok {w} | {wire} | {segs_wire(segs)}')
        ctx.oracle(ok == '1', f'segments(weighted={w}) are not an edge partition into child->parent paths, longest first, isolated nodes as '
                              f'single-node segments {tag}', case)
        mlist, lens = compare_segments(ctx, x, wire, w, segs, case, tag)
        # segment_length of the first segment
        if w == 1 and segs and len(segs[0]) > 1:
            try:
                sl = navis.segment_length(x, segs[0])
                ctx.defn(fmt(sl), str(lens[0]) if lens else '0', f'segment_length(first segment) {tag}', case)
            except Exception as e:
                ctx.oracle(False, f'segment_length raised {type(e).__name__} {tag}', case)
    m = case.get('meta', {})
    if m.get('shape') == 'zeroseg':
        ctx.count('zeroseg', be or 'default')


# ================================================================================================ geox
SIG_LIMIT_ZERO_STR = 'geodesic_matrix/limit="0 <unit>"/map_units-round_smart-log10(0)-ValueError'


def realise_from(spec):
    """-> (python value or None, wire for c05x, sorted unique ids or None)"""
    if spec is None:
        return None, '*', None
    kind, idl = spec[0], list(spec[1])
    if kind == 'scalar':
        return int(idl[0]), f's:{idl[0]}', [idl[0]]
    if kind == 'npscalar':
        return np.int64(idl[0]), f's:{idl[0]}', [idl[0]]
    w = 'l:' + ints(idl)
    u = sorted(set(idl))
    if kind == 'list':
        return list(idl), w, u
    if kind == 'tuple':
        return tuple(idl), w, u
    if kind == 'array':
        return np.array(idl, dtype=np.int64), w, u
    if kind == 'array32':
        return np.array(idl, dtype=np.int64).astype(np.int32) if max(idl) < 2 ** 31 else np.array(idl, dtype=np.int64), w, u
    if kind == 'set':
        return set(idl), w, u
    if kind == 'series':
        return pd.Series(idl, dtype=np.int64), w, u
    raise ValueError(kind)


def realise_limit(spec, ref_vals, unit_k):
    """-> (python value or '<omit>', wire for c05x, value for f.geo)"""
    kind = spec[0]
    if kind == 'omit':
        return '<omit>', 'npinf', 'inf'
    if kind == 'npinf':
        return np.inf, 'npinf', 'inf'
    if kind == 'inf':
        return float('inf'), 'inf', 'inf'
    if kind == 'num':
        return int(spec[1]), str(spec[1]), str(spec[1])
    if kind == 'float':
        return float(spec[1]), str(int(spec[1])), str(int(spec[1]))
    if kind == 'npnum':
        return np.int64(spec[1]), str(spec[1]), str(spec[1])
    if kind == 'eq':          # equal to a distance that occurs in the matrix
        vals = sorted(set(ref_vals))
        v = vals[spec[1] % len(vals)] if vals else 0
        return (float(v) if spec[1] % 2 else int(v)), str(v), str(v)
    if kind == 'str':         # unit string: n units
        return f'{spec[1] * unit_k:g} nm', str(spec[1]), str(spec[1])
    raise ValueError(kind)


def case_geox(ctx, case, be=None):
    rows = case['rows']
    x = build(case)
    wire = G.wire_neuron(x, labels=False)
    ids = [r['id'] for r in rows]
    tag = f'[{be}]' if be else ''
    directed, weighted = case['directed'], case['weighted']
    try:
        unit_k = float(x.units.to('nm').magnitude)      # the neuron's own unit in nm (x * k divides it by k)
    except Exception:
        unit_k = 1.0
    full = ctx.ask(f'f.geo {int(directed)} {int(weighted)} inf * | {wire}')
    ref_vals = [int(v) for tok in full.split() for v in tok.split('=')[1].split(',') if v != 'inf']
    fpy, fwire, fu = realise_from(case['from'])
    lpy, lwire, ldef = realise_limit(case['limit'], ref_vals, unit_k)
    kw = {}
    if case.get('pass_directed', True):
        kw['directed'] = directed
    if case.get('pass_weight', True) or not weighted:
        kw['weight'] = 'weight' if weighted else None
    eff_directed = directed if 'directed' in kw else False
    eff_weighted = weighted if 'weight' in kw else True
    if lpy != '<omit>':
        kw['limit'] = lpy
    if fpy is not None:
        kw['from_'] = fpy
    target = navis.NeuronList([x]) if case.get('wrap') == 'list' else x
    via = case.get('via', 'func')
    ctx.count('geox_from', 'none' if case['from'] is None else case['from'][0])
    ctx.count('geox_limit', case['limit'][0])
    ctx.count('geox_wrap', f"{case.get('wrap') or 'neuron'}/{via}/{case.get('units') or '1 nm'}")
    mw = ctx.ask(f"c05x.geow {branch_of(be)} {int(eff_directed)} {int(eff_weighted)} {lwire} {fwire} | {wire}")
    missing = via != 'prop' and fu is not None and any(i not in ids for i in fu)
    what = (f'geodesic_matrix(from_={case["from"] and case["from"][0]}, limit={case["limit"]}, directed={eff_directed}, weight={eff_weighted}, '
            f'{case.get("wrap") or "neuron"}, {via}) {tag}')
    try:
        if via == 'prop':
            m = x.geodesic_matrix          # cached view: defaults (undirected, weighted, no limit, all rows)
            mw = ctx.ask(f"c05x.geow {branch_of(be)} 0 1 npinf * | {wire}")
            eff_directed, eff_weighted, ldef, fu = False, True, 'inf', None
        else:
            m = navis.geodesic_matrix(target, **kw)
    except ValueError as e:
        if case['limit'] == ['str', 0] and not missing:
            # regression (fixed in navis by 0b634c2): map_units('0 nm') -> round_smart(0.0) took log10(0)
            ctx.oracle(False, f'{what} raised ValueError: {str(e)[:80]} for a zero quantity given as a unit string', case, signature=SIG_LIMIT_ZERO_STR)
            return
        ctx.oracle(missing, f'{what} raised ValueError: {str(e)[:80]}', case)
        ctx.corr('ERR:not-present', mw, f'{what}: ValueError vs as-written model', case)
        ctx.count('geox_outcome', 'ValueError(missing id)')
        return
    except Exception as e:
        ctx.oracle(False, f'{what} raised {type(e).__name__}: {str(e)[:80]}', case)
        return
    if missing:
        ctx.oracle(False, f'{what}: an id that is not in the table was accepted', case)
        return
    ctx.count('geox_outcome', 'matrix')
    impl = canon_matrix(m)
    ok = (sorted(m.columns.tolist()) == sorted(ids) and sorted(m.index.tolist()) == (fu if fu is not None else sorted(ids))
          and len(set(m.index.tolist())) == len(m.index))
    ctx.oracle(ok, f'{what}: rows/columns are not labelled by the requested / all node ids (each once)', case)
    fr = '*' if fu is None else ','.join(map(str, fu))
    ctx.defn(impl, ctx.ask(f"f.geo {int(eff_directed)} {int(eff_weighted)} {ldef} {fr} | {wire}"), f'{what} vs definition', case)
    if mw.startswith('ERR') or mw == 'BAD-OP':
        ctx.corr(impl, mw, f'{what} vs as-written model', case)
    else:
        rws, cls, body = parse_lmat(mw)
        ctx.corr(impl, body, f'{what} vs as-written model', case)
        ctx.count('label_order_as_modelled', (m.index.tolist(), m.columns.tolist()) == (rws, cls))
    if case.get('wrap') == 'list2':
        pass


def case_geox_errors(ctx, x, case, tag):
    try:
        navis.geodesic_matrix(navis.NeuronList([x, x.copy()]))
        ctx.oracle(False, f'geodesic_matrix(NeuronList of 2) did not raise {tag}', case)
    except ValueError:
        pass
    except Exception as e:
        ctx.oracle(False, f'geodesic_matrix(NeuronList of 2) raised {type(e).__name__} instead of ValueError {tag}', case)


# ================================================================================================ point
def case_point(ctx, case, be=None):
    rows = case['rows']
    x = build(case)
    wire = G.wire_neuron(x, labels=False)
    ids = [r['id'] for r in rows]
    sid = sorted(ids)
    tag = f'[{be}]' if be else ''
    r = random.Random(case['seed'])
    ref = ctx.ask(f'f.geo 0 1 inf * | {wire}')
    refd = {}
    for tok in ref.split():
        a, vs = tok.split('=')
        for b, v in zip(sid, vs.split(',')):
            refd[(int(a), b)] = v
    pairs = list(itertools.product(ids, ids))
    if len(pairs) > 40:
        pairs = r.sample(pairs, 40) + [(i, i) for i in r.sample(ids, 2)]
    forms = ['int', 'np', 'list', 'nl']
    for (a, b) in pairs:
        form = r.choice(forms)
        try:
            if form == 'int':
                d = navis.dist_between(x, int(a), int(b))
            elif form == 'np':
                d = navis.dist_between(x, np.int64(a), np.int64(b))
            elif form == 'list':
                d = navis.dist_between(x, [int(a)], np.array([b]))
            else:
                d = navis.dist_between(navis.NeuronList([x]), int(a), int(b))
            ctx.defn(fmt(d), refd[(a, b)], f'dist_between({a},{b}) [{form}] vs definition {tag}', case)
            ctx.count('dist_between', 'inf' if refd[(a, b)] == 'inf' else ('self' if a == b else 'finite'))
        except Exception as e:
            ctx.oracle(False, f'dist_between({a},{b}) [{form}] raised {type(e).__name__}: {str(e)[:60]} (the distance is {refd[(a, b)]}) {tag}', case)
    # --- distal_to in all its forms
    dirm = ctx.ask(f'f.geo 1 0 inf * | {wire}')
    dd = {}
    for tok in dirm.split():
        a, vs = tok.split('=')
        for b, v in zip(sid, vs.split(',')):
            dd[(int(a), b)] = v != 'inf'

    def pick(kind):
        if kind == 'none':
            return None, '*', ids
        if kind == 'scalar':
            i = r.choice(ids)
            return int(i), f's:{i}', [i]
        if kind == 'npscalar':
            i = r.choice(ids)
            return np.int64(i), f's:{i}', [i]
        l = [r.choice(ids) for _ in range(r.randint(1, min(5, len(ids) + 1)))]
        if kind == 'array':
            return np.array(l, dtype=np.int64), 'l:' + ints(l), sorted(set(l))
        return l, 'l:' + ints(l), sorted(set(l))
    for _ in range(4):
        ka, kb = r.choice(['none', 'scalar', 'npscalar', 'list', 'array']), r.choice(['none', 'scalar', 'npscalar', 'list', 'array'])
        A, wa, ua = pick(ka)
        B, wb, ub = pick(kb)
        if r.random() < 0.25 and ka != 'none':     # a node against itself / the same list on both sides
            B, wb, ub, kb = A, wa, ua, ka
        mdl = ctx.ask(f'c05x.distal {wa} ; {wb} | {wire}')
        what = f'distal_to(a={ka}, b={kb}) {tag}'
        ctx.count('distal_forms', f'{ka}x{kb}')
        try:
            df = navis.distal_to(x, A, B)
        except Exception as e:
            ctx.oracle(False, f'{what} raised {type(e).__name__}: {str(e)[:80]}', case)
            continue
        if isinstance(df, (bool, np.bool_)):
            ctx.oracle(len(ua) == 1 and len(ub) == 1, f'{what} returned a scalar for a {len(ua)}x{len(ub)} query', case)
            ctx.oracle(bool(df) == dd[(ua[0], ub[0])], f'{what}: {ua[0]} distal to {ub[0]} is {bool(df)}, definition says {dd[(ua[0], ub[0])]}', case)
            ctx.corr(f'S:{int(bool(df))}', mdl, f'{what} vs as-written model', case)
            if ua[0] == ub[0]:
                ctx.count('distal_self', str(bool(df)))
        else:
            ok = sorted(df.index.tolist()) == sorted(ua) and sorted(df.columns.tolist()) == sorted(ub)
            ctx.oracle(ok, f'{what}: rows/columns are not labelled by the requested node ids (each once)', case)
            if ok:
                bad = [(a, b) for a in ua for b in ub if bool(df.loc[a, b]) != dd[(a, b)]]
                ctx.oracle(not bad, f'{what} disagrees with "b lies on a\'s path to the root" at {bad[:3]}', case)
                if mdl.startswith('S:') or mdl == 'BAD-OP':
                    ctx.corr('matrix', mdl, f'{what} vs as-written model', case)
                else:
                    rws, cls, body = parse_lmat(mdl)
                    ctx.corr(canon_bool(df), body, f'{what} vs as-written model', case)
                    ctx.count('label_order_as_modelled', (df.index.tolist(), df.columns.tolist()) == (rws, cls))
    # --- dist_to_root: weight x igraph_indices
    for w in (0, 1):
        for ix in (0, 1):
            try:
                d = navis.graph.dist_to_root(x, weight='weight' if w else None, igraph_indices=bool(ix))
                impl = ' '.join(f'{int(k)}={fmt(v)}' for k, v in sorted((int(k), v) for k, v in d.items()))
                ctx.corr(impl, ctx.ask(f'c05x.distroot {w} {ix} | {wire}'), f'dist_to_root(weight={w}, igraph_indices={ix}) vs as-written model {tag}', case)
                if not ix:
                    ctx.defn(impl, ctx.ask(f'f.distroot {w} | {wire}'), f'dist_to_root(weight={w}) vs definition {tag}', case)
                else:
                    pos = {int(i): k for k, i in enumerate(x.nodes.node_id.values)}
                    dr = dict(t.split('=') for t in ctx.ask(f'f.distroot {w} | {wire}').split())
                    want = ' '.join(f'{k}={v}' for k, v in sorted((pos[int(i)], v) for i, v in dr.items()))
                    ctx.defn(impl, want, f'dist_to_root(weight={w}, igraph_indices=True) vs definition under row positions {tag}', case)
            except Exception as e:
                ctx.oracle(False, f'dist_to_root(weight={w}, igraph_indices={ix}) raised {type(e).__name__}: {str(e)[:80]} {tag}', case)


# ================================================================================================ adjx
SIG_ADJ_MULTIROOT = 'x.adjacency_matrix/sort=True/multi-root/ValueError'


def adj_rel(adj):
    return ' '.join(f'{int(a)}>{int(b)}' for a in sorted(adj.index) for b in sorted(adj.columns) if bool(adj.loc[a, b]))


def case_adjx(ctx, case, be=None):
    rows = case['rows']
    x = build(case)
    wire = G.wire_neuron(x, labels=False)
    ids = [r['id'] for r in rows]
    tag = f'[{be}]' if be else ''
    want = ctx.ask('f.adj ' + wire)
    nroots = sum(1 for r in rows if r['parent'] < 0)
    # sort=False through the as-written model
    try:
        target = navis.NeuronList([x]) if case.get('wrap') == 'list' else x
        adj = GU.skeleton_adjacency_matrix(target, sort=False)
        ok = adj.index.tolist() == adj.columns.tolist() and sorted(adj.index.tolist()) == sorted(ids)
        ctx.oracle(ok, f'skeleton_adjacency_matrix(sort=False): rows/columns are not labelled by the node ids (each once, same order) {tag}', case)
        ctx.defn(adj_rel(adj), want, f'skeleton_adjacency_matrix(sort=False) vs parent relation {tag}', case)
        mw = ctx.ask('c05x.adjw ' + wire)
        if mw.startswith('ERR') or mw == 'BAD-OP':
            ctx.corr(adj_rel(adj), mw, f'skeleton_adjacency_matrix(sort=False) vs as-written model {tag}', case)
        else:
            rws, cls, body = parse_lmat(mw)
            ctx.corr(adj_rel(adj), body, f'skeleton_adjacency_matrix(sort=False) vs as-written model {tag}', case)
            ctx.count('label_order_as_modelled', (adj.index.tolist(), adj.columns.tolist()) == (rws, cls))
        ctx.oracle(int(adj.values.sum()) == sum(1 for r in rows if r['parent'] >= 0),
                   f'skeleton_adjacency_matrix(sort=False): number of True entries is not the number of edges {tag}', case)
    except Exception as e:
        ctx.oracle(False, f'skeleton_adjacency_matrix(sort=False) raised {type(e).__name__}: {str(e)[:80]} {tag}', case)
    # sort=True: the cached view and the function default
    for how in ('prop', 'func'):
        # forests too (regression: node_label_sorting used to refuse multi-root skeletons)
        try:
            adj = x.adjacency_matrix if how == 'prop' else GU.skeleton_adjacency_matrix(x)
        except Exception as e:
            ctx.oracle(False, f'adjacency matrix (sort=True, {how}) raised {type(e).__name__}: {str(e)[:60]} on a skeleton with {"several roots" if nroots > 1 else "one root"} {tag}',
                       case, signature=SIG_ADJ_MULTIROOT if (nroots > 1 and isinstance(e, ValueError) and 'multi-root' in str(e)) else None)
            ctx.count('adj_sorted', f'{how}:raises' + (':multi-root' if nroots > 1 else ''))
            continue
        ctx.count('adj_sorted', f'{how}:ok' + (':multi-root' if nroots > 1 else ''))
        ok = adj.index.tolist() == adj.columns.tolist() and sorted(int(v) for v in adj.index.tolist()) == sorted(ids)
        ctx.oracle(ok, f'adjacency matrix (sort=True, {how}): rows/columns are not labelled by the node ids (each once, same order) {tag}', case)
        if ok:
            ctx.defn(adj_rel(adj), want, f'adjacency matrix (sort=True, {how}) vs parent relation {tag}', case)
    if case.get('wrap') == 'list':
        try:
            GU.skeleton_adjacency_matrix(navis.NeuronList([x, x.copy()]), sort=False)
            ctx.oracle(False, f'skeleton_adjacency_matrix(NeuronList of 2) did not raise {tag}', case)
        except ValueError:
            pass
        except Exception as e:
            ctx.oracle(False, f'skeleton_adjacency_matrix(NeuronList of 2) raised {type(e).__name__} {tag}', case)


# ================================================================================================ cablex
def case_cablex(ctx, case, be=None):
    rows = case['rows']
    x = build(case)
    wire = G.wire_neuron(x, labels=False)
    tag = f'[{be}]' if be else ''
    r = random.Random(case['seed'])
    PD = navis.morpho.mmetrics.parent_dist
    for rd, rw in ((0, '0'), (None, 'nan'), (7, '7')):
        for inp in ('neuron', 'table'):
            if inp == 'table' and navis.utils.fastcore:
                continue          # the accelerator branch reads x.nodes: a bare table is only accepted by the numpy branch
            try:
                w = PD(x if inp == 'neuron' else x.nodes, root_dist=rd)
                impl = ','.join('nan' if (v is None or np.isnan(v)) else fmt(v) for v in w)
                ctx.corr(impl, ctx.ask(f'c05x.pdist {rw} | {wire}'), f'parent_dist({inp}, root_dist={rd}) vs as-written model {tag}', case)
                if rd == 0:
                    ctx.defn(fmt(np.sum(w)), ctx.ask('f.cable ' + wire), f'sum(parent_dist(root_dist=0)) vs cable length {tag}', case)
            except Exception as e:
                ctx.oracle(False, f'parent_dist({inp}, root_dist={rd}) raised {type(e).__name__}: {str(e)[:80]} {tag}', case)
    n = len(rows)
    masks = [[True] * n, [r.random() < 0.6 for _ in range(n)], [r.random() < 0.3 for _ in range(n)], [False] * n]
    for mk in masks:
        bits = ''.join('1' if b else '0' for b in mk)
        want = ctx.ask(f'c05x.cablemask {bits} | {wire}')
        for form in ('array', 'callable'):
            try:
                arr = np.array(mk, dtype=bool)
                cl = navis.morpho.cable_length(x, mask=arr if form == 'array' else (lambda nodes, a=arr: a))
                ctx.corr(fmt(cl), want, f'cable_length(mask={form}, {sum(mk)}/{n} rows) vs as-written model {tag}', case)
                if all(mk):
                    ctx.defn(fmt(cl), ctx.ask('f.cable ' + wire), f'cable_length(mask=all) vs cable length {tag}', case)
                ctx.count('cable_mask', 'all' if all(mk) else ('none' if not any(mk) else 'some'))
            except Exception as e:
                ctx.oracle(False, f'cable_length(mask={form}) raised {type(e).__name__}: {str(e)[:80]} {tag}', case)
    # NeuronList: one value per neuron; units: the magnitude is in the neuron's own units
    try:
        y = G.to_neuron(rows[:max(1, n // 2)] if False else rows, units='8 nm')
        nl = navis.NeuronList([x, y])
        cls = nl.cable_length
        want = ctx.ask('f.cable ' + wire)
        ctx.defn([fmt(v) for v in cls], [want, want], f'NeuronList.cable_length vs cable length per neuron {tag}', case)
        ctx.defn(fmt(navis.morpho.cable_length(x)), want, f'morpho.cable_length vs cable length {tag}', case)
    except Exception as e:
        ctx.oracle(False, f'NeuronList.cable_length raised {type(e).__name__}: {str(e)[:80]} {tag}', case)


# ================================================================================================ hist
def observe(ctx, x, case, be, step):
    tag = f'[{be}]' if be else ''
    wire = G.wire_neuron(x, labels=False)
    if not wire.strip():
        return
    if not integer_edges(ctx, wire):
        ctx.count('hist_skipped', 'non-integer edge')
        return
    w = f'after step {step} {tag}'
    try:
        ctx.defn(canon_matrix(navis.geodesic_matrix(x)), ctx.ask(f'f.geo 0 1 inf * | {wire}'), f'geodesic_matrix {w}', case)
        ctx.defn(canon_matrix(x.geodesic_matrix), ctx.ask(f'f.geo 0 1 inf * | {wire}'), f'x.geodesic_matrix (cached view) {w}', case)
        ctx.defn(canon_matrix(navis.geodesic_matrix(x, directed=True, weight=None)), ctx.ask(f'f.geo 1 0 inf * | {wire}'), f'geodesic_matrix(directed, unweighted) {w}', case)
        d = navis.graph.dist_to_root(x, weight='weight')
        ctx.defn(' '.join(f'{int(i)}={fmt(v)}' for i, v in sorted((int(k), v) for k, v in d.items())), ctx.ask(f'f.distroot 1 | {wire}'), f'dist_to_root {w}', case)
        ctx.defn(fmt(x.cable_length), ctx.ask('f.cable ' + wire), f'cable_length {w}', case)
        ss = x.small_segments
        ctx.defn(canon_segs(ss), ctx.ask('f.smallsegs ' + wire), f'small_segments {w}', case)
        for wt in (0, 1):
            segs = x.segments if wt == 0 else GU._generate_segments(x, weight='weight')
            segs = [[int(v) for v in s] for s in segs]
            ctx.oracle(ctx.ask(f'f.segsok {wt} | {wire} | {segs_wire(segs)}') == '1', f'segments(weighted={wt}) fail the checker {w}', case)
            if wt == 1:
                compare_segments(ctx, x, wire, 1, segs, case, w)
                got = ','.join(fmt(navis.segment_length(x, s)) if len(s) > 1 else '0' for s in segs)
                ctx.defn(got, ctx.ask(f'c05x.seglen 1 | {wire} | {segs_wire(segs)}'), f'segment_length of every segment {w}', case)
        ctx.defn(adj_rel(x.adjacency_matrix), ctx.ask('f.adj ' + wire), f'x.adjacency_matrix {w}', case)
        adj = GU.skeleton_adjacency_matrix(x, sort=False)
        ctx.defn(adj_rel(adj), ctx.ask('f.adj ' + wire), f'skeleton_adjacency_matrix(sort=False) {w}', case)
        ids = [int(i) for i in x.nodes.node_id.values]
        a, b = ids[0], ids[-1]
        ref = dict(t.split('=') for t in ctx.ask(f'f.geo 0 1 inf {a} | {wire}').split())
        ctx.defn(fmt(navis.dist_between(x, a, b)), ref[str(a)].split(',')[sorted(ids).index(b)], f'dist_between({a},{b}) {w}', case)
    except Exception as e:
        ctx.oracle(False, f'an observable raised {type(e).__name__}: {str(e)[:100]} {w}', case)


def case_hist(ctx, case, be=None):
    x = build(case)
    r = random.Random(case['seed'])
    observe(ctx, x, case, be, 0)
    for step in range(1, case['steps'] + 1):
        warm_up(x)
        ids = [int(i) for i in x.nodes.node_id.values]
        if not ids:
            break
        nonroot = [int(i) for i, p in zip(x.nodes.node_id.values, x.nodes.parent_id.values) if p >= 0]
        op = r.choice(case['ops'])
        try:
            if op == 'reroot':
                navis.reroot_skeleton(x, r.choice(ids), inplace=True)
            elif op == 'reroot_copy':
                x = navis.reroot_skeleton(x, r.choice(ids))
            elif op == 'reroot_attr':
                x.reroot(r.choice(ids), inplace=True)
            elif op == 'subset':
                keep = r.sample(ids, r.randint(max(1, len(ids) // 2), len(ids)))
                navis.subset_neuron(x, keep, inplace=True)
            elif op == 'subset_copy':
                keep = r.sample(ids, r.randint(max(1, len(ids) // 2), len(ids)))
                x = navis.subset_neuron(x, keep)
            elif op == 'cut' and nonroot:
                pcs = navis.cut_skeleton(x, r.choice(nonroot))
                x = pcs[r.randrange(len(pcs))]
            elif op == 'prune_twigs':
                x = navis.prune_twigs(x, r.choice([1, 3, 5, 9]))
            elif op == 'prune_twigs_inplace':
                navis.prune_twigs(x, r.choice([1, 3, 5, 9]), inplace=True)
            elif op == 'mul':
                x = x * r.choice([2, 3])
            elif op == 'imul':
                x *= 2
            elif op == 'setnodes':
                rows2, _ = G.rand_forest(r, nmax=10)
                x.nodes = G.rows_to_df(rows2)
            elif op == 'copy':
                x = x.copy()
            else:
                continue
        except Exception as e:
            ctx.count('hist_op_error', f'{op}:{type(e).__name__}')
            continue
        ctx.count('hist_op', op)
        if len(x.nodes) == 0:
            break
        observe(ctx, x, case, be, f'{step}:{op}')


HIST_OPS = ['reroot', 'reroot_copy', 'reroot_attr', 'subset', 'subset_copy', 'cut', 'prune_twigs', 'prune_twigs_inplace', 'mul', 'imul', 'setnodes', 'copy']


# ================================================================================================ segx
SIG_NL_RAGGED = 'NeuronList.segments/equal-number-of-segments/ragged-np.array-ValueError'


def case_segx(ctx, case, be=None):
    rows = case['rows']
    x = build(case)
    wire = G.wire_neuron(x, labels=False)
    tag = f'[{be}]' if be else ''
    if case.get('warmseg'):
        warm_up(x)
    try:
        for name, segs in (('segments', x.segments), ('small_segments', x.small_segments)):
            segs = [[int(v) for v in s] for s in segs]
            multi = [s for s in segs if len(s) > 1]
            if not multi:
                continue
            want = ctx.ask(f'c05x.seglen 1 | {wire} | {segs_wire(multi)}')
            got = ','.join(fmt(navis.segment_length(x, s)) for s in multi)
            ctx.defn(got, want, f'segment_length of every segment of x.{name} vs sum of its child-parent distances {tag}', case)
            ctx.oracle('ERR' not in want, f'x.{name} contains a consecutive pair that is not a child->parent edge {tag}', case)
            ctx.defn(fmt(sum(navis.segment_length(x, s) for s in multi)), ctx.ask('f.cable ' + wire), f'segment lengths of x.{name} add up to the cable length {tag}', case)
        for w in (0, 1):
            segs, lens = GU._generate_segments(x, weight='weight' if w else None, return_lengths=True)
            segs = [[int(v) for v in s] for s in segs]
            want = ctx.ask(f'c05x.seglen {w} | {wire} | {segs_wire(segs)}')
            ctx.oracle('ERR' not in want, f'_generate_segments(weighted={w}) contains a non-edge {tag}', case)
            if 'ERR' not in want:
                wl = sorted((int(v) for v in want.split(',')), reverse=True) if want else []
                gl = sorted((int(round(abs(float(v)))) for v in lens), reverse=True)
                ctx.defn(gl, wl, f'_generate_segments(weighted={w}, return_lengths=True): lengths are not the segments\' lengths {tag}', case)
                ctx.oracle(all(float(a) >= float(b) for a, b in zip(list(lens)[:-1], list(lens)[1:])), f'_generate_segments(weighted={w}, return_lengths=True): lengths not sorted longest first {tag}', case)
        # NeuronList inputs: one result per neuron, each equal to the single-neuron result
        y = G.to_neuron(rows[::-1])
        nl = navis.NeuronList([x, y])
        wy = G.wire_neuron(y, labels=False)
        bs = GU._break_segments(nl)
        ctx.defn([canon_segs(s) for s in bs], [ctx.ask('f.smallsegs ' + wire), ctx.ask('f.smallsegs ' + wy)], f'_break_segments(NeuronList) vs definition per neuron {tag}', case)
        gs = GU._generate_segments(nl, weight='weight')
        for s, wr in zip(gs, (wire, wy)):
            s = [[int(v) for v in q] for q in s]
            ctx.oracle(ctx.ask(f'f.segsok 1 | {wr} | {segs_wire(s)}') == '1', f'_generate_segments(NeuronList) fails the checker {tag}', case)
        for attr in ('segments', 'small_segments'):
            try:
                vals = getattr(nl, attr)
            except ValueError as e:
                # regression: np.array(list of per-neuron lists) in NeuronList.__getattr__ used to raise when ragged at the second level
                same = len({len(getattr(n, attr)) for n in nl}) == 1
                ctx.oracle(False, f'NeuronList.{attr} raised ValueError: {str(e)[:60]} {tag}', case,
                           signature=SIG_NL_RAGGED if (same and 'inhomogeneous' in str(e)) else None)
                continue
            ctx.oracle(len(vals) == 2, f'NeuronList.{attr} does not hold one entry per neuron {tag}', case)
            for s, wr in zip(vals, (wire, wy)):
                s = [[int(v) for v in q] for q in s]
                if attr == 'segments':
                    ctx.oracle(ctx.ask(f'f.segsok 0 | {wr} | {segs_wire(s)}') == '1', f'NeuronList.segments fails the checker {tag}', case)
                else:
                    ctx.defn(canon_segs(s), ctx.ask('f.smallsegs ' + wr), f'NeuronList.small_segments vs definition per neuron {tag}', case)
    except Exception as e:
        ctx.oracle(False, f'segment query raised {type(e).__name__}: {str(e)[:100]} {tag}', case)


# ================================================================================================ mesh
def strip_mesh(n, dx=3, dy=4):
    """2 x (n+1) grid of vertices, every cell split by the same diagonal: edge lengths dx, dy, hypot (3-4-5 multiples)."""
    v = []
    for i in range(n + 1):
        v.append([i * dx, 0, 0]); v.append([i * dx, dy, 0])
    f = []
    for i in range(n):
        a, b, c, d = 2 * i, 2 * i + 1, 2 * i + 2, 2 * i + 3
        f.append([a, c, b]); f.append([c, d, b])
    return np.array(v, float), np.array(f)


def case_mesh(ctx, case, be=None):
    import trimesh
    tag = f'[{be}]' if be else ''
    r = random.Random(case['seed'])
    v, f = strip_mesh(case['cells'], case['dx'], case['dy'])
    if case.get('island'):          # a second, disconnected strip
        v2, f2 = strip_mesh(1, case['dx'], case['dy'])
        f = np.vstack([f, f2 + len(v)]); v = np.vstack([v, v2 + [0, 40, 0]])
    m = navis.MeshNeuron(trimesh.Trimesh(v, f, process=False), units='1 nm')
    nv = len(v)
    eu, el = m.trimesh.edges_unique, m.trimesh.edges_unique_length
    ok = all(abs(l - round(l)) < 1e-9 for l in el)
    if not ok:
        return
    weighted = case['weighted']
    ew = ' '.join(f'{int(a)}:{int(b)}:{int(round(l)) if weighted else 1}' for (a, b), l in zip(eu, el))
    fr = case['from']
    lim = case['limit']
    kw = dict(weight='weight' if weighted else None)
    if fr is not None:
        kw['from_'] = fr
    if lim is not None:
        kw['limit'] = lim
    if case.get('directed'):
        kw['directed'] = True       # makes no sense for meshes: must be ignored
    try:
        gm = navis.geodesic_matrix(m, **kw)
        ok = sorted(gm.columns.tolist()) == list(range(nv)) and sorted(gm.index.tolist()) == (sorted(set(fr)) if fr is not None else list(range(nv)))
        ctx.oracle(ok, f'geodesic_matrix(MeshNeuron): rows/columns are not labelled by vertex index {tag}', case)
        frw = '*' if fr is None else 'l:' + ints(fr)
        want = ctx.ask(f"c05x.meshgeo {nv} {'npinf' if lim is None else lim} {frw} | {ew}")
        ctx.defn(canon_matrix(gm), want, f'geodesic_matrix(MeshNeuron, weight={weighted}, limit={lim}, from_={"yes" if fr else "no"}) vs shortest paths on the edge graph {tag}', case)
        ctx.count('mesh', f'w{int(weighted)}l{"y" if lim is not None else "n"}f{"y" if fr else "n"}')
    except Exception as e:
        ctx.oracle(False, f'geodesic_matrix(MeshNeuron) raised {type(e).__name__}: {str(e)[:100]} {tag}', case)


# ================================================================================================ dtype
SIG_FC_INT_OVERFLOW = 'navis-fastcore parent_dist/integer coordinate columns/squared coordinate difference overflows the column dtype'
# what remains after the repair (ece9888): the compiled parent_dist returns float32 whatever it is handed
SIG_FC_F32 = 'navis-fastcore parent_dist/float32 result/lengths or sums that need more than 24 significant bits'

DT_MAX = {'uint8': 2 ** 8 - 1, 'uint16': 2 ** 16 - 1, 'int16': 2 ** 15 - 1, 'uint32': 2 ** 32 - 1, 'int32': 2 ** 31 - 1, 'int64': 2 ** 63 - 1}
# integer-length edge vectors per regime: (vector, length)
DT_SMALL = [((1, 0, 0), 1), ((2, 0, 0), 2), ((1, 2, 2), 3), ((3, 4, 0), 5), ((2, 3, 6), 7), ((0, 0, 0), 0)]
DT_BIG = {'uint8': [((30, 40, 0), 50), ((20, 0, 0), 20), ((12, 16, 0), 20)],
          'uint16': [((300, 400, 0), 500), ((256, 0, 0), 256), ((200, 200, 100), 300), ((3, 4, 0), 5)],
          'int16': [((300, 400, 0), 500), ((182, 0, 0), 182), ((120, 120, 60), 180), ((3, 4, 0), 5)],
          'uint32': [((70000, 0, 0), 70000), ((60000, 80000, 0), 100000), ((46341, 0, 0), 46341), ((3, 4, 0), 5)],
          'int32': [((50000, 0, 0), 50000), ((30000, 40000, 0), 50000), ((46341, 0, 0), 46341), ((46340, 0, 0), 46340), ((3, 4, 0), 5)],
          'int64': [((70000, 0, 0), 70000), ((3000000000, 4000000000, 0), 5000000000), ((3, 4, 0), 5)]}


def gen_dtype(r):
    """A small forest whose coordinates fit the chosen integer dtype; regime 'big': some squared coordinate differences exceed the
    dtype's range.  Signs are random, so unsigned tables contain children whose coordinate is smaller than the parent's."""
    dt = r.choice(['uint8', 'uint16', 'int16', 'uint32', 'int32', 'int64'])
    regime = r.choice(['small', 'big', 'big'])
    vecs = DT_SMALL if regime == 'small' else DT_BIG[dt]
    unsigned = dt.startswith('u')
    hi = DT_MAX[dt]
    lo = 0 if unsigned else -hi
    for _ in range(50):
        n = r.randint(2, 8)
        par = [-1] + [r.randrange(i) if r.random() < 0.85 else -1 for i in range(1, n)]
        mid = (hi + lo) // 2 if hi < 2 ** 40 else 0
        pos = []
        ok = True
        for i in range(n):
            if par[i] < 0:
                span = min(hi - mid, 1000)
                pos.append([mid + r.randint(-span // 2, span // 2) for _ in range(3)])
            else:
                v, _ = r.choice(vecs)
                v = list(v); r.shuffle(v)
                v = [c * r.choice((-1, 1)) for c in v]
                pos.append([pos[par[i]][k] + v[k] for k in range(3)])
            if any(c < lo or c > hi for c in pos[-1]):
                ok = False
                break
        if not ok:
            continue
        ids = r.sample(range(0, 3 * n + 2), n)
        rows = [dict(id=ids[i], parent=(ids[par[i]] if par[i] >= 0 else -1), x=pos[i][0], y=pos[i][1], z=pos[i][2]) for i in range(n)]
        if r.random() < 0.5:
            r.shuffle(rows)
        return dict(rows=rows, dtype=dt, regime=regime, meta=dict(shape='dtype', n=n, labeling='sparse', order='mixed'))
    rows = [dict(id=1, parent=-1, x=5, y=0, z=0), dict(id=2, parent=1, x=3, y=0, z=0)]
    return dict(rows=rows, dtype=dt, regime='small', meta=dict(shape='dtype', n=2, labeling='seq', order='parent_first'))


def square_overflow(rows, dt):
    """Does the sum of the squared coordinate differences of some edge exceed the range of the column dtype?"""
    byid = {r['id']: r for r in rows}
    for r in rows:
        if r['parent'] >= 0:
            p = byid[r['parent']]
            if sum((r[c] - p[c]) ** 2 for c in 'xyz') > DT_MAX[dt]:
                return True
    return False


def needs_more_than_f32(rows):
    """Is some edge length, or the total cable, at least 2^24 (the integers float32 represents exactly end there)?"""
    byid = {r['id']: r for r in rows}
    tot = 0
    for r in rows:
        if r['parent'] >= 0:
            p = byid[r['parent']]
            ln = math.isqrt(sum((r[c] - p[c]) ** 2 for c in 'xyz'))
            tot += ln
            if ln >= 2 ** 24:
                return True
    return tot >= 2 ** 24


def to_neuron_dtype(rows, dt):
    df = G.rows_to_df(rows)
    for c in ('x', 'y', 'z'):
        df[c] = np.array([r[c] for r in rows], dtype=np.int64).astype(getattr(np, dt))
    return navis.TreeNeuron(df, units='1 nm')


def case_dtype(ctx, case, be=None):
    rows, dt = case['rows'], case['dtype']
    tag = f'[{be}]' if be else ''
    x = to_neuron_dtype(rows, dt)
    if str(x.nodes.x.dtype) != dt:
        ctx.count('dtype_kept', f'{dt}->{x.nodes.x.dtype}')
    wire = G.wire_rows(rows)
    assert integer_edges(ctx, wire), 'generator produced a non-integer edge length'
    ids = [r['id'] for r in rows]
    sid = sorted(ids)
    ovf = square_overflow(rows, dt)
    # values that come from navis-fastcore when it is active.  Since ece9888 it is handed float coordinates (no overflow in the
    # column dtype any more: no signature for that); its parent_dist still returns float32, so edge lengths / sums of at least
    # 2^24 are rounded there while the graph-based paths keep float64
    fsig = SIG_FC_F32 if (navis.utils.fastcore and needs_more_than_f32(rows)) else None
    ctx.count('dtype', f'{dt}/{case["regime"]}/{"overflow" if ovf else "fits"}')
    w = f'(x/y/z columns {dt}) {tag}'
    cable = ctx.ask('f.cable ' + wire)
    # --- graph based (networkx / igraph graphs built by navis): right on every back-end
    try:
        d = navis.graph.dist_to_root(x, weight='weight')
        ctx.defn(' '.join(f'{i}={fmt(d[i])}' for i in sid), ctx.ask(f'f.distroot 1 | {wire}'), f'dist_to_root(weight) {w}', case)
        ss = [[int(v) for v in s] for s in x.small_segments]
        ctx.defn(canon_segs(ss), ctx.ask('f.smallsegs ' + wire), f'small_segments {w}', case)
        if ss:
            got = ','.join(fmt(navis.segment_length(x, s)) for s in ss)
            ctx.defn(got, ctx.ask(f'c05x.seglen 1 | {wire} | {segs_wire(ss)}'), f'segment_length of every small segment {w}', case)
        ref = {}
        for tok in ctx.ask(f'f.geo 0 1 inf * | {wire}').split():
            a, vs = tok.split('=')
            for b, v in zip(sid, vs.split(',')):
                ref[(int(a), b)] = v
        for a, b in [(ids[0], ids[-1]), (ids[-1], ids[0]), (ids[len(ids) // 2], ids[0])]:
            ctx.defn(fmt(navis.dist_between(x, a, b)), ref[(a, b)], f'dist_between({a},{b}) {w}', case)
        gw = sum(wt for _, _, wt in x.graph.edges(data='weight'))
        ctx.defn(fmt(gw), cable, f'sum of the networkx edge weights vs cable length {w}', case)
        if x.igraph is not None:
            ctx.defn(fmt(sum(x.igraph.es['weight'])) if x.igraph.ecount() else '0', cable, f'sum of the igraph edge weights vs cable length {w}', case)
        ctx.defn(canon_matrix(navis.geodesic_matrix(x, weight=None)), ctx.ask(f'f.geo 0 0 inf * | {wire}'), f'geodesic_matrix(weight=None) {w}', case)
    except Exception as e:
        ctx.oracle(False, f'a graph-based observable raised {type(e).__name__}: {str(e)[:80]} {w}', case)
    # --- values computed from the node table / by the accelerator
    try:
        ctx.defn(fmt(x.cable_length), cable, f'cable_length {w}', case, signature=fsig)
        ctx.defn(fmt(navis.morpho.cable_length(x, mask=np.ones(len(rows), dtype=bool))), cable, f'cable_length(mask=all) {w}', case, signature=fsig)
        pdw = navis.morpho.mmetrics.parent_dist(x, root_dist=0)
        ctx.defn(','.join(fmt(v) for v in pdw), ctx.ask(f'c05x.pdist 0 | {wire}'), f'parent_dist(root_dist=0) {w}', case, signature=fsig)
        ctx.defn(canon_matrix(navis.geodesic_matrix(x)), ctx.ask(f'f.geo 0 1 inf * | {wire}'), f'geodesic_matrix(weight) {w}', case, signature=fsig)
        ctx.defn(canon_matrix(navis.geodesic_matrix(x, directed=True, from_=ids[:2], limit=max(1, int(cable) // 2))),
                 ctx.ask(f'f.geo 1 1 {max(1, int(cable) // 2)} {",".join(map(str, sorted(set(ids[:2]))))} | {wire}'),
                 f'geodesic_matrix(weight, directed, from_, limit) {w}', case, signature=fsig)
        segs = [[int(v) for v in s] for s in GU._generate_segments(x, weight='weight')]
        ctx.oracle(ctx.ask(f'f.segsok 1 | {wire} | {segs_wire(segs)}') == '1', f'segments(weighted) fail the checker {w}', case, signature=fsig)
    except BaseException as e:      # the accelerator panics (pyo3 PanicException is a BaseException) on NaN weights
        if not (isinstance(e, Exception) or type(e).__name__ == 'PanicException'):
            raise
        ctx.oracle(False, f'a table-based observable raised {type(e).__name__}: {str(e)[:80]} {w}', case, signature=fsig)



# ================================================================================================ generators
def gen_zeroseg(r):
    """Forests in which whole segments have length 0 (coincident nodes) next to isolated nodes and ordinary branches:
    the ordering of zero-length segments / isolated nodes is free, the checker decides."""
    rows = []
    nid = itertools.count(r.choice([0, 1, 5, 100]))
    ids = []

    def add(parent, pos):
        i = next(nid) * r.choice([1, 1, 3]) if False else next(nid)
        rows.append(dict(id=i, parent=parent, x=pos[0], y=pos[1], z=pos[2]))
        return i
    for _ in range(r.randint(1, 3)):                      # isolated nodes
        add(-1, [r.randint(0, 9) * 4, 0, 0])
    for _ in range(r.randint(1, 3)):                      # trees with zero-length twigs
        p0 = [r.randint(0, 9) * 4, r.randint(0, 9) * 4, 0]
        root = add(-1, p0)
        cur, pos = root, list(p0)
        for _ in range(r.randint(0, 3)):                  # trunk, positive or zero steps
            if r.random() < 0.6:
                pos = [pos[0] + 3, pos[1] + 4, pos[2]]
            cur = add(cur, pos)
            for _ in range(r.randint(0, 2)):              # zero-length twigs hanging on the trunk
                t = add(cur, pos)
                if r.random() < 0.3:
                    add(t, pos)
                if r.random() < 0.3:
                    add(cur, [pos[0] + 3, pos[1], pos[2]])
    for _ in range(r.randint(0, 2)):
        add(-1, [0, 0, 8])
    order = r.choice(G.ORDERS)
    if order == 'reversed':
        rows = rows[::-1]
    elif order == 'shuffled':
        r.shuffle(rows)
    if r.random() < 0.5:        # relabel: shuffled / sparse ids
        old = [rw['id'] for rw in rows]
        new = r.sample(range(0, 5 * len(old) + 3), len(old))
        mp = dict(zip(old, new))
        rows = [dict(rw, id=mp[rw['id']], parent=(mp[rw['parent']] if rw['parent'] >= 0 else -1)) for rw in rows]
    return rows, dict(shape='zeroseg', n=len(rows), labeling='mixed', order=order)


FROM_KINDS = ['scalar', 'npscalar', 'list', 'list', 'tuple', 'array', 'array32', 'set', 'series']
LIMIT_KINDS = ['omit', 'npinf', 'inf', 'zero', 'num', 'float', 'npnum', 'eq', 'eq', 'str']


def gen_geox(r, rows, meta):
    ids = [rw['id'] for rw in rows]
    fk = r.choice([None] + FROM_KINDS)
    if fk is None:
        fr = None
    else:
        l = [r.choice(ids) for _ in range(r.randint(1, len(ids) + 2))] if r.random() < 0.6 else r.sample(ids, r.randint(1, len(ids)))
        if r.random() < 0.08:
            l = l + [max(ids) + 1 + r.randint(0, 5)]           # an id that is not in the table
        fr = [fk, l]
    lk = r.choice(LIMIT_KINDS)
    lim = {'omit': ['omit'], 'npinf': ['npinf'], 'inf': ['inf'], 'zero': ['num', 0], 'num': ['num', r.choice([1, 2, 3, 5, 7, 9, 11, 14, 18, 25])],
           'float': ['float', r.choice([0.0, 3.0, 7.0, 12.0])], 'npnum': ['npnum', r.choice([0, 4, 9])], 'eq': ['eq', r.randrange(50)],
           'str': ['str', r.choice([0, 3, 6, 10])]}[lk]
    units = r.choice([None, None, '8 nm', '2 nm']) if lk == 'str' else r.choice([None, None, None, '8 nm'])
    via = 'prop' if r.random() < 0.1 else 'func'
    return dict(rows=rows, directed=r.random() < 0.5, weighted=r.random() < 0.7, limit=lim, **{'from': fr}, units=units,
                wrap='list' if r.random() < 0.2 else None, via=via, pass_directed=r.random() < 0.85, pass_weight=r.random() < 0.85,
                warm=(dict(how=r.choice(['mul', 'imul', 'add']), k=2) if r.random() < 0.15 else None), meta=meta)


def gen_cases(ctx, nf=None):
    r = ctx.rng
    for k in range(nf or ctx.budget(150, 2000)):
        rows, meta = G.rand_forest(r, nmax=10 if k % 3 == 0 else 26, allow_zero_edges=(k % 7 == 0))
        ids = [rw['id'] for rw in rows]
        lim = None
        if r.random() < 0.5:
            lim = r.choice([0, 1, 2, 3, 5, 7, 9, 11, 14, 18, 25])
        fr = None
        if r.random() < 0.5:
            fr = r.sample(ids, r.randint(1, len(ids)))
            if r.random() < 0.3:
                fr = fr + fr[:1]
        warm = None
        if k % 3 == 1:
            warm = dict(how=r.choice(['mul', 'imul', 'div_mul', 'add']), k=r.choice([2, 3, 4]))
        yield ('dist', dict(rows=rows, directed=r.random() < 0.5, weighted=r.random() < 0.7, limit=lim, **{'from': fr},
                            seed=r.randrange(10 ** 9), warm=warm, meta=meta))
        yield ('segments', dict(rows=rows, warm=warm, meta=meta))
        # ---- second pass
        small, smeta = G.rand_forest(r, nmax=12, allow_zero_edges=(k % 4 == 0))
        if k % 2 == 0:
            yield ('geox', gen_geox(r, small if k % 4 == 0 else rows, smeta if k % 4 == 0 else meta))
        if k % 3 == 0:
            yield ('point', dict(rows=small, seed=r.randrange(10 ** 9), meta=smeta))
        if k % 4 == 1:
            yield ('adjx', dict(rows=small, wrap='list' if r.random() < 0.3 else None, meta=smeta))
        if k % 4 == 3:
            yield ('cablex', dict(rows=small, seed=r.randrange(10 ** 9), meta=smeta))
        if k % 5 == 0:
            yield ('hist', dict(rows=small, seed=r.randrange(10 ** 9), steps=r.randint(2, 4), ops=HIST_OPS, meta=smeta))
        if k % 5 == 2:
            yield ('segx', dict(rows=small, warmseg=r.random() < 0.5, meta=smeta))
        if k % 6 == 1:
            zr, zm = gen_zeroseg(r)
            yield ('segments', dict(rows=zr, warm=None, meta=zm))
        if k % 3 == 2:
            yield ('dtype', gen_dtype(r))
        if k % 10 == 7:
            cells = r.randint(1, 4)
            nv = 2 * (cells + 1)
            mfr = None if r.random() < 0.4 else [r.randrange(nv) for _ in range(r.randint(1, 4))]
            dx, dy = r.choice([(3, 4), (4, 3), (6, 8), (5, 12), (8, 15)])
            yield ('mesh', dict(cells=cells, dx=dx, dy=dy, weighted=r.random() < 0.7, island=r.random() < 0.3,
                                limit=r.choice([None, None, 0, 3, 5, 8, 12]), directed=r.random() < 0.3, **{'from': mfr},
                                seed=r.randrange(10 ** 9), meta=dict(shape='mesh', n=nv, labeling='index', order='index')))


def guarded(kind, fn):
    """An exception escaping from navis while the neuron under test is built / warmed up (cached views read) or from an
    unguarded call is a failing input, not an infrastructure failure."""
    def run_case(ctx, case, be=None):
        # failures carry the kind (and back-end) so that a replay file re-runs exactly this case
        case = dict(case, kind=kind, **({'be': be} if be else {}))
        try:
            return fn(ctx, case, be)
        except (AssertionError, RuntimeError, BrokenPipeError):
            raise                  # harness / driver problems stay infrastructure failures
        except BaseException as e:
            if not (isinstance(e, Exception) or type(e).__name__ == 'PanicException'):
                raise
            import traceback
            tb = traceback.extract_tb(e.__traceback__)
            where = next((f'{fr.filename.split("/navis/")[-1]}:{fr.lineno}' for fr in reversed(tb) if '/navis/' in fr.filename), '?')
            if where == '?':
                raise              # not raised inside navis: a harness bug
            ctx.oracle(False, f'{kind}: navis raised {type(e).__name__}: {str(e)[:80]} at {where} {("[" + be + "]") if be else ""}', case)
    return run_case


RUNNERS = {k: guarded(k, f) for k, f in {'dist': case_dist, 'segments': case_segments, 'geox': case_geox, 'point': case_point,
                                         'adjx': case_adjx, 'cablex': case_cablex, 'hist': case_hist, 'segx': case_segx,
                                         'mesh': case_mesh, 'dtype': case_dtype}.items()}


def exhaustive_rows(nmax, zero=False):
    """every forest shape with <= nmax nodes (parent index < child index), unit 3-4-5 steps or coincident nodes"""
    for n in range(1, nmax + 1):
        for par in itertools.product(*[range(-1, i) for i in range(n)]):
            rows = [dict(id=i, parent=par[i], x=0, y=0, z=0) for i in range(n)]
            for i in range(n):
                if par[i] >= 0:
                    p = rows[par[i]]
                    if zero and i % 2 == 0:
                        rows[i]['x'], rows[i]['y'], rows[i]['z'] = p['x'], p['y'], p['z']
                    else:
                        rows[i]['x'], rows[i]['y'], rows[i]['z'] = p['x'] + 3, p['y'] + 4 * ((i % 2) * 2 - 1), p['z']
                else:
                    rows[i]['x'] = 40 * i
            yield rows


def nontrivial(case):
    return len(case.get('rows', [])) >= 3 or case.get('cells', 0) >= 1


def run(ctx, be=None):
    ctx.extra['rule'] = ('forests from harness/gen.py with integer edge lengths (checked by the driver per case); a case = (forest, '
                         'directed, weight, limit, from_) or (forest, segments) or one of the second-pass kinds (geox: option forms; point: '
                         'dist_between / distal_to / dist_to_root forms; adjx; cablex; hist: operation history on warm caches; segx; mesh); '
                         'non-trivial when ≥ 3 nodes; limits are chosen among attainable path sums so that `distance == limit` occurs')
    import time
    timings = {}
    for kind, case in gen_cases(ctx):
        ctx.case(dict(case, kind=kind), nontrivial=nontrivial(case))
        m = case['meta']
        ctx.count('kind', kind)
        ctx.count('shape', m['shape']); ctx.count('labeling', m['labeling']); ctx.count('order', m['order'])
        t0 = time.time()
        RUNNERS[kind](ctx, case, be)
        timings[kind] = timings.get(kind, 0.0) + time.time() - t0
    ctx.extra['timings_s'] = {k: round(v, 1) for k, v in timings.items()}
    ctx.extra['streams'] = sorted(RUNNERS)
    ctx.extra['assumptions'] = ['scipy csgraph.dijkstra(limit=) / navis-fastcore / igraph / networkx shortest-path routines compute what their '
                                'documentation says (modelled, compared on every case, not verified)',
                                'node_label_sorting (the row order of sort=True) is outside the property: any permutation of the ids is accepted']
    # errors that do not depend on the forest
    x = G.to_neuron([dict(id=1, parent=-1, x=0, y=0, z=0), dict(id=2, parent=1, x=3, y=4, z=0)])
    case_geox_errors(ctx, x, dict(kind='geox_errors', rows=[]), '')
    ctx.corr(ctx.ask('c05x.shapes'), '1 1 1 1 1', 'declarative facts of the point queries / edge weights / cached views / _break_segments / adjacency', dict(kind='shapes'))
    ctx.corr(ctx.ask('c05x.sentinel -1,0,7'), 'inf,0,7', 'sentinel decoding of the fastcore branch', dict(kind='shapes'))
    if be is None:
        # the definitions must hold whichever back-end computes them: a sample under the Python paths
        from .backends import backend, available
        for b in available():
            if b == 'fastcore':
                continue
            with backend(b):
                for kind, case in gen_cases(ctx, ctx.budget(25, 400)):
                    ctx.case(dict(case, kind=kind, be=b), nontrivial=nontrivial(case))
                    ctx.count('backend_sample', b)
                    RUNNERS[kind](ctx, case, b)
        # the ordering of zero-length segments / isolated nodes is free: no alarm under any back-end
        rz = random.Random(f'zeroseg-{ctx.seed}')
        for b in available():
            with backend(b):
                for _ in range(ctx.budget(25, 300)):
                    zr, zm = gen_zeroseg(rz)
                    case = dict(rows=zr, warm=None, meta=zm)
                    ctx.case(dict(case, kind='segments', be=b), nontrivial=True)
                    RUNNERS['segments'](ctx, case, b)
        if not ctx.quick():
            # exhaustive small scope: every forest shape with <= 5 nodes (positive and coincident steps), every back-end
            for b in available():
                with backend(b):
                    for zero in (False, True):
                        for rows in exhaustive_rows(5, zero):
                            ids = [rw['id'] for rw in rows]
                            meta = dict(shape='exhaustive', n=len(rows), labeling='zero', order='parent_first')
                            c1 = dict(rows=rows, warm=None, meta=meta)
                            ctx.case(dict(c1, kind='segments', be=b), nontrivial=len(rows) >= 3)
                            RUNNERS['segments'](ctx, c1, b)
                            if not zero:
                                c2 = dict(rows=rows, directed=len(rows) % 2 == 0, weighted=True, limit=3 if len(rows) % 3 == 0 else None,
                                          **{'from': None}, seed=len(rows), warm=None, meta=meta)
                                ctx.case(dict(c2, kind='dist', be=b), nontrivial=len(rows) >= 3)
                                RUNNERS['dist'](ctx, c2, b)
                            ctx.count('exhaustive', b)


def replay(ctx, rp):
    case = rp['case']
    ctx.case(case)
    from .backends import backend
    import contextlib
    cm = backend(case['be']) if case.get('be') else contextlib.nullcontext()
    if case.get('kind') not in RUNNERS:
        with cm:
            run(ctx)
        return
    with cm:
        RUNNERS[case['kind']](ctx, {k: v for k, v in case.items() if k not in ('kind', 'be')}, case.get('be'))
