"""C05 — tree distances and segment decompositions match their definitions.

Correspondence: navis' geodesic matrices / point distances / root distances / distal-to relation /
cable length / adjacency / segments / small segments vs the Lean definitions (walk parent links, sum
integer edge lengths).  Oracle: Lean checkers `segmentsOKB` / `smallSegmentsOKB` on navis' own lists."""
import warnings, random
import numpy as np
import pandas as pd

warnings.filterwarnings('ignore')
import navis
from . import gen as G

navis.config.pbar_hide = True
navis.set_loggers('ERROR')


def fmt(v):
    if v is None:
        return 'inf'
    f = float(v)
    if np.isinf(f) or np.isnan(f):
        return 'inf'
    if f == int(f):
        return str(int(f))
    return repr(f)


def canon_matrix(df):
    rows = sorted(df.index.tolist())
    cols = sorted(df.columns.tolist())
    sub = df.loc[rows, cols].values
    return ' '.join(f"{int(r)}=" + ','.join(fmt(v) for v in sub[i]) for i, r in enumerate(rows))


def segs_wire(segs):
    return ';'.join(','.join(str(int(v)) for v in s) for s in segs)


def canon_segs(segs):
    return ';'.join(','.join(map(str, s)) for s in sorted([int(v) for v in s] for s in segs))


def build(case):
    """The neuron under test. With `warm`, it is DERIVED from a neuron whose cached views (graphs, segments,
    geodesic matrix) have been read: x = (warm x0 / k) * k ... so that stale caches surviving an operation show
    up as wrong distances on the result (k dyadic: coordinates stay exact)."""
    x = G.to_neuron(case['rows'])
    w = case.get('warm')
    if w:
        _ = x.graph; _ = x.igraph; _ = x.segments; _ = x.small_segments; _ = x.cable_length
        k = w.get('k', 2)           # integer factor: coordinates and edge lengths stay exact integers
        if w['how'] == 'mul':
            x = x * k
        elif w['how'] == 'imul':
            x *= k
        elif w['how'] == 'div_mul':
            y = x / 2
            _ = y.graph; _ = y.igraph; _ = y.segments
            x = y * (2 * k)
        elif w['how'] == 'add':
            x = x + 16
    return x


def case_dist(ctx, case, be=None):
    rows = case['rows']
    x = build(case)
    wire = G.wire_neuron(x, labels=False)
    ids = [r['id'] for r in rows]
    tag = f'[{be}]' if be else ''
    r = random.Random(case['seed'])
    # exact integer edge lengths?
    sq = ctx.ask('f.sqlens ' + wire)
    for tok in sq.split():
        i, s2, rt = tok.split(':')
        assert int(rt) * int(rt) == int(s2), 'generator produced a non-integer edge length'
    # --- geodesic matrix
    directed, weighted = case['directed'], case['weighted']
    limit = case['limit']
    from_ = case['from']
    kw = dict(directed=directed, weight='weight' if weighted else None)
    if limit is not None:
        kw['limit'] = limit
    if from_ is not None:
        kw['from_'] = from_
    sig = None
    if be == 'igraph' and all(rw['parent'] < 0 for rw in rows):
        sig = 'geodesic_matrix/igraph/no-edges'
    try:
        m = navis.geodesic_matrix(x, **kw)
        impl = canon_matrix(m)
        ok_labels = sorted(m.columns.tolist()) == sorted(ids) and sorted(m.index.tolist()) == sorted(set(from_) if from_ is not None else ids)
        ctx.oracle(ok_labels, f'geodesic_matrix: rows/columns are not labelled by node id {tag}', case, signature=sig)
        fr = '*' if from_ is None else ','.join(map(str, sorted(set(from_))))
        model = ctx.ask(f"f.geo {int(directed)} {int(weighted)} {'inf' if limit is None else limit} {fr} | {wire}")
        ctx.defn(impl, model, f'geodesic_matrix(directed={directed}, weight={weighted}, limit={limit}, from_={"yes" if from_ else "no"}) vs definition {tag}', case, signature=sig)
    except Exception as e:
        ctx.oracle(False, f'geodesic_matrix raised {type(e).__name__}: {str(e)[:100]} {tag}', case, signature=sig)
    ctx.count('geo', f'd{int(directed)}w{int(weighted)}l{"y" if limit is not None else "n"}f{"y" if from_ else "n"}')
    # --- undirected, weighted full matrix as reference for point queries
    ref = ctx.ask(f'f.geo 0 1 inf * | {wire}')
    refd = {}
    sid = sorted(ids)
    for tok in ref.split():
        a, vs = tok.split('=')
        for b, v in zip(sid, vs.split(',')):
            refd[(int(a), b)] = v
    for _ in range(3):
        a, b = r.choice(ids), r.choice(ids)
        want = refd[(a, b)]
        sig = 'dist_between/networkx/int-truncation' if be == 'networkx' else None
        try:
            d = navis.dist_between(x, a, b)
            ctx.defn(fmt(d), want, f'dist_between({a},{b}) vs definition {tag}', case, signature=sig)
        except Exception as e:
            # unreachable pairs may raise (networkx: NetworkXNoPath)
            ctx.oracle(want == 'inf', f'dist_between({a},{b}) raised {type(e).__name__} but the distance is {want} {tag}', case)
    # --- dist_to_root
    for w in (0, 1):
        try:
            d = navis.graph.dist_to_root(x, weight='weight' if w else None)
            impl = ' '.join(f'{i}={fmt(d[i])}' for i in sid)
            ctx.defn(impl, ctx.ask(f'f.distroot {w} | {wire}'), f'dist_to_root(weight={w}) vs definition {tag}', case)
        except Exception as e:
            ctx.oracle(False, f'dist_to_root raised {type(e).__name__}: {str(e)[:80]} {tag}', case)
    # --- distal_to  (a distal to b  <=>  b on a's root path)
    dirm = ctx.ask(f'f.geo 1 0 inf * | {wire}')
    dd = {}
    for tok in dirm.split():
        a, vs = tok.split('=')
        for b, v in zip(sid, vs.split(',')):
            dd[(int(a), b)] = v != 'inf'
    try:
        A = r.sample(ids, min(len(ids), 3)); B = r.sample(ids, min(len(ids), 3))
        df = navis.distal_to(x, A, B)
        if isinstance(df, (bool, np.bool_)):
            ok = bool(df) == dd[(A[0], B[0])]
        else:
            ok = all(bool(df.loc[a, b]) == dd[(a, b)] for a in A for b in B)
        ctx.oracle(ok, f'distal_to({A},{B}) disagrees with "b lies on a\'s path to the root" {tag}', case)
    except Exception as e:
        ctx.oracle(False, f'distal_to raised {type(e).__name__}: {str(e)[:80]} {tag}', case)
    # --- cable length
    try:
        ctx.defn(fmt(x.cable_length), ctx.ask('f.cable ' + wire), f'cable_length vs sum of child-parent distances {tag}', case)
    except Exception as e:
        ctx.oracle(False, f'cable_length raised {type(e).__name__}: {str(e)[:80]} {tag}', case)
    # --- adjacency matrix
    try:
        adj = navis.graph.skeleton_adjacency_matrix(x, sort=False)
        impl = ' '.join(f'{int(a)}>{int(b)}' for a in sorted(adj.index) for b in sorted(adj.columns) if bool(adj.loc[a, b]))
        ctx.defn(impl, ctx.ask('f.adj ' + wire), f'skeleton_adjacency_matrix vs parent relation {tag}', case,
                 signature='adjacency/unsorted-ids-searchsorted')
    except Exception as e:
        ctx.oracle(False, f'skeleton_adjacency_matrix raised {type(e).__name__}: {str(e)[:80]} {tag}', case,
                   signature='adjacency/readonly-assignment')


def case_segments(ctx, case, be=None):
    rows = case['rows']
    x = build(case)
    wire = G.wire_neuron(x, labels=False)
    tag = f'[{be}]' if be else ''
    # small segments: unique answer
    try:
        ss = x.small_segments
        impl = canon_segs(ss)
        ctx.defn(impl, ctx.ask('f.smallsegs ' + wire), f'small_segments vs definition {tag}', case)
        ok = ctx.ask(f'f.smallsegsok {wire} | {segs_wire(ss)}')
        ctx.oracle(ok == '1', f'small_segments do not partition the edges into leaf/branch -> branch/root paths with slabs in between {tag}', case)
    except Exception as e:
        ctx.oracle(False, f'small_segments raised {type(e).__name__}: {str(e)[:80]} {tag}', case)
    # segments (unweighted = x.segments; weighted = _generate_segments(weight='weight'))
    for w in (0, 1):
        try:
            segs = x.segments if w == 0 else navis.graph.graph_utils._generate_segments(x, weight='weight')
            segs = [[int(v) for v in s] for s in segs]
        except Exception as e:
            ctx.oracle(False, f'segments(weighted={w}) raised {type(e).__name__}: {str(e)[:80]} {tag}', case)
            continue
        ok = ctx.ask(f'f.segsok {w} | {wire} | {segs_wire(segs)}')
        ctx.oracle(ok == '1', f'segments(weighted={w}) are not an edge partition into child->parent paths, longest first, isolated nodes as '
                              f'single-node segments {tag}', case)
        model = ctx.ask(f'f.segs {w} | {wire}')
        mseg, mlen = model.split(' # ')
        lens = [int(v) for v in mlen.split(',')] if mlen.strip() else []
        # the decomposition is unique only without ties among leaf depths; compare then
        dr = ctx.ask(f'f.distroot {w} | {wire}')
        depth = {int(t.split('=')[0]): int(t.split('=')[1]) for t in dr.split()}
        pm = {rw['id']: rw['parent'] for rw in rows}
        haschild = set(pm.values())
        leaf_depths = [depth[i] for i in pm if i not in haschild and pm[i] >= 0]
        multi = [l for l in lens if l > 0]
        if len(set(leaf_depths)) == len(leaf_depths) and len(set(multi)) == len(multi):
            ctx.defn(segs_wire(segs), mseg.strip(), f'segments(weighted={w}) vs greedy-longest definition (no ties) {tag}', case)
            ctx.count('segments_unique', w)
        else:
            ctx.count('segments_ties', w)
        # segment_length of the first segment
        if w == 1 and segs and len(segs[0]) > 1:
            try:
                sl = navis.segment_length(x, segs[0])
                ctx.defn(fmt(sl), str(lens[0]) if lens else '0', f'segment_length(first segment) {tag}', case)
            except Exception as e:
                ctx.oracle(False, f'segment_length raised {type(e).__name__} {tag}', case)


def gen_cases(ctx, nf=None):
    r = ctx.rng
    for k in range(nf or ctx.budget(150, 2000)):
        rows, meta = G.rand_forest(r, nmax=10 if k % 3 == 0 else 26, allow_zero_edges=(k % 7 == 0))
        ids = [rw['id'] for rw in rows]
        lim = None
        if r.random() < 0.5:
            lim = r.choice([0, 1, 2, 3, 5, 7, 9, 11, 14, 18, 25])
        fr = None
        if r.random() < 0.5:
            fr = r.sample(ids, r.randint(1, len(ids)))
            if r.random() < 0.3:
                fr = fr + fr[:1]
        warm = None
        if k % 3 == 1:
            warm = dict(how=r.choice(['mul', 'imul', 'div_mul', 'add']), k=r.choice([2, 3, 4]))
        yield ('dist', dict(rows=rows, directed=r.random() < 0.5, weighted=r.random() < 0.7, limit=lim, **{'from': fr},
                            seed=r.randrange(10 ** 9), warm=warm, meta=meta))
        yield ('segments', dict(rows=rows, warm=warm, meta=meta))


RUNNERS = {'dist': case_dist, 'segments': case_segments}


def run(ctx, be=None):
    ctx.extra['rule'] = ('forests from harness/gen.py with integer edge lengths (checked by the driver per case); a case = (forest, '
                         'directed, weight, limit, from_) or (forest, segments); non-trivial when ≥ 3 nodes; limits are chosen among '
                         'attainable path sums so that `distance == limit` occurs')
    for kind, case in gen_cases(ctx):
        ctx.case(dict(case, kind=kind), nontrivial=len(case['rows']) >= 3)
        m = case['meta']
        ctx.count('shape', m['shape']); ctx.count('labeling', m['labeling']); ctx.count('order', m['order'])
        RUNNERS[kind](ctx, case, be)
    if be is None:
        # the definitions must hold whichever back-end computes them: a sample under the Python paths
        from .backends import backend, available
        for b in available():
            if b == 'fastcore':
                continue
            with backend(b):
                for kind, case in gen_cases(ctx, ctx.budget(25, 400)):
                    ctx.case(dict(case, kind=kind, be=b), nontrivial=len(case['rows']) >= 3)
                    ctx.count('backend_sample', b)
                    RUNNERS[kind](ctx, case, b)


def replay(ctx, rp):
    case = rp['case']
    ctx.case(case)
    from .backends import backend
    import contextlib
    cm = backend(case['be']) if case.get('be') else contextlib.nullcontext()
    with cm:
        RUNNERS[case['kind']](ctx, {k: v for k, v in case.items() if k not in ('kind', 'be')}, case.get('be'))
