"""C10 — reroot, cut and subset change the tree exactly as specified.

Correspondence: navis' node table after the operation vs the Lean model (`f.reroot`, `f.cut`,
`f.cutmany`, `f.subset`; second pass: the whole neuron state — nodes, connectors, tags, pinned soma — vs
`c10x.prune` / `c10x.cutskel` / `c10x.rerootn` / `c10x.subsetn`, see harness/c10x.py).  Oracle: the clauses of
the property evaluated directly on the implementation's output, by the proved-sound Lean checkers
`rerootOKB` / `fragsOKB` / `subsetOKB` (`c10x.rerootok` / `fragsok` / `subsetok`) and independently in Python.

`gen_cases(ctx, n)` / `RUNNERS[kind](ctx, case, be)` are also called by harness/c04.py under every back-end."""
import warnings
import numpy as np
import pandas as pd
import networkx as nx

warnings.filterwarnings('ignore')
import navis
from . import gen as G
from . import c10x as X
from .backends import backend

navis.config.pbar_hide = True
navis.set_loggers('ERROR')


def uedges_of(x):
    nd = x.nodes
    return sorted(tuple(sorted((int(i), int(p)))) for i, p in zip(nd.node_id.values, nd.parent_id.values) if p >= 0)


def coords_of(x):
    nd = x.nodes
    return {int(i): (float(a), float(b), float(c), float(r)) for i, a, b, c, r in
            zip(nd.node_id.values, nd.x.values, nd.y.values, nd.z.values, nd.radius.values)}


def parent_map(x):
    return {int(i): int(p) for i, p in zip(x.nodes.node_id.values, x.nodes.parent_id.values)}


def root_of(pm, i):
    seen = 0
    while pm.get(i, -1) >= 0 and seen <= len(pm):
        i = pm[i]; seen += 1
    return i


def ancestors(pm, i):
    out = [i]
    while pm.get(out[-1], -1) >= 0 and len(out) <= len(pm) + 1:
        out.append(pm[out[-1]])
    return out


def add_connectors(x, rng, rows):
    ids = [r['id'] for r in rows]
    k = rng.randint(0, 2 * len(ids))
    if k == 0:
        return
    cn = pd.DataFrame({'connector_id': np.arange(100, 100 + k), 'node_id': [rng.choice(ids) for _ in range(k)],
                       'type': [rng.choice(['pre', 'post']) for _ in range(k)],
                       'x': 0.0, 'y': 0.0, 'z': 0.0})
    x.connectors = cn
    x.tags = {'a': sorted(set(rng.sample(ids, min(len(ids), 2)))), 'b': [rng.choice(ids)]}


# ---------------------------------------------------------------------------------------------
def case_reroot(ctx, case, be=None):
    rows = case['rows']
    x = G.to_neuron(rows)
    targets = case['targets']
    before = dict(ids=sorted(r['id'] for r in rows), ue=uedges_of(x), co=coords_of(x), pm=parent_map(x))
    cable0 = x.cable_length
    try:
        y = navis.reroot_skeleton(x, targets if len(targets) > 1 else targets[0], inplace=False)
    except Exception as e:
        ctx.oracle(False, f'reroot_skeleton({targets}) raised {type(e).__name__}: {str(e)[:100]}', case,
                   signature=_sig_reroot(case, be, e))
        return
    ctx.count('reroot_backend', be or 'default')
    impl = G.topo_neuron(y)
    model = ctx.ask(f"f.reroot {','.join(map(str, targets))} | {G.wire_neuron(x)}")
    sig = _sig_reroot(case, be, None)
    if not ctx.corr(impl, model, f'reroot {targets}: node table vs model [{be}]', case, signature=sig):
        pass
    # --- oracle
    pm = parent_map(y)
    ok = sorted(pm) == before['ids']
    ctx.oracle(ok, f'reroot changed the node set [{be}]', case, signature=sig)
    ctx.oracle(uedges_of(y) == before['ue'], f'reroot {targets} changed the undirected edge set [{be}]', case, signature=sig)
    ctx.oracle(coords_of(y) == before['co'], f'reroot changed coordinates/radii [{be}]', case, signature=sig)
    ctx.oracle(float(y.cable_length) == float(cable0), f'reroot changed cable length {cable0} -> {y.cable_length} [{be}]', case, signature=sig)
    last = targets[-1]
    ctx.oracle(pm.get(last, 0) < 0, f'requested node {last} is not a root after reroot [{be}]', case, signature=sig)
    # other trees untouched
    touched = {root_of(before['pm'], t) for t in targets}
    for i, p in before['pm'].items():
        if root_of(before['pm'], i) not in touched:
            if pm.get(i) != p:
                ctx.oracle(False, f'reroot modified node {i} of an untouched fragment [{be}]', case, signature=sig)
                break
    w = ctx.ask('f.wf ' + G.wire_neuron(y))
    ctx.oracle(w == '1 1', f'reroot result not a well-formed, correctly labelled forest (wf labels = {w}) [{be}]', case, signature=sig)
    # input untouched
    ctx.oracle(parent_map(x) == before['pm'], 'reroot(inplace=False) modified its input', case)


def _sig_reroot(case, be, exc):
    # known defect: networkx path treats parent id 0 as "no parent"
    if be == 'networkx' and any(r['id'] == 0 for r in case['rows']):
        return 'reroot/networkx/node-id-0'
    return None


def case_cut(ctx, case, be=None):
    rows = case['rows']
    x = G.to_neuron(rows)
    if case.get('conn'):
        import random
        add_connectors(x, random.Random(case['conn']), rows)
    cuts = case['cuts']
    pm0 = parent_map(x)
    try:
        res = navis.cut_skeleton(x, cuts if len(cuts) > 1 else cuts[0])
        err = None
    except Exception as e:
        res, err = None, e
    model = ctx.ask(f"f.cutmany {','.join(map(str, cuts))} | {G.wire_neuron(x)}")
    # the model returns the fragment list; navis raises for roots / absent nodes
    any_root = any(pm0.get(c, -1) < 0 for c in cuts)
    if err is not None:
        ctx.oracle(any_root, f'cut_skeleton({cuts}) raised {type(err).__name__}: {str(err)[:100]} [{be}]', case)
        ctx.count('cut_outcome', 'raise')
        return
    ctx.count('cut_outcome', 'ok')
    impl = ' || '.join(G.topo_neuron(f) for f in res)
    ctx.corr(impl, model, f'cut {cuts}: fragments vs model [{be}]', case)
    if len(cuts) == 1:
        c = cuts[0]
        dist, prox = res[0], res[1]
        dset = {i for i in pm0 if c in ancestors(pm0, i)}
        ctx.oracle(set(parent_map(dist)) == dset, f'cut {c}: first result is not exactly the distal subtree [{be}]', case)
        ctx.oracle(set(parent_map(prox)) == (set(pm0) - dset) | {c}, f'cut {c}: proximal part wrong [{be}]', case)
        ctx.oracle(set(parent_map(dist)) & set(parent_map(prox)) == {c}, f'cut {c}: pieces share more/less than the cut node [{be}]', case)
        ue = sorted(uedges_of(dist) + uedges_of(prox))
        ctx.oracle(ue == uedges_of(x), f'cut {c}: pieces do not contain every original edge exactly once [{be}]', case)
        ctx.oracle(parent_map(dist).get(c, 0) < 0, f'cut {c}: cut node is not the root of the distal part [{be}]', case)
        if x.has_connectors:
            for piece in (dist, prox):
                want = sorted(x.connectors[x.connectors.node_id.isin(piece.nodes.node_id)].connector_id.tolist())
                got = sorted(piece.connectors.connector_id.tolist()) if piece.has_connectors else []
                ctx.oracle(got == want, f'cut {c}: connectors of a piece are not exactly those on its nodes [{be}]', case)
    else:
        # several cuts == successive single cuts (as sets of fragments)
        frags = [x]
        for c in cuts:
            k = next((i for i, f in enumerate(frags) if c in f.nodes.node_id.values), None)
            if k is None:
                continue
            f = frags.pop(k)
            if f.n_trees != 1 or c in f.root:
                frags.insert(k, f); continue
            d, p = navis.cut_skeleton(f, c)
            frags[k:k] = [d, p]
        a = sorted(G.topo_neuron(f) for f in frags)
        b = sorted(G.topo_neuron(f) for f in res)
        ctx.oracle(a == b, f'cuts {cuts}: several cuts differ from successive single cuts [{be}]', case)
    for f in res:
        w = ctx.ask('f.wf ' + G.wire_neuron(f))
        ctx.oracle(w == '1 1', f'cut piece not well-formed / mislabelled (wf labels = {w}) [{be}]', case)
    ctx.oracle(parent_map(x) == pm0, 'cut_skeleton modified its input', case)


def case_subset(ctx, case, be=None):
    import random
    rows = case['rows']
    x = G.to_neuron(rows)
    r = random.Random(case['seed'])
    add_connectors(x, r, rows)
    ids = [rw['id'] for rw in rows]
    keep = case['keep']
    form = case['form']
    pm0 = parent_map(x)
    if form == 'list':
        ss = list(keep)
    elif form == 'set':
        ss = set(keep)
    elif form == 'array':
        ss = np.array(keep, dtype=np.int64)
    elif form == 'mask':
        ss = np.array([i in set(keep) for i in x.nodes.node_id.values], dtype=bool)
    elif form == 'graph':
        ss = x.graph.subgraph(keep)
    elif form == 'df':
        ss = x.nodes[x.nodes.node_id.isin(keep)]
    if form == 'mask' and len(keep) == 0:
        pass
    try:
        y = navis.subset_neuron(x, ss, inplace=False, prevent_fragments=case.get('pf', False))
    except Exception as e:
        ctx.oracle(False, f'subset_neuron(form={form}, pf={case.get("pf")}) raised {type(e).__name__}: {str(e)[:100]} [{be}]', case)
        return
    ctx.count('subset_form', form)
    pm = parent_map(y)
    if not case.get('pf'):
        model = ctx.ask(f"f.subset {','.join(map(str, keep))} | {G.wire_neuron(x)}")
        ctx.corr(G.topo_neuron(y), model, f'subset({form}): node table vs model [{be}]', case)
        ctx.oracle(sorted(pm) == sorted(set(keep) & set(ids)), f'subset({form}) did not return exactly the requested nodes [{be}]', case)
        for i, p in pm.items():
            want = pm0[i] if (pm0[i] in pm) else -1
            if p != want and not (p < 0 and want < 0):
                ctx.oracle(False, f'subset: node {i} has parent {p}, expected {want} [{be}]', case)
                break
    else:
        # smallest connected superset (per tree): union of tree paths between requested nodes
        want = set()
        by_root = {}
        for i in keep:
            by_root.setdefault(root_of(pm0, i), []).append(i)
        for rt, grp in by_root.items():
            paths = [ancestors(pm0, i) for i in grp]
            common = set(paths[0]).intersection(*map(set, paths[1:])) if paths else set()
            # lowest common ancestor = common node with the longest root path
            lca = max(common, key=lambda n: len(ancestors(pm0, n)))
            for p in paths:
                for n in p:
                    want.add(n)
                    if n == lca:
                        break
        ctx.oracle(set(pm) == want, f'subset(prevent_fragments): got {sorted(pm)}, smallest connected superset is {sorted(want)} [{be}]', case)
        ctx.count('subset_pf', 1)
        # Lean side: the model of `connected_subgraph` (Model/ConnSub.lean) is proved to compute the smallest
        # connected superset (Props/C10: connSub_superset / connSub_connected / connSub_minimal), so a kept node
        # set that differs from it is a failing input for the property.  `BAD-OP` = command not linked yet.
        try:
            wire, ks = G.wire_neuron(x), ','.join(map(str, keep))
            ans = ctx.ask(f"cs.connsub {ks} | {wire}")
            if ans != 'BAD-OP':
                ctx.count('subset_pf_lean', 'connsub')
                same = ctx.defn(','.join(map(str, sorted(pm))), ans.split('#')[0].strip(),
                                f'subset(prevent_fragments): kept node set vs Lean connectedSubgraph [{be}]', case)
                # the kept set has one top node per tree, so the roots of the result are determined by it
                tops = sorted(i for i in pm if pm0[i] not in pm)
                if same and len(tops) == len({root_of(pm0, i) for i in pm}):
                    topo = ctx.ask(f"cs.subsetpf {ks} | {wire}")
                    if topo != 'BAD-OP':
                        ctx.count('subset_pf_lean', 'subsetpf')
                        ctx.defn(G.topo_neuron(y), topo, f'subset(prevent_fragments): node table vs Lean subsetPF [{be}]', case)
        except (ValueError, KeyError, IndexError):
            pass
    ctx.oracle(coords_of(y) == {i: v for i, v in coords_of(x).items() if i in pm}, f'subset changed coordinates of kept nodes [{be}]', case)
    if x.has_connectors:
        want = sorted(x.connectors[x.connectors.node_id.isin(list(pm))].connector_id.tolist())
        got = sorted(y.connectors.connector_id.tolist()) if y.has_connectors else []
        ctx.oracle(got == want, f'subset: connectors kept {got}, expected exactly those on surviving nodes {want} [{be}]', case)
        wt = {t: [n for n in v if n in pm] for t, v in x.tags.items()}
        wt = {t: v for t, v in wt.items() if v}
        ctx.oracle((y.tags or {}) == wt, f'subset: tags {y.tags}, expected {wt} [{be}]', case)
    w = ctx.ask('f.wf ' + G.wire_neuron(y))
    ctx.oracle(w == '1 1', f'subset result not well-formed / mislabelled (wf labels = {w}) [{be}]', case)
    ctx.oracle(parent_map(x) == pm0, 'subset_neuron(inplace=False) modified its input', case)


# ---------------------------------------------------------------------------------------------
def gen_cases(ctx, n_forests=None):
    r = ctx.rng
    nf = n_forests or ctx.budget(110, 400)
    for k in range(nf):
        rows, meta = G.rand_forest(r, nmax=10 if k % 3 == 0 else 30, allow_zero_edges=(k % 7 == 3))
        ids = [rw['id'] for rw in rows]
        pm = {rw['id']: rw['parent'] for rw in rows}
        single = sum(1 for p in pm.values() if p < 0) == 1
        # reroot: one random target + one sequence
        t = [r.choice(ids)]
        yield ('reroot', dict(rows=rows, targets=t, meta=meta))
        if len(ids) > 2:
            yield ('reroot', dict(rows=rows, targets=[r.choice(ids) for _ in range(r.randint(2, 3))], meta=meta))
        if single and len(ids) > 1:
            nonroot = [i for i in ids if pm[i] >= 0]
            yield ('cut', dict(rows=rows, cuts=[r.choice(nonroot)], conn=r.randrange(1, 10 ** 6), meta=meta))
            if len(nonroot) > 2:
                yield ('cut', dict(rows=rows, cuts=r.sample(nonroot, r.randint(2, min(4, len(nonroot)))), meta=meta))
            if r.random() < 0.1:
                yield ('cut', dict(rows=rows, cuts=[r.choice(ids)], meta=meta))
        keep = [i for i in ids if r.random() < r.choice([0.3, 0.6, 0.9])]
        form = r.choice(['list', 'set', 'array', 'mask', 'graph', 'df'])
        if keep:
            yield ('subset', dict(rows=rows, keep=keep, form=form, seed=r.randrange(10 ** 9), meta=meta))
            if r.random() < 0.5:
                yield ('subset', dict(rows=rows, keep=keep, form=r.choice(['list', 'array']), pf=True, seed=r.randrange(10 ** 9), meta=meta))
        # second pass: method forms, cut front end, every reroot entry point, every subset form (harness/c10x.py)
        yield from X.gen_for_forest(r, rows, meta, k)


def _guard(kind, fn):
    """Every runner sees (and records with its failures) the case including its `kind` (and, when called by harness/c04.py, the
    back-end and the stream), so that a replay file is self-contained; an exception escaping from the operations of a case is a
    failing input for the property (on the unchanged tree none of the generated operation sequences raises outside a `try`), not
    an infrastructure error."""
    from .common import Timeout

    def runner(ctx, case, be=None):
        c = dict(case, kind=kind) if be is None else dict(case, kind=kind, be=be, stream='c10')
        try:
            return fn(ctx, c, be)
        except (Timeout, KeyboardInterrupt, MemoryError, AssertionError):
            raise
        except RuntimeError as e:
            if 'driver' in str(e):
                raise
            ctx.oracle(False, f'{kind}: an operation of this case raised {type(e).__name__}: {str(e)[:120]} [{be}]', c)
        except Exception as e:
            ctx.oracle(False, f'{kind}: an operation of this case raised {type(e).__name__}: {str(e)[:120]} [{be}]', c)
    runner.__name__ = getattr(fn, '__name__', kind)
    return runner


RUNNERS = {'reroot': case_reroot, 'cut': case_cut, 'subset': case_subset}
RUNNERS.update(X.RUNNERS)
RUNNERS = {k: _guard(k, f) for k, f in RUNNERS.items()}
# kinds whose code path depends on the graph back-end (harness/c04.py re-runs these under every back-end)
BACKEND_STREAMS = {'reroot', 'cut', 'subset', 'prune', 'cutx', 'rerootx'}


def run(ctx, be=None):
    ctx.extra['rule'] = ('forests from harness/gen.py (13 shape classes × 6 labelings × 3 row orders, integer edge lengths, every 7th with zero-length '
                         'edges, every 9th with int32 id columns); a case = (forest, attachments (connectors, tags incl. a tag on several nodes, pinned soma), '
                         'operation, entry point, arguments); streams: reroot / cut / subset (first pass), rerootx (function / method / root setter / '
                         'NeuronList × in place or not × warm graph caches × ids / tags), cutx (ids / tags / mixed / duplicates × ret= × argument form × error '
                         'cases), prune (prune_distal_to / prune_proximal_to with 1–3 nodes as list / array / tuple / tags, in place and not), subsetx (12 subset '
                         'forms × prevent_fragments × keep_disc_cn × in place × NeuronList), misc (isolated node, leaf, TreeNeuron as subset, NeuronList + '
                         'callable), plus a fixed cross product on an 11-node tree (all ordered pairs of non-root nodes through the prune methods and '
                         'cut_skeleton, every node × 3 reroot entry points, every subset form × prevent_fragments); non-trivial when the forest has ≥ 3 '
                         'nodes; distinct by JSON digest')
    import itertools
    for kind, case in itertools.chain(X.fixed_suite(), gen_cases(ctx)):
        c = dict(case, kind=kind)
        ctx.case(c, nontrivial=len(case['rows']) >= 3)
        m = case.get('meta', {})
        ctx.count('shape', m.get('shape')); ctx.count('labeling', m.get('labeling')); ctx.count('order', m.get('order'))
        ctx.count('kind', kind)
        RUNNERS[kind](ctx, case, be)
    if be is None:
        backend_sample(ctx)
    if not ctx.quick():
        exhaustive_small(ctx)


def backend_sample(ctx):
    """C10's own sample of the non-default configurations a user may run (`navis.utils.fastcore = None`; additionally
    `navis.config.use_igraph = False`): the zero-based suite (node 0 as root / node 0 mid-path), the fixed cross product's reroots and a
    slice of the generated streams.  (harness/c04.py re-runs the full streams under every back-end.)"""
    import itertools, time
    from .backends import available
    for b in [x for x in available() if x != 'fastcore']:
        t0 = time.time()
        with backend(b):
            p = 0.08 if ctx.quick() else 0.5
            fixed = [(k, c) for k, c in X.fixed_suite() if k in ('rerootx', 'prune', 'cutx') and ctx.rng.random() < (3 * p if k == 'rerootx' else p)]
            for kind, case in itertools.chain(X.zero_suite(), fixed, gen_cases(ctx, ctx.budget(3, 40))):
                if kind not in BACKEND_STREAMS and kind != 'subsetx':
                    continue
                ctx.case(dict(case, kind=kind, be=b, stream='c10'), nontrivial=len(case['rows']) >= 3)
                ctx.count('backend_sample', f'{b}/{kind}')
                RUNNERS[kind](ctx, case, b)
        ctx.notes.append(f'back-end sample [{b}]: {round(time.time() - t0, 1)} s')


def exhaustive_small(ctx):
    """All rooted forests on ≤ 5 labelled nodes (parent functions without cycles) × every reroot target / cut node."""
    import itertools
    cnt = trees = pairs = 0
    for n in range(1, 6):
        for par in itertools.product(range(-1, n), repeat=n):
            ok = True
            for i in range(n):
                seen, j = 0, i
                while j >= 0 and seen <= n:
                    j = par[j]; seen += 1
                if seen > n or par[i] == i:
                    ok = False; break
            if not ok:
                continue
            rows = [dict(id=i + 1, parent=(par[i] + 1 if par[i] >= 0 else -1), x=3 * i, y=0, z=0) for i in range(n)]
            for t in range(1, n + 1):
                case = dict(rows=rows, targets=[t], meta=dict(shape='exh'))
                ctx.case(dict(case, kind='reroot'), nontrivial=n >= 3)
                RUNNERS['reroot'](ctx, case)
                cnt += 1
            if sum(1 for p in par if p < 0) == 1 and n > 1:
                for c in range(1, n + 1):
                    if par[c - 1] >= 0:
                        case = dict(rows=rows, cuts=[c], meta=dict(shape='exh'))
                        ctx.case(dict(case, kind='cut'), nontrivial=n >= 3)
                        RUNNERS['cut'](ctx, case)
                # second pass: every ordered pair of non-root nodes through the prune methods and cut_skeleton
                # (all trees on ≤ 4 nodes, every 16th tree on 5 nodes)
                trees += 1
                if n <= 4 or trees % 16 == 0:
                    nonroot = [c for c in range(1, n + 1) if par[c - 1] >= 0]
                    att = dict(conn=[[100 + i, i, 'pre'] for i in range(1, n + 1)], tags={'t%d' % i: [i] for i in nonroot}, soma=None)
                    for a in nonroot:
                        for b in nonroot:
                            if a == b:
                                continue
                            pairs += 1
                            for kind, case in (('prune', dict(rows=rows, att=att, which='distal', nodes=[a, b], form=['list', 'array'][pairs % 2], inplace=bool(pairs % 3 == 0), meta=dict(shape='exh'))),
                                               ('prune', dict(rows=rows, att=att, which='proximal', nodes=[a, b], form='list', inplace=False, meta=dict(shape='exh'))),
                                               ('cutx', dict(rows=rows, att=att, where=[a, b], ret='both', form='list', meta=dict(shape='exh')))):
                                ctx.case(dict(case, kind=kind), nontrivial=n >= 3)
                                RUNNERS[kind](ctx, case, None)
    ctx.extra['exhaustive_small_scope'] = (f'all forests on ≤5 labelled nodes × all reroot targets / cut nodes: {cnt} reroots; all trees on ≤4 nodes and every 16th '
                                           f'tree on 5 nodes × all ordered pairs of non-root nodes × (prune_distal_to, prune_proximal_to, cut_skeleton): {pairs} pairs')


def replay(ctx, rp):
    import contextlib
    case = rp['case']
    ctx.case(case)
    be = case.get('be')
    with (backend(be) if be else contextlib.nullcontext()):
        RUNNERS[case['kind']](ctx, {k: v for k, v in case.items() if k not in ('kind', 'be', 'stream')}, be)
