"""C09 — results independent of cores, partitioning and completion order.

Tie: (a) the job grid navis builds (recorded through a controlled executor) is compared with the
Lean model `jobs` (array_split chunks + job-local indices); (b) the matrix navis assembles from the
recorded per-job blocks, delivered in a seeded permutation, is compared with the Lean `assembleBlocks`;
(c) `find_optimal_partition` / `find_batch_partition` vs the Lean functions; (d) NeuronProcessor /
map_neuronlist vs the Lean `process`.  Oracle: forced partition × permuted completion == serial run."""
import itertools, warnings
import numpy as np
import pandas as pd

warnings.filterwarnings('ignore')
import navis
from navis.nbl import nblast_funcs as NF
from concurrent.futures import Future

navis.config.pbar_hide = True
navis.set_loggers('ERROR')


# ---------------------------------------------------------------------------------------------
def make_dps(rng, n, npts=(12, 30), id0=None):
    out = []
    ids = rng.sample(range(1, 10 ** 6), n)
    for i in range(n):
        m = rng.randint(*npts)
        pts = np.cumsum(np.array([[rng.uniform(-1, 1) for _ in range(3)] for _ in range(m)]), axis=0) * 2
        pts += np.array([rng.uniform(-5, 5) for _ in range(3)])
        dp = navis.make_dotprops(pts, k=min(5, m - 1))
        dp.units = '1 micron'
        dp.id = ids[i]
        out.append(dp)
    return navis.NeuronList(out)


class FakePool:
    """Runs every job synchronously at submit time and records it."""
    record = None

    def __init__(self, *a, **k):
        pass

    def __enter__(self):
        return self

    def __exit__(self, *a):
        return False

    def submit(self, fn, *args, **kwargs):
        f = Future()
        try:
            res = fn(*args, **kwargs)
            f.set_result(res)
        except BaseException as e:  # noqa
            f.set_exception(e)
            res = None
        if FakePool.record is not None:
            FakePool.record.append((f, getattr(fn, '__self__', None), dict(kwargs), res))
        return f


class Forced:
    """Context: force the partition to (rows, cols) and the completion order to a permutation."""

    def __init__(self, rows, cols, perm_rng):
        self.rows, self.cols, self.rng = rows, cols, perm_rng
        self.order = None

    def __enter__(self):
        self.saved = (NF.find_batch_partition, NF.find_optimal_partition, NF.ProcessPoolExecutor, NF.as_completed)
        NF.find_batch_partition = lambda *a, **k: (self.rows, self.cols)
        NF.find_optimal_partition = lambda *a, **k: (self.rows, self.cols)
        NF.ProcessPoolExecutor = FakePool
        FakePool.record = []
        self.records = FakePool.record

        def fake_as_completed(futs, *a, **k):
            fl = list(futs)
            idx = list(range(len(fl)))
            self.rng.shuffle(idx)
            self.order = (self.order or []) + [idx]
            for i in idx:
                yield fl[i]
        NF.as_completed = fake_as_completed
        return self

    def __exit__(self, *a):
        NF.find_batch_partition, NF.find_optimal_partition, NF.ProcessPoolExecutor, NF.as_completed = self.saved
        FakePool.record = None
        return False


def tok(v):
    return repr(float(v))


def mat_tokens(df):
    return '/'.join(','.join(tok(v) for v in row) for row in np.asarray(df.values))


def frames_equal(a, b):
    if list(a.index) != list(b.index) or list(a.columns) != list(b.columns):
        return False
    x, y = np.asarray(a.values, dtype=float), np.asarray(b.values, dtype=float)
    return x.shape == y.shape and bool(np.array_equal(x, y, equal_nan=True))


# ---------------------------------------------------------------------------------------------
def case_nblast(ctx, case, dps=None):
    """case: dict(fn, nq, nt, rows, cols, scores, seed)."""
    import random
    r = random.Random(case['seed'])
    fn, nq, nt, rows, cols, scores = case['fn'], case['nq'], case['nt'], case['rows'], case['cols'], case['scores']
    q = make_dps(r, nq)
    t = q if fn == 'allbyall' else make_dps(r, nt)
    kw = dict(progress=False)
    if 'use_alpha' in case:
        kw['use_alpha'] = case['use_alpha']
    if 'normalized' in case:
        kw['normalized'] = case['normalized']

    def call(n_cores):
        if fn == 'nblast':
            return navis.nblast(q, t, scores=scores, n_cores=n_cores, **kw)
        if fn == 'allbyall':
            return navis.nblast_allbyall(q, n_cores=n_cores, **kw)
        if fn == 'smart':
            return navis.nblast_smart(q, t, scores=scores, n_cores=n_cores, t=case.get('t', 50),
                                      criterion=case.get('criterion', 'percentile'), **kw)
    try:
        serial = call(1)
    except Exception as e:
        ctx.count('serial_error', type(e).__name__)
        return
    with Forced(rows, cols, random.Random(case['seed'] + 1)) as F:
        try:
            par = call(case.get('n_cores', 4))
            err = None
        except Exception as e:
            par, err = None, e
    ctx.count('fn', fn); ctx.count('grid', f'{rows}x{cols}'); ctx.count('scores', scores)
    if err is not None:
        sig = None
        if scores == 'both' and rows * cols > 1:
            sig = 'nblast/scores=both/multi-job'
        ctx.oracle(False, f'{fn}(scores={scores}) with partition {rows}x{cols} raises {type(err).__name__}: {str(err)[:120]} '
                          f'while the serial run succeeds', case, signature=sig)
        return
    # ---- property oracle: same matrix, labels in input order
    ok = frames_equal(serial, par)
    ctx.oracle(ok, f'{fn}(scores={scores}) differs between serial run and partition {rows}x{cols} '
                   f'with completion order {F.order}', case)
    exp_idx = list(q.id)
    if scores == 'both' and fn == 'nblast':
        pass
    else:
        ctx.oracle(list(par.index) == exp_idx and list(par.columns) == list(t.id),
                   f'{fn}: row/column labels do not follow input order', case)
    # ---- correspondence with the Lean model (only when jobs were actually submitted)
    recs = F.records
    if fn in ('nblast', 'allbyall') and rows * cols > 1 and recs and scores != 'both':
        jobs_impl = []
        for (f, nb, kwargs, res) in recs:
            qi = list(map(int, nb.queries_ix)); ti = list(map(int, nb.targets_ix))
            lq = list(map(int, kwargs['q_idx'])); lt = list(map(int, kwargs['t_idx']))
            jobs_impl.append((qi, ti, lq, lt, nb))
        nqq, ntt = len(q), len(t)
        model = ctx.ask(f'c09.jobs {nqq} {ntt} {rows} {cols}')
        if fn == 'nblast':
            impl = '|'.join(';'.join(','.join(map(str, x)) for x in j[:4]) for j in jobs_impl)
            ctx.corr(impl, model, 'job grid (array_split chunks, job-local query/target indices)', case)
        else:
            # all-by-all: chunks must match; local indices are checked against the enumeration navis used
            impl = '|'.join(';'.join(','.join(map(str, x)) for x in j[:2]) for j in jobs_impl)
            mod = '|'.join(';'.join(s.split(';')[:2]) for s in model.split('|'))
            ctx.corr(impl, mod, 'all-by-all job grid (array_split chunks)', case)
            idpos = {int(n.id): i for i, n in enumerate(q)}
            for (qi, ti, lq, lt, nb) in jobs_impl:
                enum = [idpos[int(i)] for i in nb.ids]
                m = ctx.ask(f"c09.allmap {','.join(map(str, enum))};{','.join(map(str, qi))};{','.join(map(str, ti))}")
                ctx.corr(f"{','.join(map(str, lq))};{','.join(map(str, lt))}", m, 'all-by-all local index remap (ixmap)', case)
        # assembly in the observed completion order
        order = F.order[-1]
        blocks = []
        for i in order:
            (f, nb, kwargs, res) = recs[i]
            blocks.append(f"{','.join(map(str, map(int, nb.queries_ix)))};{','.join(map(str, map(int, nb.targets_ix)))};{mat_tokens(res)}")
        model = ctx.ask(f'c09.assemble {nqq} {ntt} | ' + ' | '.join(blocks))
        ctx.corr(mat_tokens(par), model, 'assembled score matrix vs Lean assembleBlocks on navis\' own job blocks', case)


def case_partition_fn(ctx, case):
    N, nq, nt = case['N'], case['nq'], case['nt']

    class L(list):
        pass
    try:
        r = NF.find_optimal_partition(N, L(range(nq)), L(range(nt)))
        impl = f'{r[0]} {r[1]}'
    except Exception as e:
        impl = 'none'
    model = ctx.ask(f'c09.optpart {N} {nq} {nt}')
    ctx.corr(impl, model, 'find_optimal_partition', case)
    if impl != 'none':
        rr, cc = map(int, impl.split())
        ctx.oracle(1 <= rr <= nq and 1 <= cc <= nt, f'find_optimal_partition({N},{nq},{nt}) = {impl} outside 1..len', case)
    # find_batch_partition with a pinned timing measurement
    npb = case['npb']
    saved = NF.test_single_query_time
    NF.test_single_query_time = lambda q, t, it=100: 10.0 / (npb * npb + 0.5)
    try:
        for nc in (None, case['nc']):
            r = NF.find_batch_partition(L(range(nq)), L(range(nt)), T=10, n_cores=nc)
            model = ctx.ask(f"c09.batchpart {npb} {nq} {nt} {nc if nc else 'none'}")
            ctx.corr(f'{r[0]} {r[1]}', model, 'find_batch_partition', case)
    finally:
        NF.test_single_query_time = saved


# ---------------------------------------------------------------------------------------------
def small_nl(n, rng):
    out = []
    for i in range(n):
        m = rng.randint(3, 6)
        df = pd.DataFrame({'node_id': np.arange(1, m + 1), 'parent_id': [-1] + list(range(1, m)),
                           'x': np.arange(m, dtype=float), 'y': 0.0, 'z': 0.0, 'radius': 0.01})
        out.append(navis.TreeNeuron(df, id=1000 + i, name=f'n{i}'))
    return navis.NeuronList(out)


def _probe(x, a=None, *, b=None, c=None, fails=''):
    if str(x.id) in fails.split(','):
        raise ValueError('boom')
    return (int(x.id), repr(a), repr(b), repr(c))


def _canon_arg(v, n):
    """Arg in driver syntax for a keyword value."""
    if isinstance(v, (list, tuple)):
        return 'm:' + ','.join(map(repr, v))
    return 's:' + repr(v)


def case_apply(ctx, case):
    import random
    r = random.Random(case['seed'])
    n = case['n']
    nl = small_nl(n, r)
    kinds = case['kinds']   # per kwarg: 'scalar' | 'len_n' | 'len_other'
    kwargs = {}
    for name, kind in zip(('a', 'b', 'c'), kinds):
        if kind == 'scalar':
            kwargs[name] = r.randint(0, 99)
        elif kind == 'len_n':
            kwargs[name] = [r.randint(0, 99) for _ in range(n)]
        elif kind == 'len_other':
            kwargs[name] = [r.randint(0, 99) for _ in range(n + 1 if n != 1 else 3)]
    fails = [1000 + i for i in range(n) if r.random() < case['pfail']]
    omit = case['omit']
    try:
        res = nl.apply(_probe, omit_failures=omit, fails=','.join(map(str, fails)), **kwargs)
        impl = '|'.join(f"{x[0]-1000}(" + ' '.join(['s:' + x[1], 's:' + x[2], 's:' + x[3]]) + ')' for x in (res or []))
    except ValueError:
        impl = 'RAISE'
    # model: args a,b,c (absent → scalar None)
    margs = []
    for name in ('a', 'b', 'c'):
        v = kwargs.get(name, None)
        margs.append('0:' + _canon_arg(v, n))
    fl = ','.join(str(f - 1000) for f in fails) or '-'
    model = ctx.ask(f"c09.zip {n} {1 if omit else 0} 0 {fl} | " + ' | '.join(margs))
    # model prints zipped elements as s:<repr>; unzipped lists as m:..; canonicalise impl the same way
    def canon_model(s):
        return s
    impl2 = impl
    if impl != 'RAISE':
        parts = []
        for x in (res or []):
            toks = []
            for val in x[1:]:
                # val is repr of what the function received
                if val.startswith('['):
                    toks.append('m:' + ','.join(t.strip() for t in val[1:-1].split(',')))
                else:
                    toks.append('s:' + val)
            parts.append(f"{x[0]-1000}(" + ' '.join(toks) + ')')
        impl2 = '|'.join(parts)
    ctx.count('apply_kinds', ','.join(kinds)); ctx.count('apply_outcome', 'raise' if impl == 'RAISE' else 'ok')
    ctx.corr(impl2, model, 'NeuronList.apply: per-neuron arguments / order / failure filtering', case)
    # oracle (independent of the model): order and matching
    if impl != 'RAISE':
        ids = [x[0] for x in (res or [])]
        exp = [1000 + i for i in range(n) if (1000 + i) not in fails]
        ctx.oracle(ids == exp, f'apply: results {ids} not in list order / wrong neurons removed (expected {exp})', case)
        for x in (res or []):
            i = x[0] - 1000
            for name, val in zip(('a', 'b', 'c'), x[1:]):
                v = kwargs.get(name, None)
                want = repr(v[i]) if isinstance(v, list) and len(v) == n else repr(v)
                ctx.oracle(val == want, f'apply: neuron {i} received {name}={val}, expected {want}', case)
    else:
        ctx.oracle((not omit) and bool(fails), 'apply raised although omit_failures=True or nothing fails', case)


def case_mapped(ctx, case):
    """map_neuronlist-decorated public function with a per-neuron argument (must_zip) and inplace swap."""
    import random
    r = random.Random(case['seed'])
    n = case['n']
    nl = small_nl(n, r)
    srcs = [r.randint(1, x.n_nodes) for x in nl]
    depth = case['depth']
    try:
        res = navis.prune_at_depth(nl, depth, source=srcs, inplace=False)
    except Exception as e:
        ctx.oracle(False, f'prune_at_depth(NeuronList, source=<one per neuron>) raises {type(e).__name__}: {str(e)[:100]}',
                   case, signature='map_neuronlist/must_zip/source-not-zipped')
        return
    exp = [navis.prune_at_depth(x, depth, source=s, inplace=False) for x, s in zip(nl, srcs)]
    got = [sorted(x.nodes.node_id.tolist()) for x in res]
    want = [sorted(x.nodes.node_id.tolist()) for x in exp]
    ctx.oracle([x.id for x in res] == [x.id for x in nl], 'mapped function: result not in list order', case)
    ctx.oracle(got == want, f'mapped function: per-neuron `source` not matched to its neuron: got {got}, want {want}',
               case, signature='map_neuronlist/must_zip/source-not-zipped')


# ---------------------------------------------------------------------------------------------
def gen_cases(ctx):
    r = ctx.rng
    # exhaustive small grid of (rows, cols) for tiny lists, then random
    small = [(fn, nq, nt, rows, cols) for fn in ('nblast', 'allbyall') for nq in (1, 2, 3, 5) for nt in (2, 3, 4)
             for rows in range(1, nq + 1) for cols in range(1, nt + 1)
             if rows * cols > 1 and (fn == 'nblast' or nq == nt or True)]
    r.shuffle(small)
    nb = ctx.budget(60, 400)
    for (fn, nq, nt, rows, cols) in small[:nb]:
        if fn == 'allbyall':
            nt = nq
            cols = min(cols, nq)
            if rows * cols == 1:
                continue
        yield ('nblast', dict(fn=fn, nq=nq, nt=nt, rows=rows, cols=cols,
                              scores=r.choice(['forward', 'mean', 'min', 'max']) if fn == 'nblast' else 'forward',
                              use_alpha=r.random() < 0.3, normalized=r.random() < 0.8, seed=r.randrange(10 ** 9)))
    for _ in range(ctx.budget(60, 400)):
        fn = r.choice(['nblast', 'allbyall'])
        nq, nt = r.randint(2, 9), r.randint(2, 9)
        if fn == 'allbyall':
            nt = nq
        rows, cols = r.randint(1, nq), r.randint(1, nt)
        if rows * cols == 1:
            cols = 2
        yield ('nblast', dict(fn=fn, nq=nq, nt=nt, rows=rows, cols=cols,
                              scores=r.choice(['forward', 'mean', 'min', 'max']) if fn == 'nblast' else 'forward',
                              use_alpha=r.random() < 0.3, normalized=r.random() < 0.8, seed=r.randrange(10 ** 9)))
    for _ in range(ctx.budget(4, 40)):
        nq, nt = r.randint(2, 7), r.randint(2, 7)
        yield ('nblast', dict(fn='nblast', nq=nq, nt=nt, rows=r.randint(1, nq), cols=r.randint(2, nt), scores='both',
                              seed=r.randrange(10 ** 9)))
    for _ in range(ctx.budget(6, 40)):
        nq, nt = r.randint(2, 5), r.randint(2, 5)
        yield ('nblast', dict(fn='smart', nq=nq, nt=nt, rows=r.randint(1, nq), cols=r.randint(1, nt),
                              scores=r.choice(['forward', 'mean', 'min', 'max']),
                              criterion=r.choice(['percentile', 'score']), t=r.choice([0, 50, 90]) ,
                              seed=r.randrange(10 ** 9)))
    for _ in range(ctx.budget(150, 3000)):
        yield ('partfn', dict(N=r.randint(1, 32), nq=r.randint(1, 40), nt=r.randint(1, 40), npb=r.randint(1, 9), nc=r.randint(1, 16)))
    for _ in range(ctx.budget(150, 2000)):
        yield ('apply', dict(n=r.randint(1, 6), kinds=[r.choice(['scalar', 'len_n', 'len_other', 'absent']) for _ in range(3)],
                             pfail=r.choice([0, 0, 0.3, 0.6]), omit=r.random() < 0.6, seed=r.randrange(10 ** 9)))
    for _ in range(ctx.budget(10, 100)):
        yield ('mapped', dict(n=r.randint(2, 5), depth=r.choice([1, 2, 3]), seed=r.randrange(10 ** 9)))


RUNNERS = {'nblast': case_nblast, 'partfn': case_partition_fn, 'apply': case_apply, 'mapped': case_mapped}


def run(ctx):
    ctx.extra['rule'] = ('nblast cases: (function, |q|, |t|, rows, cols, score mode, seed) with forced partition and seeded '
                         'completion permutation, non-trivial when rows*cols>1; partition-function cases (N,nq,nt,npb,nc); '
                         'apply cases (list length, per-argument kind, failing subset); distinct = distinct JSON digest')
    for kind, case in gen_cases(ctx):
        c = dict(case, kind=kind)
        ctx.case(c, nontrivial=True)
        RUNNERS[kind](ctx, case)
    if not ctx.quick():
        real_pools(ctx)


def replay(ctx, rp):
    case = rp['case']
    kind = case.get('kind')
    ctx.case(case)
    RUNNERS[kind](ctx, {k: v for k, v in case.items() if k != 'kind'})


def real_pools(ctx):
    """Thorough tier: real spawn pools, several core counts; and pathos pools for parallel=True."""
    import random
    r = random.Random(ctx.seed)
    q = make_dps(r, 5); t = make_dps(r, 6)
    serial = navis.nblast(q, t, n_cores=1, progress=False)
    saved = (NF.find_batch_partition, NF.find_optimal_partition)
    try:
        for nc, (rows, cols) in [(2, (2, 1)), (3, (1, 3)), (4, (2, 2)), (8, (2, 4)), (16, (4, 4))]:
            NF.find_batch_partition = lambda *a, **k: (rows, cols)
            NF.find_optimal_partition = lambda *a, **k: (rows, cols)
            case = dict(kind='realpool', n_cores=nc, rows=rows, cols=cols)
            ctx.case(case)
            par = navis.nblast(q, t, n_cores=nc, progress=False)
            ctx.oracle(frames_equal(serial, par), f'real spawn pool n_cores={nc} partition {rows}x{cols} differs from serial', case)
            aba_s = navis.nblast_allbyall(q, n_cores=1, progress=False)
            NF.find_optimal_partition = lambda *a, **k: (min(rows, 5), min(cols, 5))
            aba_p = navis.nblast_allbyall(q, n_cores=nc, progress=False)
            ctx.oracle(frames_equal(aba_s, aba_p), f'real pool all-by-all n_cores={nc} differs from serial', case)
    finally:
        NF.find_batch_partition, NF.find_optimal_partition = saved
    nl = small_nl(9, r)
    ser = [float(v) for v in navis.morpho.cable_length(nl)]
    ser_apply = nl.apply(_probe, b=list(range(9)), omit_failures=True, fails='1003,1007')
    for nc, cs in [(2, 1), (3, 2), (4, 3), (8, 1)]:
        case = dict(kind='pathos', n_cores=nc, chunksize=cs)
        ctx.case(case)
        par = [float(v) for v in navis.morpho.cable_length(nl, parallel=True, n_cores=nc, chunksize=cs)]
        ctx.oracle(ser == par, f'cable_length(parallel=True, n_cores={nc}, chunksize={cs}) = {par} differs from serial {ser}', case)
        par_apply = nl.apply(_probe, b=list(range(9)), omit_failures=True, fails='1003,1007', parallel=True, n_cores=nc)
        ctx.oracle(ser_apply == par_apply, f'apply(parallel=True, n_cores={nc}) differs from serial', case)
