"""C09 — results independent of cores, partitioning and completion order.

Tie (every run):
 (a) job grid navis builds (recorded through a controlled executor) vs the Lean model `jobs`; the same jobs vs the
     *interpreted source facts* (`Gen/NblastJobs.lean` through `c09.prog`): which neurons each blaster holds, whose
     self hits, `q_idx` / `t_idx`, destination rows / columns — for nblast, nblast_allbyall, both phases of
     nblast_smart and synblast;
 (b) the matrix navis assembles from the recorded per-job blocks, delivered in a seeded permutation, vs the Lean
     `assembleBlocks` (incl. `scores='both'` through `bothJob`); smart NBLAST: `this.pairs`, `this.mask` vs `Smart.pairs`,
     `Smart.jobMask` (and vs the extracted expressions), final matrix vs `Smart.refineBlocks`;
 (c) `find_optimal_partition` / `find_batch_partition` / the partition choice of every front end for n_cores 1..16 vs Lean;
 (d) `NeuronProcessor.__call__` (positional + keyword arguments of every kind, exclude lists, per-neuron functions,
     failures, result packing, ordered imap with chunk sizes) and `map_neuronlist` vs the Lean `processW`, `finish`,
     `mapNeuronlist`.
Oracle: forced partition × permuted completion == serial run (values, labels, mask); mapped results in list order with
matched arguments; parallel == serial."""
import itertools, warnings, random as _random
import numpy as np
import pandas as pd

warnings.filterwarnings('ignore')
import navis
from navis.nbl import nblast_funcs as NF
from navis.nbl import synblast_funcs as SF
from navis.core import core_utils as CU
from concurrent.futures import Future

navis.config.pbar_hide = True
navis.set_loggers('ERROR')


# ---------------------------------------------------------------------------------------------
def make_dps(rng, n, npts=(12, 30), id0=None, ids=None):
    out = []
    ids = ids or rng.sample(range(1, 10 ** 6), n)
    for i in range(n):
        m = rng.randint(*npts)
        pts = np.cumsum(np.array([[rng.uniform(-1, 1) for _ in range(3)] for _ in range(m)]), axis=0) * 2
        pts += np.array([rng.uniform(-5, 5) for _ in range(3)])
        dp = navis.make_dotprops(pts, k=min(5, m - 1))
        dp.units = '1 micron'
        dp.id = ids[i]
        out.append(dp)
    return navis.NeuronList(out)


class FakePool:
    """Runs every job synchronously at submit time and records it."""
    record = None

    def __init__(self, *a, **k):
        pass

    def __enter__(self):
        return self

    def __exit__(self, *a):
        return False

    def submit(self, fn, *args, **kwargs):
        f = Future()
        try:
            res = fn(*args, **kwargs)
            f.set_result(res)
        except BaseException as e:  # noqa
            f.set_exception(e)
            res = None
        if FakePool.record is not None:
            FakePool.record.append((f, getattr(fn, '__self__', None), dict(kwargs), res))
        return f


class DummyTqdm:
    """Stand-in for config.tqdm when progress=True is exercised (no output)."""

    def __init__(self, it=None, *a, **k):
        self.it = it

    def __iter__(self):
        return iter(self.it)

    def __enter__(self):
        return self

    def __exit__(self, *a):
        return False

    def update(self, *a):
        pass

    def close(self):
        pass


class Forced:
    """Context: controlled executor + permuted `as_completed` in module `mod`; optionally force the partition."""

    def __init__(self, rows, cols, perm_rng, mod=NF, force=True, quiet_progress=False):
        self.rows, self.cols, self.rng, self.mod, self.force, self.quiet = rows, cols, perm_rng, mod, force, quiet_progress
        self.order = None

    def __enter__(self):
        m = self.mod
        self.saved = (m.find_batch_partition, m.find_optimal_partition, m.ProcessPoolExecutor, m.as_completed)
        if self.force:
            m.find_batch_partition = lambda *a, **k: (self.rows, self.cols)
            m.find_optimal_partition = lambda *a, **k: (self.rows, self.cols)
        m.ProcessPoolExecutor = FakePool
        FakePool.record = []
        self.records = FakePool.record
        if self.quiet:
            self.saved_tqdm = (navis.config.tqdm, navis.config.tqdm_classic)
            navis.config.tqdm = DummyTqdm
            navis.config.tqdm_classic = DummyTqdm

        def fake_as_completed(futs, *a, **k):
            fl = list(futs)
            idx = list(range(len(fl)))
            self.rng.shuffle(idx)
            self.order = (self.order or []) + [idx]
            for i in idx:
                yield fl[i]
        m.as_completed = fake_as_completed
        return self

    def __exit__(self, *a):
        m = self.mod
        m.find_batch_partition, m.find_optimal_partition, m.ProcessPoolExecutor, m.as_completed = self.saved
        if self.quiet:
            navis.config.tqdm, navis.config.tqdm_classic = self.saved_tqdm
        FakePool.record = None
        return False


def tok(v):
    return repr(float(v))


def mat_tokens(df):
    return '/'.join(','.join(tok(v) for v in row) for row in np.asarray(getattr(df, 'values', df)))


def frames_equal(a, b):
    if list(a.index) != list(b.index) or list(a.columns) != list(b.columns):
        return False
    x, y = np.asarray(a.values, dtype=float), np.asarray(b.values, dtype=float)
    return x.shape == y.shape and bool(np.array_equal(x, y, equal_nan=True))


def csv(xs):
    return ','.join(str(int(x)) for x in xs)


# ---------------------------------------------------------------------------------------------
# interpreted source facts vs what the blasters really hold
# ---------------------------------------------------------------------------------------------
def check_prog(ctx, case, prog, nb, kwargs, lists, selfhits, enum=None):
    """`lists`: name -> NeuronList (as named in the source); `selfhits`: name -> list of floats computed over that list.
    Compares the Lean interpretation of the extracted job program with the recorded blaster `nb`."""
    qi, ti = list(map(int, nb.queries_ix)), list(map(int, nb.targets_ix))
    ans = ctx.ask(f"c09.prog {prog};{csv(qi)};{csv(ti)};{csv(enum or [])}")
    if ans == 'BAD-OP':
        ctx.corr('driver: BAD-OP', 'answer', f'c09.prog {prog}', case)
        return
    ents, shs, sq, st, dr, dc, both, meta = ans.split(';')
    # neurons held by the blaster, in order
    want_ids = []
    for e in filter(None, ents.split(',')):
        name, i = e.split(':')
        want_ids.append(lists[name][int(i)].id)
    ctx.corr(list(nb.ids), want_ids, f'{prog}: neurons appended to the job blaster (source facts vs runtime)', case)
    if shs.replace('-', '').replace(',', ''):
        want_sh = []
        for e in shs.split(','):
            name, i = e.split(':')
            want_sh.append(float(selfhits[name][int(i)]))
        got = [float(x) for x in nb.self_hits]
        ctx.corr(got, want_sh, f'{prog}: self hits held by the job blaster (source facts vs runtime)', case)
    if 'q_idx' in kwargs:
        ctx.corr(csv(kwargs['q_idx']) + ';' + csv(kwargs['t_idx']), sq + ';' + st,
                 f'{prog}: submitted q_idx / t_idx (source facts vs runtime)', case)
    ctx.corr(csv(qi) + ';' + csv(ti), dr + ';' + dc, f'{prog}: destination rows / columns (source facts vs runtime)', case)
    return meta


def self_hits(nl, **kw):
    nb = NF.NBlaster(**kw)
    return [nb.calc_self_hit(n) for n in nl]


# ---------------------------------------------------------------------------------------------
def case_nblast(ctx, case, dps=None):
    """case: dict(fn, nq, nt, rows, cols, scores, seed)."""
    r = _random.Random(case['seed'])
    fn, nq, nt, rows, cols, scores = case['fn'], case['nq'], case['nt'], case['rows'], case['cols'], case['scores']
    q = make_dps(r, nq)
    self_target = case.get('self_target', False)
    t = q if (fn == 'allbyall' or self_target) else make_dps(r, nt)
    kw = dict(progress=False)
    for k in ('use_alpha', 'normalized'):
        if k in case:
            kw[k] = case[k]

    def call(n_cores):
        if fn == 'nblast':
            return navis.nblast(q, None if self_target else t, scores=scores, n_cores=n_cores, **kw)
        if fn == 'allbyall':
            return navis.nblast_allbyall(q, n_cores=n_cores, **kw)
        if fn == 'smart':
            return navis.nblast_smart(q, None if self_target else t, scores=scores, n_cores=n_cores, t=case.get('t', 50),
                                      criterion=case.get('criterion', 'percentile'), return_mask=True, **kw)
    try:
        serial = call(1)
    except Exception as e:
        ctx.count('serial_error', f"{fn}/{case.get('criterion', '')}/{type(e).__name__}")
        return
    with Forced(rows, cols, _random.Random(case['seed'] + 1)) as F:
        try:
            par = call(case.get('n_cores', 4))
            err = None
        except Exception as e:
            par, err = None, e
    ctx.count('fn', fn); ctx.count('grid', f'{rows}x{cols}'); ctx.count('scores', scores)
    if err is not None:
        ctx.oracle(False, f'{fn}(scores={scores}) with partition {rows}x{cols} raises {type(err).__name__}: {str(err)[:120]} '
                          f'while the serial run succeeds', case)
        return
    mask_s = mask_p = None
    if fn == 'smart':
        (serial, mask_s), (par, mask_p) = serial, par
        ctx.oracle(frames_equal(mask_s.astype(float), mask_p.astype(float)),
                   f'nblast_smart: selection mask differs between serial run and partition {rows}x{cols}', case)
    # ---- property oracle: same matrix, labels in input order
    ok = frames_equal(serial, par)
    ctx.oracle(ok, f'{fn}(scores={scores}) differs between serial run and partition {rows}x{cols} '
                   f'with completion order {F.order}', case)
    if scores == 'both' and fn == 'nblast':
        exp_idx = [(i, s) for i in q.id for s in ('forward', 'reverse')]
        ctx.oracle(list(par.index) == exp_idx and list(par.columns) == list(t.id),
                   'nblast(scores=both): row/column labels do not follow input order (forward/reverse interleaved)', case)
        if not self_target:
            fwd = navis.nblast(q, t, scores='forward', n_cores=1, **kw)
            rev = navis.nblast(t, q, scores='forward', n_cores=1, **kw)
            v = np.asarray(par.values, dtype=float)
            ctx.oracle(np.array_equal(v[0::2], fwd.values) and np.array_equal(v[1::2], rev.values.T),
                       'nblast(scores=both): rows 2r / 2r+1 are not the forward / reverse scores of query r', case)
    else:
        ctx.oracle(list(par.index) == list(q.id) and list(par.columns) == list(t.id),
                   f'{fn}: row/column labels do not follow input order', case)
    recs = F.records
    if not (rows * cols > 1 and recs):
        return
    nqq, ntt = len(q), len(t)
    # ---- nblast / allbyall: grid, source facts, assembly
    if fn in ('nblast', 'allbyall'):
        bkw = {k: kw[k] for k in ('use_alpha', 'normalized') if k in kw}
        qsh = self_hits(q, **bkw)
        tsh = qsh if t is q else self_hits(t, **bkw)
        jobs_impl = []
        for (f, nb, kwargs, res) in recs:
            qi = list(map(int, nb.queries_ix)); ti = list(map(int, nb.targets_ix))
            lq = list(map(int, kwargs['q_idx'])); lt = list(map(int, kwargs['t_idx']))
            jobs_impl.append((qi, ti, lq, lt, nb, kwargs))
        model = ctx.ask(f'c09.jobs {nqq} {ntt} {rows} {cols}')
        if fn == 'nblast':
            impl = '|'.join(';'.join(','.join(map(str, x)) for x in j[:4]) for j in jobs_impl)
            ctx.corr(impl, model, 'job grid (array_split chunks, job-local query/target indices)', case)
            for (qi, ti, lq, lt, nb, kwargs) in jobs_impl:
                check_prog(ctx, case, 'nblast', nb, kwargs, {'query_dps': q, 'target_dps': t},
                           {'query_dps': qsh, 'target_dps': tsh})
        else:
            impl = '|'.join(';'.join(','.join(map(str, x)) for x in j[:2]) for j in jobs_impl)
            mod = '|'.join(';'.join(s.split(';')[:2]) for s in model.split('|'))
            ctx.corr(impl, mod, 'all-by-all job grid (array_split chunks)', case)
            idpos = {int(n.id): i for i, n in enumerate(q)}
            for (qi, ti, lq, lt, nb, kwargs) in jobs_impl:
                enum = [idpos[int(i)] for i in nb.ids]
                m = ctx.ask(f"c09.allmap {csv(enum)};{csv(qi)};{csv(ti)}")
                ctx.corr(f"{csv(lq)};{csv(lt)}", m, 'all-by-all local index remap (ixmap)', case)
                check_prog(ctx, case, 'allbyall', nb, kwargs, {'dps': q}, {'dps': qsh}, enum=enum)
        order = F.order[-1]
        blocks = []
        for i in order:
            (f, nb, kwargs, res) = recs[i]
            blocks.append(f"{csv(nb.queries_ix)};{csv(nb.targets_ix)};{mat_tokens(res)}")
        cmd = 'assembleboth' if scores == 'both' else 'assemble'
        model = ctx.ask(f'c09.{cmd} {nqq} {ntt} | ' + ' | '.join(blocks))
        ctx.defn(mat_tokens(par), model, 'assembled score matrix vs Lean placement of navis\' own job blocks '
                 f'in completion order {order}', case)
    # ---- smart: both phases
    if fn == 'smart':
        pre = [x for x in recs if 'pairs' not in x[2]]
        full = [x for x in recs if 'pairs' in x[2]]
        ctx.count('smart_jobs', f'{len(pre)}+{len(full)}')
        if len(F.order) != 2 or len(pre) != rows * cols or len(full) != rows * cols:
            ctx.corr(f'{len(pre)}+{len(full)} jobs, {len(F.order)} collections', f'{rows * cols}+{rows * cols} jobs, 2 collections',
                     'nblast_smart: number of submitted jobs / collection loops', case)
            return
        qs, ts = q.downsample(10, inplace=False), (q if t is q else t).downsample(10, inplace=False)
        if t is q:
            ts = qs
        bkw = {k: kw[k] for k in ('use_alpha', 'normalized') if k in kw}
        qsh_s = self_hits(qs, **bkw); tsh_s = qsh_s if t is q else self_hits(ts, **bkw)
        model = ctx.ask(f'c09.jobs {nqq} {ntt} {rows} {cols}')
        impl = '|'.join(';'.join([csv(nb.queries_ix), csv(nb.targets_ix), csv(kwargs['q_idx']), csv(kwargs['t_idx'])])
                        for (f, nb, kwargs, res) in pre)
        ctx.corr(impl, model, 'nblast_smart pre-phase job grid', case)
        for (f, nb, kwargs, res) in pre:
            check_prog(ctx, case, 'smartPre', nb, kwargs, {'query_dps_simp': qs, 'target_dps_simp': ts},
                       {'query_dps_simp': qsh_s, 'target_dps_simp': tsh_s})
        blocks = [f"{csv(pre[i][1].queries_ix)};{csv(pre[i][1].targets_ix)};{mat_tokens(pre[i][3])}" for i in F.order[0]]
        scr_tok = ctx.ask(f'c09.assemble {nqq} {ntt} | ' + ' | '.join(blocks))
        if t is q and scores == 'mean' and 'EMPTY' not in scr_tok:
            a = np.array([[float(v) for v in row.split(',')] for row in scr_tok.split('/')])
            scr_tok = mat_tokens((a + a.T) / 2)
        mtok = '/'.join(''.join('1' if v else '0' for v in row) for row in np.asarray(mask_p.values, dtype=bool))
        # per job: pairs and job mask, model + extracted expressions
        qsh = self_hits(q, **bkw); tsh = qsh if t is q else self_hits(t, **bkw)
        for (f, nb, kwargs, res) in full:
            qi = sorted(set(np.where(nb.mask.any(axis=1))[0].tolist()))
            # the job's chunks: recover from the blaster's ids
            idq = {n.id: i for i, n in enumerate(q)}; idt = {n.id: i for i, n in enumerate(t)}
            npairs = np.asarray(kwargs['pairs'])
            # the blaster holds |qix| queries then |tix| targets
            k = None
            for (qq, tt) in [tuple(s.split(';')[:2]) for s in model.split('|')]:
                qq = [int(x) for x in qq.split(',')]; tt = [int(x) for x in tt.split(',')]
                if [idq.get(i) for i in nb.ids[:len(qq)]] == qq and [idt.get(i) for i in nb.ids[len(qq):]] == tt and len(nb.ids) == len(qq) + len(tt):
                    k = (qq, tt)
            if k is None:
                ctx.corr(list(nb.ids), 'queries of a row chunk followed by targets of a column chunk',
                         'nblast_smart full phase: neurons held by the job blaster', case)
                continue
            qq, tt = k
            ans = ctx.ask(f'c09.smartjob {nqq} {ntt} | {mtok} | {csv(qq)};{csv(tt)}')
            p_model, p_src, c_model, c_src = ans.split(';')
            p_impl = ','.join(f'{int(a)}:{int(b)}' for a, b in npairs)
            c_impl = ','.join(f'{int(a)}:{int(b)}' for a, b in zip(*np.where(nb.mask)))
            ctx.corr(p_impl, p_model, 'nblast_smart: this.pairs vs Smart.pairs', case)
            ctx.corr(p_impl, p_src, 'nblast_smart: this.pairs vs extracted source expressions', case)
            ctx.corr(c_impl, c_model, 'nblast_smart: cells of this.mask vs Smart.jobMask', case)
            ctx.corr(c_impl, c_src, 'nblast_smart: cells of this.mask vs extracted slice expressions', case)
            ents = ctx.ask(f'c09.smartprog {csv(qq)};{csv(tt)}')
            names, shs = ents.split(';')
            L = {'query_dps': q, 'target_dps': t}; S = {'query_dps': qsh, 'target_dps': tsh}
            ctx.corr(list(nb.ids), [L[e.split(':')[0]][int(e.split(':')[1])].id for e in names.split(',')],
                     'nblast_smart full phase: neurons appended (source facts vs runtime)', case)
            ctx.corr([float(x) for x in nb.self_hits], [float(S[e.split(':')[0]][int(e.split(':')[1])]) for e in shs.split(',')],
                     'nblast_smart full phase: self hits (source facts vs runtime)', case)
            nb._chunks = (qq, tt)
        if all(hasattr(x[1], '_chunks') for x in full):
            jb = []
            for i in F.order[1]:
                (f, nb, kwargs, res) = full[i]
                jb.append(f"{csv(nb._chunks[0])};{csv(nb._chunks[1])};{','.join(tok(v) for v in res)}")
            model = ctx.ask(f'c09.smartrefine {nqq} {ntt} | {mtok} | {scr_tok} | ' + ' | '.join(jb))
            ctx.defn(mat_tokens(par), model, 'nblast_smart result vs Lean mask placement of navis\' own job results '
                     f'(completion orders {F.order})', case)
        # independent reading of the property: refined cells hold the full-resolution score of their own pair
        if not (t is q) and 'use_alpha' not in kw:
            fullm = navis.nblast(q, t, scores=scores, n_cores=1, **kw)
            m = np.asarray(mask_p.values, dtype=bool)
            ctx.oracle(np.array_equal(np.asarray(par.values)[m], np.asarray(fullm.values)[m]),
                       'nblast_smart: a refined cell does not hold the full-resolution score of its own (query, target) pair', case)


def case_natural(ctx, case):
    """No forced partition: pin the timing measurement, run with n_cores 1..16, compare the grid navis chooses with
    the Lean `chooseNblast` / `chooseSimple` and the result with the serial one."""
    r = _random.Random(case['seed'])
    fn, nq, nt, nc, progress, npb = case['fn'], case['nq'], case['nt'], case['n_cores'], case['progress'], case['npb']
    q = make_dps(r, nq, npts=(8, 14))
    t = q if fn in ('allbyall', 'smartaba') else make_dps(r, nt, npts=(8, 14))
    ntt = len(t)

    def call(n_cores, progress):
        if fn == 'nblast':
            return navis.nblast(q, t, n_cores=n_cores, progress=progress)
        if fn == 'allbyall':
            return navis.nblast_allbyall(q, n_cores=n_cores, progress=progress)
        return navis.nblast_smart(q, None if fn == 'smartaba' else t, n_cores=n_cores, progress=progress, t=50)
    try:
        serial = call(1, False)
    except Exception as e:
        ctx.count('serial_error', f'{fn}/natural/{type(e).__name__}')
        return
    Tp, Tm = 10 * NF.JOB_SIZE_MULTIPLIER, NF.JOB_MAX_TIME_SECONDS
    # a measurement that yields `npb` neurons per batch for the progress-bar T; the other T follows from it
    tpq = Tp / (npb * npb + 0.5)
    saved = NF.test_single_query_time
    NF.test_single_query_time = lambda q, t, it=100: tpq
    try:
        with Forced(0, 0, _random.Random(case['seed'] + 1), force=False, quiet_progress=True) as F:
            try:
                par, err = call(nc, progress), None
            except Exception as e:
                par, err = None, e
    finally:
        NF.test_single_query_time = saved
    npbP = max(1, int(np.sqrt(Tp / tpq)))
    npbM = max(1, int(np.sqrt(Tm / tpq)))
    ans = ctx.ask(f"c09.choose {'nblast' if fn == 'nblast' else 'simple'} {nc if nc is not None else 'none'} "
                  f"{1 if progress else 0} {npbP} {npbM} {nq} {ntt}")
    ctx.count('natural_fn', fn); ctx.count('natural_cores', nc)
    if err is not None:
        ctx.oracle(False, f'{fn}(n_cores={nc}, progress={progress}) raises {type(err).__name__}: {str(err)[:100]} '
                          f'(timing pinned to {npb} neurons per batch) while n_cores=1 succeeds', case)
        return
    ctx.oracle(frames_equal(serial, par), f'{fn}(n_cores={nc}, progress={progress}) differs from n_cores=1 '
               f'(timing pinned to {npb} neurons per batch, completion order {F.order})', case)
    recs = [x for x in F.records if 'pairs' not in x[2]]
    if fn.startswith('smart'):
        recs = recs[:len(recs)]  # pre-phase only
    if recs:
        rws = len({tuple(map(int, nb.queries_ix)) for (_, nb, _, _) in recs})
        cls = len({tuple(map(int, nb.targets_ix)) for (_, nb, _, _) in recs})
        impl = f'{rws} {cls} 1'
    else:
        impl = None
    if ans == 'none':
        ctx.corr('partition found', ans, f'{fn}: model says no partition exists', case)
        return
    mr, mc, multi = ans.split()
    ctx.count('natural_grid', f'{mr}x{mc}')
    if multi == '1':
        ctx.corr(impl, ans, f'{fn}: grid chosen for n_cores={nc}, progress={progress}, npb={npbP}/{npbM}', case)
        ctx.oracle(1 <= int(mr) <= nq and 1 <= int(mc) <= ntt, f'{fn}: chosen partition {mr}x{mc} outside 1..len', case)
    else:
        ctx.corr(impl, None, f'{fn}: jobs submitted although the model expects the single-job path', case)


def case_partition_fn(ctx, case):
    N, nq, nt = case['N'], case['nq'], case['nt']

    class L(list):
        pass
    try:
        r = NF.find_optimal_partition(N, L(range(nq)), L(range(nt)))
        impl = f'{r[0]} {r[1]}'
    except Exception as e:
        impl = 'none'
    model = ctx.ask(f'c09.optpart {N} {nq} {nt}')
    ctx.corr(impl, model, 'find_optimal_partition', case)
    if impl != 'none':
        rr, cc = map(int, impl.split())
        ctx.oracle(1 <= rr <= nq and 1 <= cc <= nt, f'find_optimal_partition({N},{nq},{nt}) = {impl} outside 1..len', case)
        ctx.oracle(N % rr == 0 and rr * cc <= N, f'find_optimal_partition({N},{nq},{nt}) = {impl}: rows do not divide n_cores '
                                                 f'or more jobs than cores', case)
    if 'npb' not in case:
        return
    # find_batch_partition with a pinned timing measurement
    npb = case['npb']
    saved = NF.test_single_query_time
    NF.test_single_query_time = lambda q, t, it=100: 10.0 / (npb * npb + 0.5)
    try:
        for nc in (None, case['nc']):
            r = NF.find_batch_partition(L(range(nq)), L(range(nt)), T=10, n_cores=nc)
            model = ctx.ask(f"c09.batchpart {npb} {nq} {nt} {nc if nc else 'none'}")
            ctx.corr(f'{r[0]} {r[1]}', model, 'find_batch_partition', case)
            if nc is None:
                ctx.oracle(1 <= r[0] <= nq and 1 <= r[1] <= nt, f'find_batch_partition({nq},{nt}) = {r} outside 1..len', case)
    finally:
        NF.test_single_query_time = saved
    # neurons per batch from a rational timing
    a, b, T = case.get('ta', 1), case.get('tb', 7), case.get('T', 10)
    m = (T * b) // a
    if not ((T * b) % a != 0 and int(np.sqrt(m + 1)) ** 2 == m + 1):
        impl = max(1, int(np.sqrt(T / (a / b))))
        ctx.corr(str(impl), ctx.ask(f'c09.npb {T} {a} {b}'), 'neurons_per_batch = max(1, int(sqrt(T / time_per_query)))', case)


# ---------------------------------------------------------------------------------------------
# mapping over a NeuronList
# ---------------------------------------------------------------------------------------------
def small_nl(n, rng, id0=1000):
    out = []
    for i in range(n):
        m = rng.randint(3, 6)
        df = pd.DataFrame({'node_id': np.arange(1, m + 1), 'parent_id': [-1] + list(range(1, m)),
                           'x': np.arange(m, dtype=float), 'y': 0.0, 'z': 0.0, 'radius': 0.01})
        out.append(navis.TreeNeuron(df, id=id0 + i, name=f'n{i}'))
    return navis.NeuronList(out)


def _probe(x, a=None, *, b=None, c=None, fails=''):
    if str(x.id) in fails.split(','):
        raise ValueError('boom')
    return (int(x.id), repr(a), repr(b), repr(c))


def _canon_arg(v, n):
    """Arg in driver syntax for a keyword value."""
    if isinstance(v, (list, tuple)):
        return 'm:' + ','.join(map(repr, v))
    return 's:' + repr(v)


def case_apply(ctx, case):
    r = _random.Random(case['seed'])
    n = case['n']
    nl = small_nl(n, r)
    kinds = case['kinds']   # per kwarg: 'scalar' | 'len_n' | 'len_other'
    kwargs = {}
    for name, kind in zip(('a', 'b', 'c'), kinds):
        if kind == 'scalar':
            kwargs[name] = r.randint(0, 99)
        elif kind == 'len_n':
            kwargs[name] = [r.randint(0, 99) for _ in range(n)]
        elif kind == 'len_other':
            kwargs[name] = [r.randint(0, 99) for _ in range(n + 1 if n != 1 else 3)]
    fails = [1000 + i for i in range(n) if r.random() < case['pfail']]
    omit = case['omit']
    try:
        res = nl.apply(_probe, omit_failures=omit, fails=','.join(map(str, fails)), **kwargs)
        impl = '|'.join(f"{x[0]-1000}(" + ' '.join(['s:' + x[1], 's:' + x[2], 's:' + x[3]]) + ')' for x in (res or []))
    except ValueError:
        impl = 'RAISE'
    margs = []
    for name in ('a', 'b', 'c'):
        v = kwargs.get(name, None)
        margs.append('0:' + _canon_arg(v, n))
    fl = ','.join(str(f - 1000) for f in fails) or '-'
    model = ctx.ask(f"c09.zip {n} {1 if omit else 0} 0 {fl} | " + ' | '.join(margs))
    impl2 = impl
    if impl != 'RAISE':
        parts = []
        for x in (res or []):
            toks = []
            for val in x[1:]:
                if val.startswith('['):
                    toks.append('m:' + ','.join(t.strip() for t in val[1:-1].split(',')))
                else:
                    toks.append('s:' + val)
            parts.append(f"{x[0]-1000}(" + ' '.join(toks) + ')')
        impl2 = '|'.join(parts)
    ctx.count('apply_kinds', ','.join(kinds)); ctx.count('apply_outcome', 'raise' if impl == 'RAISE' else 'ok')
    ctx.corr(impl2, model, 'NeuronList.apply: per-neuron arguments / order / failure filtering', case)
    if impl != 'RAISE':
        ids = [x[0] for x in (res or [])]
        exp = [1000 + i for i in range(n) if (1000 + i) not in fails]
        ctx.oracle(ids == exp, f'apply: results {ids} not in list order / wrong neurons removed (expected {exp})', case)
        for x in (res or []):
            i = x[0] - 1000
            for name, val in zip(('a', 'b', 'c'), x[1:]):
                v = kwargs.get(name, None)
                want = repr(v[i]) if isinstance(v, list) and len(v) == n else repr(v)
                ctx.oracle(val == want, f'apply: neuron {i} received {name}={val}, expected {want}', case)
    else:
        ctx.oracle((not omit) and bool(fails), 'apply raised although omit_failures=True or nothing fails', case)


# ---- as-written processor: values of every kind, positional + keyword, exclusion lists, per-neuron functions ----
KINDS = ['int', 'none', 'str_n', 'str_other', 'list_n', 'list_other', 'tuple_n', 'array_n', 'array2d_n', 'array_other',
         'nl_n', 'dict_keys', 'dict_other', 'dict_size_other', 'set_n', 'set_other', 'gen', 'series_range', 'series_perm',
         'series_str', 'empty_list']


def _enc(v):
    """token for one element as the probe sees it"""
    if isinstance(v, (navis.TreeNeuron,)):
        return f'nrn{int(v.id)}'
    if isinstance(v, np.ndarray):
        return 'r' + '_'.join(str(int(x)) for x in v.ravel())
    if isinstance(v, (bool, np.bool_)):
        return str(bool(v))
    if isinstance(v, (int, np.integer)):
        return str(int(v))
    if isinstance(v, str):
        return 'q' + v
    raise TypeError(f'probe cannot encode {type(v)}')


def _show(v):
    """what a function received, in the driver's value syntax"""
    if v is None:
        return 'N'
    if isinstance(v, navis.NeuronList):
        return 's:' + ','.join(_enc(x) for x in v)
    if isinstance(v, pd.Series):
        return _series_tok(v)
    if isinstance(v, np.ndarray) and v.ndim == 2:
        return 's:' + ','.join(_enc(x) for x in v)
    if isinstance(v, np.ndarray) and v.ndim == 1 and len(v) and int(v.max()) >= 1000:
        return 'a:' + _enc(v)        # a row of a 2-d array (those hold values >= 1000)
    if isinstance(v, (list, tuple)) or (isinstance(v, np.ndarray) and v.ndim == 1):
        return 's:' + ','.join(_enc(x) for x in v)
    if isinstance(v, dict):
        ik = [(k, x) for k, x in v.items() if isinstance(k, int)]
        return 'd:' + ','.join(f'{k}={_enc(x)}' for k, x in ik) + f':{len(v) - len(ik)}'
    if isinstance(v, (set, frozenset)):
        return f'x:{len(v)}'
    if hasattr(v, '__next__'):
        return 'u'
    return 'a:' + _enc(v)


def _series_tok(s):
    ik = [(int(k), x) for k, x in s.items() if isinstance(k, (int, np.integer))]
    return 'd:' + ','.join(f'{k}={_enc(x)}' for k, x in ik) + f':{len(s) - len(ik)}'


def make_val(kind, n, rng, nl):
    """(python value factory, driver token).  A factory because generators are single use."""
    other = n + 1 if n != 1 else 3
    ints = lambda k: [rng.randint(0, 99) for _ in range(k)]
    if kind == 'int':
        v = rng.randint(0, 99); return (lambda: v), f'a:{v}'
    if kind == 'none':
        return (lambda: None), 'N'
    if kind in ('str_n', 'str_other'):
        s = ''.join(rng.choice('abcxyz') for _ in range(n if kind == 'str_n' else other)); return (lambda: s), f'a:q{s}'
    if kind in ('list_n', 'list_other', 'empty_list'):
        v = ints(n if kind == 'list_n' else (0 if kind == 'empty_list' else other)); return (lambda: v), _show(v)
    if kind == 'tuple_n':
        v = tuple(ints(n)); return (lambda: v), _show(v)
    if kind in ('array_n', 'array_other'):
        v = np.array(ints(n if kind == 'array_n' else other)); return (lambda: v), _show(v)
    if kind == 'array2d_n':
        v = np.array([[1000 + x for x in ints(2)] for _ in range(n)]); return (lambda: v), _show(v)
    if kind == 'nl_n':
        v = small_nl(n, rng, id0=5000); return (lambda: v), _show(v)
    if kind == 'dict_keys':
        v = {i: rng.randint(0, 99) for i in range(n)}; return (lambda: v), _show(v)
    if kind == 'dict_other':
        v = {f'k{i}' if rng.random() < 0.5 else i + rng.choice([0, 0, 50]): rng.randint(0, 99) for i in range(n)}
        return (lambda: v), _show(v)
    if kind == 'dict_size_other':
        v = {i: rng.randint(0, 99) for i in range(other)}; return (lambda: v), _show(v)
    if kind in ('set_n', 'set_other'):
        v = set(rng.sample(range(100), n if kind == 'set_n' else other)); return (lambda: v), _show(v)
    if kind == 'gen':
        vals = ints(n); return (lambda: (x for x in vals)), 'u'
    if kind == 'series_range':
        v = pd.Series(ints(n)); return (lambda: v), _series_tok(v)
    if kind == 'series_perm':
        idx = list(range(n)); rng.shuffle(idx); v = pd.Series(ints(n), index=idx); return (lambda: v), _series_tok(v)
    if kind == 'series_str':
        v = pd.Series(ints(n), index=[f's{i}' for i in range(n)]); return (lambda: v), _series_tok(v)
    raise ValueError(kind)


class Recorder:
    """Per-neuron function: records what it received, fails on request, returns what the plan says."""

    def __init__(self, tag, fails, rets, log):
        self.tag, self.fails, self.rets, self.log = tag, fails, rets, log
        self.__name__ = f'rec{tag}'

    def __call__(self, x, *args, **kwargs):
        if isinstance(x, navis.TreeNeuron):
            first, i = f'n{int(x.id) - 1000}', int(x.id) - 1000
        else:
            first, i = 'L' + ','.join(str(int(y.id) - 1000) for y in x), None
        rec = f"({first}|" + ' '.join(_show(a) for a in args) + '|' + ' '.join(f'{k}~{_show(v)}' for k, v in kwargs.items()) + ')'
        self.log.append((self.tag, i, rec))
        if i is not None and i in self.fails:
            raise ValueError('boom')
        kind = self.rets[i] if i is not None and i < len(self.rets) else 'o'
        if kind == 'n':
            return x
        if kind == 'l':
            return navis.NeuronList([x, x])
        if kind == '0':
            return None
        return ('val', i)


class FakeProcessingPool:
    """In-process stand-in for pathos' pool: ordered `imap` honours the chunk size, `imap_unordered` really is
    unordered (so that swapping one for the other is visible without spawning processes)."""
    chunks_seen = None

    def __init__(self, n=None):
        self.n = n

    def __enter__(self):
        return self

    def __exit__(self, *a):
        return False

    def imap(self, fn, it, chunksize=1):
        items = list(it)
        FakeProcessingPool.chunks_seen = chunksize
        cs = max(1, int(chunksize))
        out = []
        for s in range(0, len(items), cs):
            out.extend([fn(x) for x in items[s:s + cs]])
        return iter(out)

    def map(self, fn, it, chunksize=1):
        return list(self.imap(fn, it, chunksize))

    def imap_unordered(self, fn, it, chunksize=1):
        FakeProcessingPool.chunks_seen = chunksize
        items = list(it)
        res = [fn(x) for x in items]
        return iter(res[::-1])


def case_zipw(ctx, case):
    r = _random.Random(case['seed'])
    n = case['n']
    nl = small_nl(n, r)
    pos = [make_val(k, n, r, nl) for k in case['pos']]
    kws = [(f'k{j}', make_val(k, n, r, nl)) for j, k in enumerate(case['kw'])]
    excl_pos = case['excl_pos']
    excl_kw = [f'k{j}' for j in case['excl_kw'] if j < len(kws)]
    fails = set() if 0 in excl_pos else set(case['fails'])   # a call that receives the whole list cannot tell which one it is
    rets = case['rets']
    per_fn = case['per_fn']
    log = []
    funcs = [Recorder(i if per_fn else 0, fails, rets, log) for i in range(n)] if per_fn else Recorder(0, fails, rets, log)
    omit, cs = case['omit'], case['cs']
    saved = CU.ProcessingPool
    CU.ProcessingPool = FakeProcessingPool
    try:
        proc = CU.NeuronProcessor(nl, funcs, parallel=cs > 0, n_cores=case.get('n_cores', 2), chunksize=max(cs, 1),
                                  progress=False, omit_failures=omit, exclude_zip=list(excl_pos) + excl_kw)
        try:
            res = proc(nl, *[f() for f, _ in pos], **{k: f() for k, (f, _) in kws})
            err = None
        except BaseException as e:
            res, err = None, e
    finally:
        CU.ProcessingPool = saved
    ep = ','.join(map(str, excl_pos)) or '-'
    ek = ','.join(excl_kw) or '-'
    fl = ','.join(map(str, sorted(fails))) or '-'
    line = (f"c09.zipw {n} {1 if omit else 0} {cs} {fl} {ep} {ek} | " + ' '.join(t for _, t in pos) + ' | ' +
            ' '.join(f'{k}~{t}' for k, (_, t) in kws))
    model = ctx.ask(line)
    ctx.count('zipw_kinds', ','.join(sorted(set(case['pos'] + case['kw']))) if False else len(case['pos']) + len(case['kw']))
    for k in case['pos'] + case['kw']:
        ctx.count('zipw_value_kind', k)
    ctx.count('zipw_mode', ('parallel' if cs else 'serial') + ('/perfn' if per_fn else ''))
    if err is not None:
        ctx.count('zipw_outcome', 'raise:' + type(err).__name__)
        ctx.corr('RAISE', model, 'NeuronProcessor.__call__: raises', case)
        # property: an exception is only acceptable if it does not depend on how the work is distributed —
        # the model (which has no notion of workers) must raise as well, checked by the line above.
        return
    ctx.count('zipw_outcome', 'ok')
    if model == 'RAISE' or model == 'BAD-OP':
        ctx.corr('returns', model, 'NeuronProcessor.__call__: model raises, navis returns', case)
        return
    want_calls = model.split('&') if model else []
    # what was called, in call order
    got_calls = [f'{i}{rec}' for (tag, i, rec) in log if i is not None and i not in fails] if 0 not in excl_pos else None
    if 0 in excl_pos:
        # every call received the whole list: compare records only
        got_calls = [f'{k}{rec}' for k, (tag, i, rec) in enumerate(log) if k not in fails]
    ctx.corr(got_calls, want_calls, 'NeuronProcessor.__call__: what each surviving neuron\'s function received, in order', case)
    if per_fn and 0 not in excl_pos:
        ctx.oracle(all(tag == i for (tag, i, rec) in log), 'per-neuron functions: function k was not applied to neuron k', case)
    # result packing
    survivors = [i for i in range(n) if i not in fails] if 0 not in excl_pos else [i for i in range(n)]
    if 0 not in excl_pos:
        rs = []
        for i in survivors:
            kind = rets[i] if i < len(rets) else 'o'
            rs.append({'n': f'n:{i}', 'l': f'l:{i},{i}', '0': '0', 'o': f'o:{i}'}[kind])
        fin = ctx.ask('c09.finish ' + ' '.join(rs))
        if isinstance(res, navis.NeuronList):
            impl = 'NL:' + ','.join(str(int(x.id) - 1000) for x in res)
        elif res is None:
            impl = 'NONE'
        else:
            impl = 'LIST:' + ' '.join('0' if x is None else (f'n:{int(x.id) - 1000}' if isinstance(x, navis.TreeNeuron)
                                      else (f"l:{','.join(str(int(y.id) - 1000) for y in x)}" if isinstance(x, navis.NeuronList)
                                            else f'o:{x[1]}')) for x in res)
        ctx.corr(impl, fin, 'NeuronProcessor.__call__: packing of the results (NeuronList / None / list)', case)
        # property-level reading, independent of the model
        if isinstance(res, list):
            ctx.oracle(len(res) == len(survivors), f'{len(res)} results for {len(survivors)} surviving neurons', case)
        if isinstance(res, navis.NeuronList) and all((rets[i] if i < len(rets) else 'o') == 'n' for i in survivors):
            ctx.oracle([int(x.id) - 1000 for x in res] == survivors,
                       f'mapped NeuronList not in list order / wrong neurons removed: {[int(x.id) - 1000 for x in res]} vs {survivors}', case)
    if cs:
        ctx.count('chunksize_reached_pool', FakeProcessingPool.chunks_seen == cs)


# ---- map_neuronlist -----------------------------------------------------------------------------
_MAPLOG = []


def _mk_probe(can_zip, must_zip, allow_parallel, has_inplace, inplace_default):
    if has_inplace:
        @navis.utils.map_neuronlist(desc='probe', can_zip=can_zip, must_zip=must_zip, allow_parallel=allow_parallel)
        def probe(x, p1=None, p2=None, *, cz=None, mz=None, other=None, fails=(), inplace=inplace_default):
            """Probe.

            Parameters
            ----------
            x :     neuron

            Returns
            -------
            neuron
            """
            i = int(x.id) - 1000
            _MAPLOG.append((i, f"(n{i}|{_show(p1)} {_show(p2)}|cz~{_show(cz)} mz~{_show(mz)} other~{_show(other)} inplace~a:{bool(inplace)})"))
            if i in fails:
                raise ValueError('boom')
            return x if inplace else x.copy()
    else:
        @navis.utils.map_neuronlist(desc='probe', can_zip=can_zip, must_zip=must_zip, allow_parallel=allow_parallel)
        def probe(x, p1=None, p2=None, *, cz=None, mz=None, other=None, fails=()):
            """Probe.

            Parameters
            ----------
            x :     neuron

            Returns
            -------
            neuron
            """
            i = int(x.id) - 1000
            _MAPLOG.append((i, f"(n{i}|{_show(p1)} {_show(p2)}|cz~{_show(cz)} mz~{_show(mz)} other~{_show(other)})"))
            if i in fails:
                raise ValueError('boom')
            return x.copy()
    return probe


_PROBES = {}


def case_mapnl(ctx, case):
    r = _random.Random(case['seed'])
    n = case['n']
    nl = small_nl(n, r)
    cfg = (tuple(case['can_zip']), tuple(case['must_zip']), case['allow_parallel'], case['has_inplace'], case['inplace_default'])
    if cfg not in _PROBES:
        _PROBES[cfg] = _mk_probe(list(cfg[0]), list(cfg[1]), cfg[2], cfg[3], cfg[4])
    probe = _PROBES[cfg]
    vals = {k: make_val(kind, n, r, nl) for k, kind in case['kw'].items()}
    pos = [make_val(kind, n, r, nl) for kind in case['pos']]
    fails = tuple(case['fails'])
    parallel, omit, inplace_kw, cs = case['parallel'], case['omit'], case['inplace_kw'], case['cs']
    kwargs = {k: f() for k, (f, _) in vals.items()}
    kwargs['fails'] = fails
    if inplace_kw is not None and case['has_inplace']:
        kwargs['inplace'] = inplace_kw
    if omit is not None:
        kwargs['omit_failures'] = omit
    if parallel:
        kwargs['parallel'] = True
        kwargs['n_cores'] = 2
    if cs:
        kwargs['chunksize'] = cs
    del _MAPLOG[:]
    before = list(nl.neurons)
    saved = CU.ProcessingPool
    CU.ProcessingPool = FakeProcessingPool
    try:
        try:
            res, err = probe(nl, *[f() for f, _ in pos], **kwargs), None
        except BaseException as e:
            res, err = None, e
    finally:
        CU.ProcessingPool = saved
    # model: plan, then the per-neuron calls under that plan
    kw_tokens = [f'{k}~{t}' for k, (_, t) in vals.items()]
    kw_tokens.append('fails~' + ('s:' + ','.join(map(str, fails)) if fails else 's:'))
    if 'inplace' in kwargs:
        kw_tokens.append(f"inplace~a:{bool(kwargs['inplace'])}")
    if omit is not None:
        kw_tokens.append(f'omit_failures~a:{bool(omit)}')
    if parallel:
        kw_tokens.append('n_cores~a:2')
    if cs:
        kw_tokens.append(f'chunksize~a:{cs}')
    ik = '-' if 'inplace' not in kwargs else ('1' if kwargs['inplace'] else '0')
    ok_ = '-' if omit is None else ('1' if omit else '0')
    head = (f"{','.join(cfg[0]) or '-'} {','.join(cfg[1]) or '-'} {int(cfg[2])} {int(cfg[3])} {int(cfg[4])} {n} {len(pos)} "
            f"{int(parallel)} {ik} {ok_}")
    plan = ctx.ask(f"c09.mapnl {head} | " + ' '.join(kw_tokens))
    ctx.count('mapnl_plan', plan.split()[0] + (':' + plan.split()[1] if plan.startswith('ERR') else ''))
    ctx.count('mapnl_mode', f"par={int(parallel)} omit={ok_} inplace={ik} cs={cs}")
    if plan.startswith('ERR'):
        kind = plan.split()[1]
        want = {'noParallel': ValueError, 'canZipLen': ValueError, 'mustZipLen': ValueError, 'typeError': TypeError}[kind]
        ctx.corr(type(err).__name__ if err is not None else 'returns', want.__name__,
                 f'map_neuronlist: validation outcome ({kind})', case)
        ctx.oracle(list(nl.neurons) == before, 'map_neuronlist: the input list was modified although the call was rejected', case)
        return
    if not plan.startswith('OK'):
        ctx.corr(plan, 'OK …', 'driver: c09.mapnl', case)
        return
    fields = dict(x.split('=', 1) for x in plan.split()[1:])
    epos, ekw = fields['pos'], fields['kw']
    force, swap, momit = fields['force'] == '1', fields['swap'], fields['omit'] == '1'
    passed = [k for k in fields['passed'].split(',') if k]
    ptoks = []
    for k in passed:
        if k == 'inplace':
            ptoks.append(f"inplace~a:{True if force else bool(kwargs['inplace'])}")
        elif k == 'fails':
            ptoks.append('fails~' + ('s:' + ','.join(map(str, fails)) if fails else 's:'))
        else:
            ptoks.append(f'{k}~{vals[k][1]}')
    fl = ','.join(map(str, sorted(fails))) or '-'
    line = (f"c09.zipw {n} {1 if momit else 0} {cs if parallel else 0} {fl} {epos or '-'} {ekw or '-'} | " +
            ' '.join(t for _, t in pos) + ' | ' + ' '.join(ptoks))
    model = ctx.ask(line)
    if model == 'RAISE':
        ctx.corr('returns' if err is None else 'RAISE', 'RAISE', 'map_neuronlist → NeuronProcessor: raises', case)
        return
    if err is not None:
        ctx.corr('RAISE ' + type(err).__name__ + ': ' + str(err)[:80], model, 'map_neuronlist → NeuronProcessor: navis raises, model returns', case)
        return
    # what each surviving neuron received: re-render the model's generic call in the probe's fixed signature
    def render(call):
        i, body = call.split('(', 1)
        first, args, kws = body[:-1].split('|')
        args = args.split() + ['N', 'N']
        kd = dict(x.split('~', 1) for x in kws.split())
        s = f"(n{i}|{args[0]} {args[1]}|cz~{kd.get('cz', 'N')} mz~{kd.get('mz', 'N')} other~{kd.get('other', 'N')}"
        if case['has_inplace']:
            s += f" inplace~{kd.get('inplace', 'a:' + str(bool(case['inplace_default'])))}"
        return int(i), s + ')'
    want = [render(c) for c in model.split('&')] if model else []
    got = [(i, rec) for (i, rec) in _MAPLOG if i not in fails]
    ctx.corr(got, want, 'map_neuronlist: what each surviving neuron\'s call received (zipped can_zip / must_zip, whole otherwise)', case)
    # inplace swap and order
    surv = [i for i in range(n) if i not in fails]
    ctx.oracle(isinstance(res, navis.NeuronList) and [int(x.id) - 1000 for x in res] == surv,
               f'map_neuronlist: result not in list order / wrong neurons removed (expected {surv})', case)
    ctx.corr(res is nl, swap in ('1', 'none'), 'map_neuronlist: which list object is returned (extracted swap test vs runtime)', case)
    eff_inplace = bool(kwargs['inplace']) if 'inplace' in kwargs else (bool(case['inplace_default']) if case['has_inplace'] else False)
    ctx.oracle((res is nl) == eff_inplace, f'map_neuronlist: the returned list is{"" if res is nl else " not"} the input list although '
               f'inplace={eff_inplace}', case)
    if eff_inplace:
        ctx.oracle([int(x.id) - 1000 for x in nl] == surv, f'map_neuronlist(inplace=True): the input list holds '
                   f'{[int(x.id) - 1000 for x in nl]} afterwards, expected the survivors {surv}', case)
    else:
        ctx.oracle(list(nl.neurons) == before, 'map_neuronlist: input list modified although inplace is false', case)
    # serial twin (property): same per-neuron arguments and same survivors when run without parallel
    if parallel:
        kw2 = {k: f() for k, (f, _) in vals.items()}
        kw2['fails'] = fails
        if 'inplace' in kwargs:
            kw2['inplace'] = kwargs['inplace']
        if omit is not None:
            kw2['omit_failures'] = omit
        del _MAPLOG[:]
        nl2 = small_nl(n, _random.Random(case['seed']))
        try:
            res2 = probe(nl2, *[f() for f, _ in pos], **kw2)
        except BaseException as e:
            res2 = e
        strip = lambda rec: rec.split(' inplace~')[0]
        got2 = [(i, strip(rec)) for (i, rec) in _MAPLOG if i not in fails]
        ctx.oracle(not isinstance(res2, BaseException) and got2 == [(i, strip(rec)) for i, rec in got]
                   and [int(x.id) for x in res2] == [int(x.id) for x in res],
                   'map_neuronlist: parallel=True and the serial run disagree on arguments / survivors / order', case)


def branchy_nl(n, rng, id0=1000):
    """small skeletons with one branch point and twigs of different length"""
    out = []
    for i in range(n):
        a, b, c = rng.randint(2, 4), rng.randint(1, 3), rng.randint(4, 6)
        rows = [(1, -1, 0.0, 0.0)]
        nid = 1
        for k in range(a):                     # trunk
            nid += 1; rows.append((nid, nid - 1, float(k + 1), 0.0))
        bp = nid
        for k in range(b):                     # short twig
            nid += 1; rows.append((nid, bp if k == 0 else nid - 1, float(a), float(k + 1)))
        for k in range(c):                     # long twig
            nid += 1; rows.append((nid, bp if k == 0 else nid - 1, float(a + k + 1), -1.0))
        df = pd.DataFrame(rows, columns=['node_id', 'parent_id', 'x', 'y'])
        df['z'] = 0.0; df['radius'] = 0.01
        out.append(navis.TreeNeuron(df, id=id0 + i, name=f'b{i}'))
    return navis.NeuronList(out)


SWAP_FUNCS = {
    'probe': None,
    'prune_by_strahler': dict(to_prune=1),
    'prune_twigs': dict(size=2.5),
    'despike_skeleton': dict(),
    'downsample_neuron': dict(downsampling_factor=2),
}
PATTERNS = {'none': lambda n: [], 'first': lambda n: [0], 'middle': lambda n: [n // 2], 'last': lambda n: [n - 1],
            'first+last': lambda n: sorted({0, n - 1}), 'all': lambda n: list(range(n))}


def _swap_run(fname, n, fails, parallel, inplace, omit, seed):
    """One call. Returns dict(outcome…) describing what is observable afterwards."""
    r = _random.Random(seed)
    nl = branchy_nl(n, r)
    items = list(nl)
    if fname != 'probe':
        for i in fails:
            dp = make_dps(r, 1, npts=(6, 8))[0]
            dp.id = 1000 + i
            items[i] = dp
    nl = navis.NeuronList(items)
    before = list(nl.neurons)
    kw = {}
    if inplace is not None:
        kw['inplace'] = inplace
    if omit is not None:
        kw['omit_failures'] = omit
    if parallel:
        kw.update(parallel=True, n_cores=2)
    if fname == 'probe':
        cfg = ((), (), True, True, False)
        if cfg not in _PROBES:
            _PROBES[cfg] = _mk_probe([], [], True, True, False)
        fn, fkw = _PROBES[cfg], dict(fails=tuple(fails))
    else:
        fn, fkw = getattr(navis, fname), dict(SWAP_FUNCS[fname])
    saved = CU.ProcessingPool
    CU.ProcessingPool = FakeProcessingPool
    try:
        try:
            res, err = fn(nl, **fkw, **kw), None
        except BaseException as e:
            res, err = None, e
    finally:
        CU.ProcessingPool = saved
    obs = lambda L: [(int(x.id) - 1000, type(x).__name__, getattr(x, 'n_nodes', None)) for x in L]
    return dict(err=type(err).__name__ if err is not None else None, same_object=res is nl,
                returned=obs(res) if res is not None else None, input_after=obs(nl),
                input_members_unchanged=list(nl.neurons) == before, fkw=fkw)


def case_swapmx(ctx, case):
    """{serial, parallel} × inplace × omit_failures × failure pattern for one mapped function: which list comes back, what
    it holds, what the input list holds afterwards, and serial == parallel."""
    fname, n, inplace, omit, pat = case['fn'], case['n'], case['inplace'], case['omit'], case['pattern']
    fails = PATTERNS[pat](n)
    eff_inplace = bool(inplace)          # all functions used here default to inplace=False
    eff_omit = bool(omit)
    surv = [i for i in range(n) if i not in fails]
    # what each survivor should look like: the function applied to that neuron alone
    want_nodes = {}
    if fname != 'probe':
        r = _random.Random(case['seed'])
        ref = branchy_nl(n, r)
        for i in surv:
            want_nodes[i] = getattr(navis, fname)(ref[i], inplace=False, **SWAP_FUNCS[fname]).n_nodes
    runs = {}
    for parallel in (False, True):
        o = _swap_run(fname, n, fails, parallel, inplace, omit, case['seed'])
        runs[parallel] = o
        tag = f"{fname}(parallel={parallel}, inplace={inplace}, omit_failures={omit}, failing={fails} of {n})"
        ctx.count('swapmx', f"{'par' if parallel else 'ser'}/inplace={inplace}/omit={omit}/{pat}")
        model = ctx.ask(f"c09.mapnl - - 1 1 0 {n} 0 {int(parallel)} {'-' if inplace is None else int(bool(inplace))} "
                        f"{'-' if omit is None else int(bool(omit))} | ")
        mswap = dict(x.split('=', 1) for x in model.split()[1:]).get('swap') if model.startswith('OK') else None
        if fails and not eff_omit:
            ctx.oracle(o['err'] is not None, f'{tag}: a failing neuron without omit_failures must raise', case)
            ctx.oracle(o['input_members_unchanged'], f'{tag}: the call raised but the input list was modified', case)
            continue
        if o['err'] is not None:
            ctx.oracle(False, f"{tag}: raises {o['err']}", case)
            continue
        ctx.corr(o['same_object'], mswap in ('1', 'none'), f'{tag}: returned object is the input list (extracted swap test vs runtime)', case)
        ctx.oracle(o['same_object'] == eff_inplace, f"{tag}: the returned list is{'' if o['same_object'] else ' not'} the input list", case)
        ids = [x[0] for x in o['returned']]
        ctx.oracle(ids == surv, f'{tag}: returned members {ids}, expected the survivors in list order {surv}', case)
        if eff_inplace:
            ctx.oracle([x[0] for x in o['input_after']] == surv,
                       f"{tag}: the input list holds {[x[0] for x in o['input_after']]} afterwards, expected the survivors {surv} "
                       '(a failing neuron removes only itself)', case)
        else:
            ctx.oracle(o['input_members_unchanged'], f'{tag}: input list members changed although inplace is false', case)
        if fname != 'probe':
            got_nodes = {x[0]: x[2] for x in o['returned']}
            ctx.oracle(got_nodes == want_nodes, f'{tag}: per-neuron results {got_nodes} differ from the function applied to each '
                       f'neuron alone {want_nodes}', case)
    a, b = runs[False], runs[True]
    ctx.oracle((a['err'] is None) == (b['err'] is None) and a['returned'] == b['returned'] and a['same_object'] == b['same_object']
               and [x[0] for x in a['input_after']] == [x[0] for x in b['input_after']],
               f"{fname}(inplace={inplace}, omit_failures={omit}, failing={fails}): serial and parallel=True disagree — "
               f"serial returned {a['returned']} (input after: {[x[0] for x in a['input_after']]}), "
               f"parallel returned {b['returned']} (input after: {[x[0] for x in b['input_after']]})", case)


def case_mapped(ctx, case):
    """map_neuronlist-decorated public function with a per-neuron argument (must_zip) and inplace swap."""
    r = _random.Random(case['seed'])
    n = case['n']
    nl = small_nl(n, r)
    srcs = [r.randint(1, x.n_nodes) for x in nl]
    depth = case['depth']
    try:
        res = navis.prune_at_depth(nl, depth, source=srcs, inplace=False)
    except Exception as e:
        ctx.oracle(False, f'prune_at_depth(NeuronList, source=<one per neuron>) raises {type(e).__name__}: {str(e)[:100]}',
                   case, signature='map_neuronlist/must_zip/source-not-zipped')
        return
    exp = [navis.prune_at_depth(x, depth, source=s, inplace=False) for x, s in zip(nl, srcs)]
    got = [sorted(x.nodes.node_id.tolist()) for x in res]
    want = [sorted(x.nodes.node_id.tolist()) for x in exp]
    ctx.oracle([x.id for x in res] == [x.id for x in nl], 'mapped function: result not in list order', case)
    ctx.oracle(got == want, f'mapped function: per-neuron `source` not matched to its neuron: got {got}, want {want}',
               case, signature='map_neuronlist/must_zip/source-not-zipped')
    # inplace=True: the same list object, neurons modified
    nl2 = small_nl(n, _random.Random(case['seed']))
    res2 = navis.prune_at_depth(nl2, depth, source=srcs, inplace=True)
    ctx.oracle(res2 is nl2 and [sorted(x.nodes.node_id.tolist()) for x in nl2] == want,
               'mapped function, inplace=True: the input list is not returned / not modified as the per-neuron calls would', case)


def case_mapdf(ctx, case):
    """`map_neuronlist_df` (segment_analysis): every frame must carry the id of the neuron it was computed from."""
    r = _random.Random(case['seed'])
    n = case['n']
    nl = small_nl(n, r)
    fails = sorted(set(case['fails']))
    items = list(nl)
    for i in fails:
        dp = make_dps(r, 1, npts=(6, 8))[0]      # segment_analysis rejects Dotprops: this neuron's run fails
        dp.id = 1000 + i
        items[i] = dp
    mixed = navis.NeuronList(items)
    omit = case['omit']
    kw = dict(omit_failures=omit)
    saved = CU.ProcessingPool
    CU.ProcessingPool = FakeProcessingPool
    try:
        if case['parallel']:
            kw.update(parallel=True, n_cores=2)
        try:
            df, err = navis.segment_analysis(mixed, **kw), None
        except Exception as e:
            df, err = None, e
    finally:
        CU.ProcessingPool = saved
    model = ctx.ask(f"c09.mapdf {n} {1 if omit else 0} {','.join(map(str, fails)) or '-'}")
    ctx.count('mapdf', f"fails={len(fails)} omit={int(omit)} par={int(case['parallel'])}")
    if err is not None:
        ctx.corr('RAISE', model, 'map_neuronlist_df: raises', case)
        if omit and len(fails) == n:
            ctx.count('mapdf_all_fail_raises', type(err).__name__)   # pd.concat([]): nothing is misattributed
        else:
            ctx.oracle((not omit) and bool(fails), f'segment_analysis(NeuronList) raised {type(err).__name__} although '
                       'omit_failures=True or nothing fails', case)
        return
    if model == 'RAISE':
        ctx.corr('returns', model, 'map_neuronlist_df: model raises, navis returns', case)
        return
    if 'neuron' not in getattr(df, 'columns', []):
        ctx.oracle(False, 'segment_analysis(NeuronList): the result carries no neuron id column', case)
        return
    single = {int(x.id) - 1000: [float(v) for v in navis.segment_analysis(x).length] for i, x in enumerate(nl) if i not in fails}
    # which single-neuron result carries which id (frames are recognised by their content: make lengths distinct)
    got = [(int(i) - 1000, [float(v) for v in g.length]) for i, g in df.groupby('neuron', sort=False)]
    want_model = []
    for pr in filter(None, model.split(',')):
        lab, src = map(int, pr.split(':'))
        want_model.append((lab, single[src]))
    # correspondence: the labelling the current source produces according to the extracted facts (Lean mapDfOf)
    ctx.corr(got, want_model, 'map_neuronlist_df: (id written into the frame, frame) pairs vs Lean mapDfOf on the extracted facts', case)
    # the property itself (unsuppressed): every surviving neuron's frame carries its own id, failing neurons remove only themselves
    want = [(i, single[i]) for i in range(n) if i not in fails]
    surv = [i for i in range(n) if i not in fails]
    ctx.oracle(got == want, f'segment_analysis(NeuronList, omit_failures={omit}): frames are labelled with the wrong neuron ids: '
               f'got ids {[g[0] for g in got]} for the results of neurons {surv} (failing: {fails})', case)


# ---- other distributors -------------------------------------------------------------------------
def make_syn(rng, n):
    out = []
    for i in range(n):
        m = rng.randint(4, 8)
        df = pd.DataFrame({'node_id': np.arange(1, m + 1), 'parent_id': [-1] + list(range(1, m)),
                           'x': np.arange(m, dtype=float), 'y': 0.0, 'z': 0.0, 'radius': 0.01})
        x = navis.TreeNeuron(df, id=rng.randint(1, 10 ** 6) * 10 + i, units='1 micron')
        k = rng.randint(3, 7)
        x.connectors = pd.DataFrame({'connector_id': np.arange(k), 'node_id': [rng.randint(1, m) for _ in range(k)],
                                     'x': [rng.uniform(0, 6) for _ in range(k)], 'y': [rng.uniform(-1, 1) for _ in range(k)],
                                     'z': [rng.uniform(-1, 1) for _ in range(k)], 'type': ['pre', 'post'] + [rng.choice(['pre', 'post']) for _ in range(k - 2)]})
        out.append(x)
    return navis.NeuronList(out)


def case_synblast(ctx, case):
    r = _random.Random(case['seed'])
    q, t = make_syn(r, case['nq']), make_syn(r, case['nt'])
    rows, cols, scores = case['rows'], case['cols'], case['scores']
    kw = dict(progress=False, by_type=case.get('by_type', False))
    try:
        serial = navis.synblast(q, t, scores=scores, n_cores=1, **kw)
    except Exception as e:
        ctx.count('serial_error', 'synblast/' + type(e).__name__)
        return
    with Forced(rows, cols, _random.Random(case['seed'] + 1), mod=SF) as F:
        try:
            par, err = navis.synblast(q, t, scores=scores, n_cores=case.get('n_cores', 4), **kw), None
        except Exception as e:
            par, err = None, e
    ctx.count('fn', 'synblast'); ctx.count('grid', f'{rows}x{cols}')
    if err is not None:
        ctx.oracle(False, f'synblast with partition {rows}x{cols} raises {type(err).__name__}: {str(err)[:100]}', case)
        return
    ctx.oracle(frames_equal(serial, par), f'synblast differs between serial run and partition {rows}x{cols} '
               f'with completion order {F.order}', case)
    recs = F.records
    if rows * cols > 1 and recs:
        model = ctx.ask(f"c09.jobs {len(q)} {len(t)} {rows} {cols}")
        impl = '|'.join(';'.join([csv(nb.queries_ix), csv(nb.targets_ix), csv(kwargs['q_idx']), csv(kwargs['t_idx'])])
                        for (f, nb, kwargs, res) in recs)
        ctx.corr(impl, model, 'synblast job grid', case)
        sb = SF.SynBlaster(normalized=True, by_type=kw['by_type'], smat='auto', progress=False)
        qsh = [sb.calc_self_hit(n.connectors) for n in q]; tsh = [sb.calc_self_hit(n.connectors) for n in t]
        for (f, nb, kwargs, res) in recs:
            check_prog(ctx, case, 'synblast', nb, kwargs, {'query': q, 'target': t}, {'query': qsh, 'target': tsh})
        blocks = [f"{csv(recs[i][1].queries_ix)};{csv(recs[i][1].targets_ix)};{mat_tokens(recs[i][3])}" for i in F.order[-1]]
        model = ctx.ask(f'c09.assemble {len(q)} {len(t)} | ' + ' | '.join(blocks))
        ctx.defn(mat_tokens(par), model, 'synblast: assembled matrix vs Lean placement of navis\' own job blocks', case)


def case_nlinit(ctx, case):
    """NeuronList(..., parallel=True): conversion through a thread pool keeps positions."""
    r = _random.Random(case['seed'])
    n = case['n']
    nl = small_nl(n, r)
    mixed = [x if r.random() < 0.5 else x.nodes.copy() for x in nl]   # DataFrames are converted, neurons kept
    ser = navis.NeuronList(list(mixed), parallel=False)
    par = navis.NeuronList(list(mixed), parallel=True, n_cores=case['n_cores'])
    key = lambda L: [(type(x).__name__, x.n_nodes) for x in L]
    ctx.oracle(key(ser) == key(par) and key(par) == [('TreeNeuron', x.n_nodes) for x in nl],
               'NeuronList(parallel=True): converted neurons do not occupy the positions of their inputs', case)
    cp = navis.NeuronList(nl, make_copy=True, parallel=True, n_cores=case['n_cores'])
    ctx.oracle([x.id for x in cp] == [x.id for x in nl], 'NeuronList(make_copy=True, parallel=True): order changed', case)


# ---------------------------------------------------------------------------------------------
def gen_cases(ctx):
    r = ctx.rng
    # exhaustive small grid of (rows, cols) for tiny lists, then random
    small = [(fn, nq, nt, rows, cols) for fn in ('nblast', 'allbyall') for nq in (1, 2, 3, 5) for nt in (2, 3, 4)
             for rows in range(1, nq + 1) for cols in range(1, nt + 1) if rows * cols > 1]
    r.shuffle(small)
    nb = ctx.budget(40, 400)
    for (fn, nq, nt, rows, cols) in small[:nb]:
        if fn == 'allbyall':
            nt = nq
            cols = min(cols, nq)
            if rows * cols == 1:
                continue
        yield ('nblast', dict(fn=fn, nq=nq, nt=nt, rows=rows, cols=cols,
                              scores=r.choice(['forward', 'mean', 'min', 'max']) if fn == 'nblast' else 'forward',
                              use_alpha=r.random() < 0.3, normalized=r.random() < 0.8, seed=r.randrange(10 ** 9)))
    for _ in range(ctx.budget(40, 400)):
        fn = r.choice(['nblast', 'allbyall'])
        nq, nt = r.randint(2, 9), r.randint(2, 9)
        if fn == 'allbyall':
            nt = nq
        rows, cols = r.randint(1, nq), r.randint(1, nt)
        if rows * cols == 1:
            cols = 2
        c = dict(fn=fn, nq=nq, nt=nt, rows=rows, cols=cols,
                 scores=r.choice(['forward', 'mean', 'min', 'max']) if fn == 'nblast' else 'forward',
                 use_alpha=r.random() < 0.3, normalized=r.random() < 0.8, n_cores=r.randint(2, 16), seed=r.randrange(10 ** 9))
        if fn == 'nblast' and r.random() < 0.15:
            c['self_target'] = True; c['nt'] = nq; c['cols'] = min(cols, nq) if rows > 1 else max(2, min(cols, nq))
        yield ('nblast', c)
    for _ in range(ctx.budget(14, 80)):
        nq, nt = r.randint(2, 7), r.randint(2, 7)
        rows, cols = r.randint(1, nq), r.randint(1, nt)
        if rows * cols == 1:
            rows = 2
        yield ('nblast', dict(fn='nblast', nq=nq, nt=nt, rows=rows, cols=cols, scores='both',
                              normalized=r.random() < 0.8, seed=r.randrange(10 ** 9)))
    for _ in range(ctx.budget(24, 160)):
        nq, nt = r.randint(2, 6), r.randint(2, 6)
        aba = r.random() < 0.25
        if aba:
            nt = nq
        rows, cols = r.randint(1, nq), r.randint(1, nt)
        if rows * cols == 1:
            cols = 2
        crit = r.choice(['percentile', 'percentile', 'score', 'score', 'N'])
        tt = {'percentile': r.choice([1, 25, 50, 75, 99]), 'score': r.choice([-1, 0, 0, 1]), 'N': r.randint(0, nt)}[crit]
        c = dict(fn='smart', nq=nq, nt=nt, rows=rows, cols=cols, scores=r.choice(['forward', 'mean', 'min', 'max']),
                 criterion=crit, t=tt, seed=r.randrange(10 ** 9))
        if aba:
            c['self_target'] = True
        yield ('nblast', c)
    for _ in range(ctx.budget(40, 400)):
        fn = r.choice(['nblast', 'nblast', 'allbyall', 'smart', 'smartaba'])
        nq, nt = r.randint(1, 7), r.randint(1, 7)
        if fn.startswith('smart'):
            nq, nt = max(nq, 2), max(nt, 2)
        yield ('natural', dict(fn=fn, nq=nq, nt=nq if fn in ('allbyall', 'smartaba') else nt,
                               n_cores=r.randint(1, 16),
                               progress=r.random() < 0.4, npb=r.choice([1, 1, 2, 3, 5]), seed=r.randrange(10 ** 9)))
    # partition functions: exhaustive small scope first
    ex = [(N, nq, nt) for N in range(1, ctx.budget(9, 25)) for nq in range(1, ctx.budget(7, 17)) for nt in range(1, ctx.budget(7, 17))]
    for (N, nq, nt) in ex:
        yield ('partfn', dict(N=N, nq=nq, nt=nt))
    for _ in range(ctx.budget(150, 3000)):
        yield ('partfn', dict(N=r.randint(1, 32), nq=r.randint(1, 40), nt=r.randint(1, 40), npb=r.randint(1, 9), nc=r.randint(1, 16),
                              T=r.choice([10, 50, 60, 100]), ta=r.randint(1, 9), tb=r.randint(1, 500)))
    for _ in range(ctx.budget(100, 1500)):
        yield ('apply', dict(n=r.randint(1, 6), kinds=[r.choice(['scalar', 'len_n', 'len_other', 'absent']) for _ in range(3)],
                             pfail=r.choice([0, 0, 0.3, 0.6]), omit=r.random() < 0.6, seed=r.randrange(10 ** 9)))
    for _ in range(ctx.budget(350, 5000)):
        n = r.randint(1, 6)
        npos, nkw = r.randint(0, 3), r.randint(0, 3)
        yield ('zipw', dict(n=n, pos=[r.choice(KINDS) for _ in range(npos)], kw=[r.choice(KINDS) for _ in range(nkw)],
                            excl_pos=sorted(set(r.choice([1, 2, 3, 3, 0]) for _ in range(r.choice([0, 0, 1, 2])))),
                            excl_kw=sorted(set(r.randint(0, 2) for _ in range(r.choice([0, 0, 1, 2])))),
                            fails=sorted(set(i for i in range(n) if r.random() < r.choice([0, 0, 0.3, 0.7]))),
                            rets=[r.choice(['n', 'n', 'n', 'l', '0', 'o']) if r.random() < 0.4 else 'n' for _ in range(n)] if r.random() < 0.7
                            else [r.choice(['0', 'o']) for _ in range(n)],
                            per_fn=r.random() < 0.3, omit=r.random() < 0.6, cs=r.choice([0, 0, 1, 2, 3, 7]), seed=r.randrange(10 ** 9)))
    for _ in range(ctx.budget(250, 3000)):
        n = r.randint(1, 5)
        ck = lambda: r.choice(['int', 'none', 'str_n', 'list_n', 'list_n', 'list_other', 'array_n', 'tuple_n', 'nl_n', 'set_n', 'gen',
                               'dict_keys', 'dict_size_other', 'empty_list', 'str_other', 'array_other'])
        kw = {}
        for k in ('cz', 'mz', 'other'):
            if r.random() < 0.65:
                kw[k] = ck()
        yield ('mapnl', dict(n=n, can_zip=r.choice([['cz'], ['cz'], [], ['cz', 'other']]), must_zip=r.choice([['mz'], ['mz'], []]),
                             allow_parallel=r.random() < 0.8, has_inplace=r.random() < 0.7, inplace_default=r.random() < 0.2,
                             kw=kw, pos=[ck() for _ in range(r.choice([0, 0, 1, 2]))],
                             fails=sorted(set(i for i in range(n) if r.random() < r.choice([0, 0, 0.4]))),
                             parallel=r.random() < 0.4, omit=r.choice([None, None, True, False]),
                             inplace_kw=r.choice([None, None, True, False]), cs=r.choice([0, 0, 1, 2, 5]), seed=r.randrange(10 ** 9)))
    # the full combination matrix of the in-place swap, exhaustive in both tiers
    for fname in SWAP_FUNCS:
        for inplace in (True, False, None):
            for omit in (True, False, None):
                for pat in PATTERNS:
                    if fname == 'downsample_neuron' and pat != 'none':
                        continue      # accepts Dotprops: no failing member available
                    if ctx.quick() and fname not in ('probe', 'prune_by_strahler') and (inplace is None or omit is None):
                        continue
                    yield ('swapmx', dict(fn=fname, n=r.choice([3, 4, 5]) if pat != 'all' else r.choice([1, 3]), inplace=inplace,
                                          omit=omit, pattern=pat, seed=r.randrange(10 ** 9)))
    for _ in range(ctx.budget(10, 100)):
        yield ('mapped', dict(n=r.randint(2, 5), depth=r.choice([1, 2, 3]), seed=r.randrange(10 ** 9)))
    for _ in range(ctx.budget(12, 120)):
        nq, nt = r.randint(2, 6), r.randint(2, 6)
        rows, cols = r.randint(1, nq), r.randint(1, nt)
        if rows * cols == 1:
            rows = 2
        yield ('synblast', dict(nq=nq, nt=nt, rows=rows, cols=cols, scores=r.choice(['forward', 'mean', 'min', 'max']),
                                by_type=r.random() < 0.3, n_cores=r.randint(2, 16), seed=r.randrange(10 ** 9)))
    for _ in range(ctx.budget(24, 200)):
        n = r.randint(1, 6)
        yield ('mapdf', dict(n=n, fails=sorted(set(i for i in range(n) if r.random() < r.choice([0, 0.3, 0.5]))),
                             omit=r.random() < 0.8, parallel=r.random() < 0.3, seed=r.randrange(10 ** 9)))
    for _ in range(ctx.budget(10, 60)):
        yield ('nlinit', dict(n=r.randint(1, 9), n_cores=r.randint(1, 8), seed=r.randrange(10 ** 9)))


RUNNERS = {'nblast': case_nblast, 'natural': case_natural, 'partfn': case_partition_fn, 'apply': case_apply,
           'zipw': case_zipw, 'mapnl': case_mapnl, 'mapdf': case_mapdf, 'mapped': case_mapped, 'swapmx': case_swapmx, 'synblast': case_synblast, 'nlinit': case_nlinit}


def run(ctx):
    ctx.extra['rule'] = ('nblast cases: (function, |q|, |t|, rows, cols, score mode incl. both, criterion, seed) with forced '
                         'partition and seeded completion permutation, non-trivial when rows*cols>1; natural cases: pinned timing, '
                         'n_cores None/0/1..16, progress on/off; partition-function cases (exhaustive small scope + random); '
                         'apply / zipw cases (list length, value kind per positional and keyword argument, exclusion lists, '
                         'failing subset, per-neuron functions, result kinds, chunk size); mapnl cases (decorator configuration × '
                         'keywords × parallel / omit / inplace); synblast; NeuronList(parallel=True); distinct = distinct JSON digest')
    facts = ctx.ask('c09.facts')
    ctx.extra['source_facts'] = facts
    ctx.notes.append('forced partitions / permuted completion use an in-process executor (module attributes of navis.nbl.nblast_funcs / '
                     'synblast_funcs are replaced for the duration of a call); real spawn / pathos / multiprocessing pools run in the thorough tier only')
    ctx.notes.append("nblast_smart(criterion='N') used to raise for every input under pandas 3 (read-only mask; fixed in 521b15b): its cases "
                     "now run through the same forced partitions as the other criteria; any call that raises serially is counted under serial_error")
    for kind, case in gen_cases(ctx):
        c = dict(case, kind=kind)
        ctx.case(c, nontrivial=True)
        ctx.count('stream', kind)
        RUNNERS[kind](ctx, c)
    if not ctx.quick():
        real_pools(ctx)


def replay(ctx, rp):
    case = rp['case']
    kind = case.get('kind')
    ctx.case(case)
    if kind is None:   # replay files written before the case carried its stream name
        kind = next((k for k, keys in (('mapdf', {'fails', 'omit', 'parallel', 'n'}), ('nblast', {'fn', 'rows', 'cols'}),
                                       ('natural', {'fn', 'npb', 'progress'}), ('zipw', {'pos', 'kw', 'rets'}),
                                       ('mapnl', {'can_zip', 'must_zip'}), ('swapmx', {'fn', 'pattern', 'inplace'}), ('apply', {'kinds', 'pfail'}),
                                       ('synblast', {'by_type', 'rows'}), ('mapped', {'depth'}), ('nlinit', {'n', 'n_cores'}),
                                       ('partfn', {'N', 'nq', 'nt'})) if keys <= set(case)), None)
    if kind in RUNNERS:
        RUNNERS[kind](ctx, case)
    elif kind in ('realpool', 'pathos', 'others'):
        real_pools(ctx)


def _ff_probe(x):
    return float(x.n_nodes)


def real_pools(ctx):
    """Thorough tier: real spawn pools, several core counts; pathos pools for parallel=True; other pool users."""
    r = _random.Random(ctx.seed)
    q = make_dps(r, 5); t = make_dps(r, 6)
    serial = navis.nblast(q, t, n_cores=1, progress=False)
    both_s = navis.nblast(q, t, n_cores=1, scores='both', progress=False)
    smart_s = navis.nblast_smart(q, t, n_cores=1, progress=False, t=50)
    aba_s = navis.nblast_allbyall(q, n_cores=1, progress=False)
    saved = (NF.find_batch_partition, NF.find_optimal_partition)
    try:
        for nc, (rows, cols) in [(2, (2, 1)), (3, (1, 3)), (4, (2, 2)), (8, (2, 4)), (16, (4, 4))]:
            NF.find_batch_partition = lambda *a, **k: (rows, cols)
            NF.find_optimal_partition = lambda *a, **k: (rows, cols)
            case = dict(kind='realpool', n_cores=nc, rows=rows, cols=cols)
            ctx.case(case)
            par = navis.nblast(q, t, n_cores=nc, progress=False)
            ctx.oracle(frames_equal(serial, par), f'real spawn pool n_cores={nc} partition {rows}x{cols} differs from serial', case)
            if nc in (4, 16):
                par = navis.nblast(q, t, n_cores=nc, scores='both', progress=False)
                ctx.oracle(frames_equal(both_s, par), f'real spawn pool n_cores={nc} scores=both differs from serial', case)
                par = navis.nblast_smart(q, t, n_cores=nc, progress=False, t=50)
                ctx.oracle(frames_equal(smart_s, par), f'real spawn pool n_cores={nc} nblast_smart differs from serial', case)
            NF.find_optimal_partition = lambda *a, **k: (min(rows, 5), min(cols, 5))
            aba_p = navis.nblast_allbyall(q, n_cores=nc, progress=False)
            ctx.oracle(frames_equal(aba_s, aba_p), f'real pool all-by-all n_cores={nc} differs from serial', case)
    finally:
        NF.find_batch_partition, NF.find_optimal_partition = saved
    # the partition navis picks by itself, real pools
    for nc in (2, 3, 5, 16):
        case = dict(kind='realpool', n_cores=nc, natural=True)
        ctx.case(case)
        ctx.oracle(frames_equal(serial, navis.nblast(q, t, n_cores=nc, progress=False)), f'nblast n_cores={nc} (own partition) differs', case)
        ctx.oracle(frames_equal(aba_s, navis.nblast_allbyall(q, n_cores=nc, progress=False)), f'allbyall n_cores={nc} (own partition) differs', case)
    nl = small_nl(9, r)
    ser = [float(v) for v in navis.morpho.cable_length(nl)]
    ser_apply = nl.apply(_probe, b=list(range(9)), omit_failures=True, fails='1003,1007')
    for nc, cs in [(2, 1), (3, 2), (4, 3), (8, 1)]:
        case = dict(kind='pathos', n_cores=nc, chunksize=cs)
        ctx.case(case)
        par = [float(v) for v in navis.morpho.cable_length(nl, parallel=True, n_cores=nc, chunksize=cs)]
        ctx.oracle(ser == par, f'cable_length(parallel=True, n_cores={nc}, chunksize={cs}) = {par} differs from serial {ser}', case)
        par_apply = nl.apply(_probe, b=list(range(9)), omit_failures=True, fails='1003,1007', parallel=True, n_cores=nc)
        ctx.oracle(ser_apply == par_apply, f'apply(parallel=True, n_cores={nc}) differs from serial', case)
        ds = navis.downsample_neuron(nl, 2, inplace=False)
        dp = navis.downsample_neuron(nl, 2, inplace=False, parallel=True, n_cores=nc, chunksize=cs)
        ctx.oracle([x.id for x in ds] == [x.id for x in dp] and [x.n_nodes for x in ds] == [x.n_nodes for x in dp],
                   f'downsample_neuron(parallel=True, n_cores={nc}, chunksize={cs}) differs from serial', case)
    # other users of process pools
    case = dict(kind='others')
    ctx.case(case)
    try:
        import tempfile, os
        with tempfile.TemporaryDirectory() as d:
            for i, x in enumerate(nl):
                navis.write_swc(x, os.path.join(d, f'{i:02d}_{int(x.id)}.swc'))
            a = navis.read_swc(d, parallel=False)
            b = navis.read_swc(d, parallel=3)
            ctx.oracle([x.name for x in a] == [x.name for x in b] and [x.n_nodes for x in a] == [x.n_nodes for x in b],
                       'read_swc(parallel=3) returns neurons in a different order than the serial read', case)
    except Exception as e:
        ctx.notes.append(f'read_swc parallel stream skipped: {type(e).__name__}: {e}')
    try:
        fs = navis.form_factor(nl, parallel=False, num=5, progress=False)
        fp = navis.form_factor(nl, parallel=True, n_cores=3, num=5, progress=False)
        ctx.oracle(np.array_equal(fs, fp), 'form_factor(parallel=True) rows differ from the serial run', case)
    except Exception as e:
        ctx.notes.append(f'form_factor parallel stream skipped: {type(e).__name__}: {e}')
    try:
        adj = pd.DataFrame(np.array([[r.randint(0, 5) for _ in range(6)] for _ in range(6)]), index=list('abcdef'), columns=list('abcdef'))
        s1 = navis.connectivity_similarity(adj, metric='matching_index', n_cores=1)
        s2 = navis.connectivity_similarity(adj, metric='matching_index', n_cores=2)
        ctx.oracle(frames_equal(s1, s2), 'connectivity_similarity(n_cores=2) differs from n_cores=1', case)
    except Exception as e:
        ctx.notes.append(f'connectivity_similarity stream skipped: {type(e).__name__}: {e}')
