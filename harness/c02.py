"""C02 — derived views always agree with the current node table.

Tie to the real code (every run):

* the *generated* spec (TEMP_ATTR, CORE_DATA, @temp_property views, exclude literals, shapes of is_stale /
  _clear_temp_attr / wrapper / copy / __getstate__) is what the Lean theorems are stated over (translator);
* **trace refinement**: the primitive protocol events of the real object are recorded while random histories
  run on a real `navis.TreeNeuron` (in-process monkeypatches of `BaseNeuron.is_stale`,
  `BaseNeuron._clear_temp_attr`, `TreeNeuron.__setattr__` for cache attributes and `_lock`, `TreeNeuron.copy`,
  `classify_nodes`, the cached properties; content changes are detected by an independent hash of the hashed
  columns).  The same event list is run through the Lean model (`c02.run`) and after *every primitive event*
  `_stale`, `_lock`, `_current_md5 == core_md5` and the set of cache attributes in `__dict__` are compared with
  the model state; the Lean side also checks that every traced `_clear_temp_attr(exclude)` uses an exclude
  literal of the generated table, that content changes are fresh (the envelope of `history_fresh`), and the
  wrapper discipline at every property entry;
* **Inv on the implementation**: whenever the model says the stamp is current, every cache entry of the real
  object must equal the view of a freshly constructed neuron;
* **oracle** (the property): every value returned by a read, and all views at the end of a history, equal those
  of `navis.TreeNeuron(x.nodes.copy())`;
* **result oracle** for `@lock_neuron` operations (they read the cached graphs under the lock, where the staleness
  wrapper is skipped): the RESULT of reroot / subset / dist_between / dist_to_root / distal_to / segment_length on
  the used neuron equals the result of the same call on a neuron freshly built from the same table (finding
  `lock_neuron/no-staleness-check-before-lock`, fixed 4ae1633);
* **bystanders**: every object a history leaves behind (the original after `copy` / an out-of-place operation, or the
  copy when the history continues on the original; both sides of a pickle round trip) is watched: whatever happens
  to the other object afterwards, its views must keep equal those of a fresh neuron built from ITS table (finding
  `reroot_skeleton(networkx)/edits-_graph_nx-in-place`, fixed 7a5fe2d);
* **checksum resolution** (seeded change C02_4): forests with ids above 2**24 / 2**31 / 2**53, float32 / float64 tables,
  edits that move a parent link to a neighbouring id or a coordinate by less than float32 resolution.
"""
import warnings, pickle, hashlib, random, json, copy as _copy
import numpy as np
import pandas as pd

warnings.filterwarnings('ignore')
import navis
from navis.core.base import BaseNeuron
from navis.core.skeleton import TreeNeuron
import navis.graph.graph_utils as GU

navis.config.pbar_hide = True
navis.set_loggers('ERROR')

SIG_SIMPLE = 'TreeNeuron.simple/no-temp_property-wrapper/read-change-read'
SIG_SIMPLE_RADIUS = 'TreeNeuron.simple/radius-not-in-CORE_DATA/read-edit-radius-read'
SIG_ABA = 'temp_property/checksum-ABA/cache-written-under-lock-then-content-restored'
SIG_TYPE = 'nodes.type(leafs,branch_points,simple)/inplace-parent_id-edit-then-clear(exclude=classify_nodes)'
SIG_RR32 = 'reroot_skeleton(networkx)/int32-node-table/TypeError-after-graph-edit-leaves-table-indexed-by-node_id'
SIG_F64 = 'core_md5/int64-ids-upcast-to-float64/edit-changes-only-ids-above-2**53-that-collide-in-float64'

HASHED = ['node_id', 'parent_id', 'x', 'y', 'z']     # what the *property* says views depend on


# ------------------------------------------------------------------------------------------------
# spec as the Lean side sees it
# ------------------------------------------------------------------------------------------------
class SpecInfo:
    def __init__(self, line):
        d = dict(kv.split('=', 1) for kv in line.split(';'))
        self.views = []
        for v in d['views'].split(','):
            name, attr, w, sc = v.split(':')
            self.views.append(dict(name=name, attr=attr, wrapped=w == '1', selfCopy=sc == '1'))
        self.temp = d['temp'].split(',')
        self.core = d['core'].split(':')[1].split(',')
        self.drops = [x for x in d['drops'].split(',') if x]
        self.sound = d['sound'] == '1'
        self.flags = d['flags']
        self.hashbits = int(d.get('hashbits', '53') or 53)
        self.shared = [x for x in d.get('shared', '').split(',') if x]
        self.editors = {}
        for e_ in d.get('editors', '').split(','):
            if e_:
                fn, attr, det = e_.rsplit(':', 2)
                self.editors[(fn.split('.')[-1], attr)] = det == '1'
        self.attrs = [v['attr'] for v in self.views]
        self.by_name = {v['name']: v for v in self.views}
        self.by_attr = {v['attr']: v for v in self.views}


def load_spec(ctx):
    try:
        return SpecInfo(ctx.ask('c02.spec'))
    except Exception:
        # driver unavailable (model does not build): fall back to the translator's own extraction
        from translator import gen_cache
        from harness import common as C
        d = gen_cache.extract(C.REPO)
        line = ('views=' + ','.join(f"{v['name']}:{v['attr']}:{int(v['wrapped'])}:{int(v['selfCopy'])}" for v in d['views'])
                + ';temp=' + ','.join(d['tempAttr']) + ';core=' + d['coreTable'] + ':' + ','.join(d['coreCols'])
                + ';drops=' + ','.join(d['getstateDrops']) + ';nocopy=;sound=0;flags=;excl='
                + ';shared=' + ','.join(d['sharedOnCopy'])
                + ';editors=' + ','.join(f"{e['fn']}:{e['attr']}:{int(e['detaches'])}" for e in d['editors']))
        return SpecInfo(line)


# ------------------------------------------------------------------------------------------------
# tracer
# ------------------------------------------------------------------------------------------------
class Tracer:
    """Records primitive protocol events per tracked object."""

    def __init__(self):
        self.installed = False
        self.reset(None)

    def reset(self, spec):
        self.spec = spec
        self.hist = {}      # id(obj) -> [token]
        self.snaps = {}     # id(obj) -> [snapshot]  (aligned with hist)
        self.last = {}      # id(obj) -> (v, t)
        self.keep = []
        self.suppress = 0
        self.rebased = set()
        self.cids = {}
        self.tids = {}
        self.cache_attrs = set(spec.attrs) if spec else set()

    # -- content ids ---------------------------------------------------------------------------
    def content(self, obj):
        df = obj.__dict__.get('_nodes', None)
        if df is None:
            return None
        try:
            # column by column (much cheaper than a multi-column selection); ids exactly as int64, coordinates as float64
            tb = b''.join(np.asarray(df[c].values, dtype=np.int64).tobytes() for c in ('node_id', 'parent_id'))
            ab = b''.join(np.asarray(df[c].values, dtype=np.float64).tobytes() for c in ('x', 'y', 'z'))
        except Exception:
            return None      # table temporarily indexed by node_id etc.
        # the dtypes belong to the content: since core_md5 hashes every column in its own dtype a re-typed column
        # (int32 -> int64 after an operation that rebuilds the table) is a change of the checksum too
        shp = (str(len(df)) + '|' + ','.join(str(df[c].dtype) for c in HASHED)).encode()
        hv = hashlib.sha1(tb + ab + shp).hexdigest()
        ht = hashlib.sha1(tb + str(len(df)).encode()).hexdigest()
        v = self.cids.setdefault(hv, len(self.cids))
        t = self.tids.setdefault(ht, len(self.tids))
        return (v, t)

    def snapshot(self, obj):
        d = obj.__dict__
        try:
            stamp = d.get('_current_md5') == obj.core_md5
        except Exception:
            stamp = None
        return (bool(d.get('_stale', False)), int(d.get('_lock', 0)), stamp,
                tuple(sorted(k for k in d if k in self.cache_attrs)))

    def track(self, obj):
        self.keep.append(obj)
        self.hist[id(obj)] = []
        self.snaps[id(obj)] = []
        self.last[id(obj)] = self.content(obj)

    def tracked(self, obj):
        return self.suppress == 0 and id(obj) in self.hist

    def pre(self, obj):
        """Emit a change event if the hashed content differs from what was last seen."""
        if not self.tracked(obj):
            return
        c = self.content(obj)
        if c is not None and c != self.last[id(obj)]:
            self.last[id(obj)] = c
            self.hist[id(obj)].append(f'X:{c[0]}:{c[1]}')
            self.snaps[id(obj)].append(self.snapshot(obj))

    def post(self, obj, tok):
        if not self.tracked(obj):
            return
        self.hist[id(obj)].append(tok)
        self.snaps[id(obj)].append(self.snapshot(obj))

    def fork(self, src, dst, tok):
        """dst continues the history of src with `tok` (copy / pickle)."""
        if id(src) not in self.hist:
            return
        self.keep.append(dst)
        self.hist[id(dst)] = list(self.hist[id(src)]) + [tok]
        self.snaps[id(dst)] = list(self.snaps[id(src)]) + [self.snapshot(dst)]
        self.last[id(dst)] = self.last[id(src)]

    # -- patches -------------------------------------------------------------------------------
    def install(self, spec):
        if self.installed:
            return
        self.installed = True
        T = self
        o_is_stale = BaseNeuron.__dict__['is_stale'].fget

        def is_stale(self):
            T.pre(self)
            r = o_is_stale(self)
            T.post(self, 'S')
            return r
        BaseNeuron.is_stale = property(is_stale)

        o_clear = BaseNeuron._clear_temp_attr

        def _clear_temp_attr(self, exclude=[]):
            T.pre(self)
            r = o_clear(self, exclude=exclude)
            T.post(self, 'C:' + ','.join(exclude))
            return r
        BaseNeuron._clear_temp_attr = _clear_temp_attr

        o_setattr = TreeNeuron.__setattr__

        def __setattr__(self, k, v):
            if (k in T.cache_attrs or k == '_lock') and T.tracked(self):
                T.pre(self)
                old = self.__dict__.get('_lock', 0)
                o_setattr(self, k, v)
                if k == '_lock':
                    if v != old:
                        T.post(self, 'L' if v > old else 'U')
                else:
                    T.post(self, 'W:' + k)
            else:
                o_setattr(self, k, v)
        TreeNeuron.__setattr__ = __setattr__

        o_copy = TreeNeuron.copy

        def copy(self, *a, **k):
            tr = T.tracked(self)
            if tr:
                T.pre(self)
            T.suppress += 1
            try:
                r = o_copy(self, *a, **k)
            finally:
                T.suppress -= 1
            if tr:
                T.fork(self, r, 'K')
                T.post(self, 'O')
            return r
        TreeNeuron.copy = copy

        # `x.__init__(other)` on a live object (prune_distal_to / prune_proximal_to): x becomes a copy of `other`
        # and is re-stamped; in the model x continues the history of `other` with a `copy` event
        o_init = TreeNeuron.__init__

        def __init__(self, x=None, *a, **k):
            re = T.tracked(self)
            if re:
                T.pre(self)
                T.suppress += 1
            try:
                o_init(self, x, *a, **k)
            finally:
                if re:
                    T.suppress -= 1
            if re:
                if isinstance(x, TreeNeuron) and id(x) in T.hist:
                    T.hist[id(self)] = list(T.hist[id(x)]) + ['K']
                    # `__dict__.update` keeps the receiver's own left-over cache attributes until the
                    # `_clear_temp_attr()` that follows; that intermediate state is not compared (None)
                    T.snaps[id(self)] = list(T.snaps[id(x)]) + [None]
                    T.last[id(self)] = T.last[id(x)]
                else:
                    T.hist[id(self)], T.snaps[id(self)] = [], []
                    T.cids, T.tids = {}, {}
                    T.last[id(self)] = T.content(self)
                T.rebased.add(id(self))
        TreeNeuron.__init__ = __init__

        import importlib
        for modname in ('navis.graph', 'navis.graph.graph_utils'):
            mod = importlib.import_module(modname)
            o_cl = mod.classify_nodes

            def classify_nodes(x, *a, _o=o_cl, **k):
                r = _o(x, *a, **k)
                if isinstance(x, TreeNeuron):
                    T.pre(x)
                    T.post(x, 'Y')
                return r
            mod.classify_nodes = classify_nodes

        # reroot edits the graph it used in step with the table and sets the `type` of the two end points by hand
        for modname in ('navis.graph', 'navis.graph.graph_utils', 'navis'):
            mod = importlib.import_module(modname)
            o_rr = mod.reroot_skeleton

            def reroot_skeleton(x, *a, _o=o_rr, **k):
                inplace = k.get('inplace', a[1] if len(a) > 1 else False)
                tr = isinstance(x, TreeNeuron) and inplace and T.tracked(x)
                before = T.last.get(id(x)) if tr else None
                if tr:
                    T.pre(x)
                    before = T.last.get(id(x))
                r = _o(x, *a, **k)
                if tr:
                    T.pre(x)
                    if T.last.get(id(x)) != before:
                        used = '_igraph' if (navis.config.use_igraph and x.__dict__.get('_igraph') is not None) else '_graph_nx'
                        if used in x.__dict__:
                            T.post(x, 'W:' + used)
                        T.post(x, f'R:{before[1]}' if before is not None else 'Y')
                return r
            mod.reroot_skeleton = reroot_skeleton

        for v in spec.views:
            name = v['name']
            prop = TreeNeuron.__dict__.get(name)
            if not isinstance(prop, property):
                continue

            def fget(self, _o=prop.fget, _n=name):
                T.pre(self)
                T.post(self, 'E:' + _n)
                try:
                    r = _o(self)
                except BaseException:
                    # the compute body raised: close the entry with a marker (an `enter` of no view: a no-op of the model),
                    # so that what follows is not mistaken for events of this read
                    T.post(self, 'E:!aborted')
                    raise
                T.post(self, 'Q:' + _n)
                return r
            setattr(TreeNeuron, name, property(fget, prop.fset, prop.fdel, prop.__doc__))


TR = Tracer()


# ------------------------------------------------------------------------------------------------
# canonical views
# ------------------------------------------------------------------------------------------------
def fnum(v):
    v = float(v)
    if v != v:
        return 'nan'
    if v in (float('inf'), float('-inf')):
        return 'inf' if v > 0 else '-inf'
    return round(v, 6)


def canon_nx(g):
    return (sorted(int(n) for n in g.nodes), sorted((int(u), int(v), fnum(d.get('weight', 0))) for u, v, d in g.edges(data=True)))


def canon_ig(g):
    if g is None:
        return None
    ids = [int(i) for i in g.vs['node_id']]
    w = g.es['weight'] if 'weight' in g.es.attributes() else [0] * len(g.es)
    return (sorted(ids), sorted((ids[e.source], ids[e.target], fnum(wt)) for e, wt in zip(g.es, w)))


def canon_segs(s):
    return sorted(tuple(int(i) for i in seg) for seg in s)


def canon_frame(m):
    idx = [int(i) for i in m.index]
    cols = [int(i) for i in m.columns]
    vals = np.asarray(m.values if not hasattr(m, 'sparse') else m.sparse.to_dense().values, dtype=float)
    oi, oc = np.argsort(idx), np.argsort(cols)
    vals = vals[oi][:, oc]
    return (sorted(idx), sorted(cols), [[fnum(v) for v in row] for row in vals])


def canon_nodes(df, cols=('node_id', 'parent_id', 'x', 'y', 'z', 'radius')):
    cols = [c for c in cols if c in df.columns]
    colv = [[int(v) for v in df[c].values] if c in ('node_id', 'parent_id') else [fnum(v) for v in df[c].values] for c in cols]
    rows = sorted(zip(*colv)) if cols else []
    return (cols, rows)


def canon_value(name, val):
    if name == 'graph':
        return canon_nx(val)
    if name == 'igraph':
        return canon_ig(val)
    if name in ('segments', 'small_segments'):
        return canon_segs(val)
    if name in ('geodesic_matrix', 'adjacency_matrix'):
        return canon_frame(val)
    if name == 'cable_length':
        return fnum(getattr(val, 'magnitude', val))
    if name == 'simple':
        return canon_nodes(val.nodes)
    if name == 'simple_topo':
        return canon_nodes(val.nodes, cols=HASHED)
    if name == 'subtrees':
        return sorted(sorted(int(i) for i in c) for c in val)
    if name in ('leafs', 'branch_points'):
        return sorted(int(i) for i in val.node_id.values)
    if name == 'root':
        return sorted(int(i) for i in val)
    raise KeyError(name)


def canon_result(r, x_in):
    """canonical form of what an operation returned (a neuron: its hashed columns; a query: its value)"""
    if 'v' in VALUE:
        v = VALUE['v']
        if isinstance(v, dict):
            return ('dict', sorted((int(k), fnum(w)) for k, w in v.items()))
        if isinstance(v, pd.DataFrame):
            return ('frame', canon_frame(v.astype(float)))
        if isinstance(v, (list, tuple)):
            return ('list', list(v))
        if isinstance(v, (bool, np.bool_)):
            return ('bool', bool(v))
        return ('num', fnum(v))
    if isinstance(r, TreeNeuron):
        return ('neuron', canon_nodes(r.nodes, cols=HASHED))
    return ('other', str(type(r)))


def get_view(x, name):
    """('ok', canonical) or ('raise', exception type)"""
    try:
        v = getattr(x, 'simple' if name == 'simple_topo' else name)
        return ('ok', canon_value(name, v))
    except Exception as e:
        return ('raise', type(e).__name__ + ':' + str(e)[:60])


ALL_VIEWS = ['graph', 'igraph', 'segments', 'small_segments', 'geodesic_matrix', 'cable_length', 'simple',
             'adjacency_matrix', 'subtrees']
TYPE_VIEWS = ['leafs', 'branch_points', 'root']


# ------------------------------------------------------------------------------------------------
# forests
# ------------------------------------------------------------------------------------------------
STEPS = [(1, 0, 0), (0, 1, 0), (0, 0, 1), (1, 2, 2), (2, 3, 6), (-1, 0, 0), (0, -2, 0), (2, -1, 2), (3, 0, 4), (0, 0, 0)]


BIG_BASES = {'2^24': 2 ** 24, '2^31': 2 ** 31, '2^53': 2 ** 53, '2^62': 2 ** 62}


def gen_forest(rng, n, ntrees=1, idbase=None, xyzbase=0):
    if idbase is None:
        ids = rng.sample(range(1, 10 * n + 20), n)
    else:       # dense ids above the base: neighbouring ids exist
        ids = [idbase + i for i in rng.sample(range(1, n + 3), n)]
    parents, xyz = [], []
    for i in range(n):
        if i < ntrees:
            parents.append(-1)
            xyz.append([xyzbase + rng.randint(0, 20), xyzbase + rng.randint(0, 20), xyzbase + rng.randint(0, 20)])
        else:
            p = rng.randrange(0, i) if rng.random() < 0.6 else i - 1
            parents.append(ids[p])
            st = rng.choice(STEPS)
            xyz.append([xyz[p][k] + st[k] for k in range(3)])
    order = list(range(n))
    rng.shuffle(order)
    return dict(ids=[ids[i] for i in order], parents=[parents[i] for i in order], xyz=[xyz[i] for i in order])


def make_neuron(f, units=None):
    idt, fdt = f.get('dtypes', ['int64', 'float64'])
    xyz = np.array(f['xyz'], dtype=fdt).reshape(-1, 3)
    df = pd.DataFrame({'node_id': np.array(f['ids'], dtype=idt), 'parent_id': np.array(f['parents'], dtype=idt),
                       'x': xyz[:, 0], 'y': xyz[:, 1], 'z': xyz[:, 2], 'radius': 0.01})
    return navis.TreeNeuron(df, units=units) if units else navis.TreeNeuron(df)


def fresh_of(x):
    """What a neuron freshly constructed from the same node table reports."""
    df = x.nodes.copy()
    if 'type' in df.columns:
        df = df.drop(columns='type')
    return navis.TreeNeuron(df)


# ------------------------------------------------------------------------------------------------
# events
# ------------------------------------------------------------------------------------------------
READS = ['graph', 'igraph', 'segments', 'small_segments', 'geodesic_matrix', 'cable_length', 'simple', 'subtrees',
         'adjacency_matrix']
INPLACE_OPS = ['reroot', 'reroot_m', 'reroot_multi', 'prune_twigs', 'prune_twigs_m', 'subset', 'subset_pf', 'downsample',
               'downsample_m', 'downsample_inf', 'resample', 'resample_m', 'imul', 'idiv', 'iadd', 'isub', 'remove_nodes',
               'insert_nodes', 'rewire', 'heal', 'prune_depth', 'prune_strahler', 'longest', 'despike', 'smooth',
               'prune_distal', 'prune_proximal', 'dist_to_root', 'distal_to', 'dist_between', 'cut',
               'despike_rev', 'despike5', 'despike_rev5', 'smooth5', 'convert_units', 'segment_length', 'distal_to_all',
               'classify']
# operations implemented by a @lock_neuron function: they read the cached graphs under the lock
LOCKED_OPS = ['reroot', 'reroot_m', 'reroot_multi', 'subset', 'subset_pf', 'dist_to_root', 'distal_to', 'distal_to_all',
              'dist_between', 'segment_length', 'classify']
COPY_OPS = ['reroot', 'prune_twigs', 'subset', 'downsample', 'resample', 'mul', 'div', 'add', 'sub', 'remove_nodes',
            'heal', 'prune_strahler', 'longest', 'cut', 'prune_depth', 'prune_twigs_m', 'reroot_m',
            'despike', 'despike_rev', 'despike_rev5', 'smooth', 'convert_units', 'prune_distal', 'prune_proximal']
# calls of @lock_neuron functions that raise (the caller catches the exception and keeps using the neuron)
FAIL_OPS = ['fail_reroot_id', 'fail_reroot_tag', 'fail_reroot_method', 'fail_dist_between', 'fail_distal_to',
            'fail_subset', 'fail_subset_copy', 'fail_segment_length', 'fail_reroot_copy']
EDITS = ['edit_xyz', 'edit_xyz', 'edit_radius', 'edit_parent', 'replace_same', 'replace_shuffle', 'replace_xyz',
         'replace_drop_leaf', 'save', 'restore_replace', 'restore_inplace', 'edit_parent_nb', 'edit_xyz_tiny', 'edit_subtree']


def gen_events(rng, n_events, focus=None):
    evs = []
    for _ in range(n_events):
        r = rng.random()
        a, b, c = rng.randrange(10 ** 6), rng.randrange(10 ** 6), rng.randrange(10 ** 6)
        if focus == 'undo' and r < 0.25:
            k = rng.choice(['save', 'restore_replace', 'restore_inplace', 'imul', 'idiv', 'read'])
            if k in ('imul', 'idiv'):
                evs.append(dict(ev='op', op=k, a=0, b=b, c=c))
            elif k == 'read':
                evs.append(dict(ev='read', view=rng.choice(READS)))
            else:
                evs.append(dict(ev=k, a=a, b=b, c=c))
        elif r < 0.38:
            evs.append(dict(ev='read', view=rng.choice(READS)))
        elif r < 0.60:
            evs.append(dict(ev='op', op=rng.choice(INPLACE_OPS), a=a, b=b, c=c))
        elif r < 0.70:
            evs.append(dict(ev='opcopy', op=rng.choice(COPY_OPS), a=a, b=b, c=c, follow=rng.random() < 0.6))
        elif r < 0.75:
            evs.append(dict(ev='failop', op=rng.choice(FAIL_OPS), a=a, b=b, c=c))
        elif r < 0.88:
            evs.append(dict(ev=rng.choice(EDITS), a=a, b=b, c=c))
        elif r < 0.93:
            evs.append(dict(ev='copy', follow=rng.random() < 0.6, deep=rng.random() < 0.2))
        elif r < 0.97:
            evs.append(dict(ev='pickle'))
        else:
            evs.append(dict(ev='types'))
    return evs


def pick(ids, r):
    return int(ids[r % len(ids)])


VALUE = {}


def apply_op(x, op, a, b, c, inplace):
    """Run catalogue operation `op` on x.  Returns the result object (x itself when in place); the value of a query
    (dist_to_root, distal_to, dist_between, segment_length) is left in VALUE['v']."""
    VALUE.pop('v', None)
    ids = x.nodes.node_id.values
    n = len(ids)
    kw = dict(inplace=inplace)
    if op == 'reroot':
        return navis.reroot_skeleton(x, pick(ids, a), **kw) or x
    if op == 'reroot_m':
        return x.reroot(pick(ids, a), **kw) or x
    if op == 'reroot_multi':
        return navis.reroot_skeleton(x, [pick(ids, a), pick(ids, b)], **kw) or x
    if op == 'prune_twigs':
        return navis.prune_twigs(x, [1, 2, 3, 5][a % 4], **kw) or x
    if op == 'prune_twigs_m':
        return x.prune_twigs([1, 2, 3, 5][a % 4], **kw) or x
    if op in ('subset', 'subset_pf'):
        rr = random.Random(a)
        keep = [int(i) for i in ids if rr.random() < 0.7] or [int(ids[0])]
        return navis.subset_neuron(x, keep, prevent_fragments=(op == 'subset_pf'), **kw) or x
    if op == 'downsample':
        return navis.downsample_neuron(x, [2, 3][a % 2], **kw) or x
    if op == 'downsample_m':
        return x.downsample([2, 3][a % 2], **kw) or x
    if op == 'downsample_inf':
        return navis.downsample_neuron(x, float('inf'), **kw) or x
    if op in ('resample', 'resample_m'):
        # keep the result small whatever scalings came before: resolution >= cable / 150 (cable computed from the table,
        # not through the cached property)
        df = x.nodes
        pos = df.set_index('node_id')[['x', 'y', 'z']]
        nr = df[df.parent_id >= 0]
        cable = float(np.sqrt(((pos.loc[nr.node_id.values].values - pos.loc[nr.parent_id.values].values) ** 2).sum(axis=1)).sum()) if len(nr) else 0.0
        res = max([1, 2, 0.5][a % 3], cable / 150.0)
        if op == 'resample':
            return navis.resample_skeleton(x, res, **kw) or x
        return x.resample(res, **kw) or x
    if op in ('imul', 'idiv', 'iadd', 'isub'):
        k = [2, 4, 0.5][a % 3]
        if op == 'imul':
            x *= k
        elif op == 'idiv':
            x /= k
        elif op == 'iadd':
            x += [1, 8, -3][a % 3]
        else:
            x -= [1, 8, -3][a % 3]
        return x
    if op in ('mul', 'div', 'add', 'sub'):
        k = [2, 4, 0.5][a % 3]
        return {'mul': lambda: x * k, 'div': lambda: x / k, 'add': lambda: x + [1, 8][a % 2], 'sub': lambda: x - [1, 8][a % 2]}[op]()
    if op == 'remove_nodes':
        return navis.remove_nodes(x, [pick(ids, a)], **kw) or x
    if op == 'insert_nodes':
        nr = x.nodes[x.nodes.parent_id >= 0]
        if len(nr) == 0:
            raise ValueError('no edges')
        row = nr.iloc[a % len(nr)]
        return navis.insert_nodes(x, [(int(row.node_id), int(row.parent_id))], **kw) or x
    if op == 'rewire':
        return navis.rewire_skeleton(x, x.graph.copy(), **kw) or x
    if op == 'heal':
        return navis.heal_skeleton(x, **kw) or x
    if op == 'prune_depth':
        return navis.prune_at_depth(x, [1, 2, 4][a % 3], source=pick(ids, b), **kw) or x
    if op == 'prune_strahler':
        return navis.prune_by_strahler(x, [1], **kw) or x
    if op == 'longest':
        return navis.longest_neurite(x, 1, reroot_soma=False, **kw) or x
    if op == 'despike':
        return navis.despike_skeleton(x, sigma=2, **kw) or x
    if op == 'despike_rev':
        return navis.despike_skeleton(x, sigma=2, reverse=True, **kw) or x
    if op == 'despike5':
        return navis.despike_skeleton(x, **kw) or x
    if op == 'despike_rev5':
        return navis.despike_skeleton(x, max_spike_length=2, reverse=True, **kw) or x
    if op == 'smooth':
        return navis.smooth_skeleton(x, window=3, **kw) or x
    if op == 'smooth5':
        return navis.smooth_skeleton(x, **kw) or x
    if op == 'convert_units':
        return x.convert_units(['um', 'nm'][a % 2], **kw) or x
    if op == 'prune_distal':
        return x.prune_distal_to(pick(ids, a), **kw) or x
    if op == 'prune_proximal':
        return x.prune_proximal_to(pick(ids, a), **kw) or x
    if op == 'dist_to_root':
        VALUE['v'] = GU.dist_to_root(x, weight='weight') if a % 2 else GU.dist_to_root(x)
        return x
    if op == 'distal_to':
        VALUE['v'] = GU.distal_to(x, pick(ids, a), pick(ids, b))
        return x
    if op == 'distal_to_all':
        VALUE['v'] = GU.distal_to(x)
        return x
    if op == 'dist_between':
        VALUE['v'] = GU.dist_between(x, pick(ids, a), pick(ids, b))
        return x
    if op == 'segment_length':
        # a linear child->parent run read from the TABLE (a property read would validate the caches first)
        par = dict(zip((int(i) for i in ids), (int(p) for p in x.nodes.parent_id.values)))
        seg = [pick(ids, a)]
        while len(seg) < 2 + b % 3 and par.get(seg[-1], -1) >= 0 and par[seg[-1]] not in seg:
            seg.append(par[seg[-1]])
        VALUE['v'] = GU.segment_length(x, seg)
        return x
    if op == 'classify':
        GU.classify_nodes(x, inplace=True)
        VALUE['v'] = sorted((int(i), str(t)) for i, t in zip(x.nodes.node_id.values, x.nodes.type.values))
        return x
    if op == 'cut':
        res = navis.cut_skeleton(x, pick(ids, a))
        return res[b % len(res)]
    raise KeyError(op)


def apply_fail(x, op, a, b):
    """A call of a @lock_neuron function that is expected to raise.  Returns the exception type name (or 'no-raise')."""
    ids = x.nodes.node_id.values
    missing = int(max(ids)) + 1000 + a % 7
    try:
        if op == 'fail_reroot_id':
            navis.reroot_skeleton(x, missing, inplace=True)
        elif op == 'fail_reroot_tag':
            navis.reroot_skeleton(x, 'no-such-tag', inplace=True)
        elif op == 'fail_reroot_method':
            x.reroot('soma', inplace=True)
        elif op == 'fail_reroot_copy':
            navis.reroot_skeleton(x, missing, inplace=False)
        elif op == 'fail_dist_between':
            GU.dist_between(x, pick(ids, b), missing)
        elif op == 'fail_distal_to':
            GU.distal_to(x, missing, pick(ids, b))
        elif op == 'fail_subset':
            navis.subset_neuron(x, 5.5, inplace=True)
        elif op == 'fail_subset_copy':
            navis.subset_neuron(x, 5.5, inplace=False)
        elif op == 'fail_segment_length':
            GU.segment_length(x, [missing, pick(ids, b)])
        else:
            raise KeyError(op)
    except KeyError as e:
        if e.args and e.args[0] == op:
            raise
        return 'KeyError'
    except Exception as e:
        return type(e).__name__
    return 'no-raise'


def f64_image(x):
    """digest of the hashed columns after conversion to float64 (what `DataFrame.values` hands to the checksum)"""
    df = x.__dict__.get('_nodes', None)
    try:
        a = np.ascontiguousarray(df[HASHED].values.astype(np.float64))
    except Exception:
        return None
    return hashlib.sha1(a.tobytes() + str(a.shape).encode()).hexdigest()


def table_maps(x):
    ids = [int(i) for i in x.nodes.node_id.values]
    par = dict(zip(ids, (int(p) for p in x.nodes.parent_id.values)))
    kids = {}
    for i, p_ in par.items():
        kids.setdefault(p_, []).append(i)
    return ids, par, kids


def descendants(kids, n):
    out, todo = set(), [n]
    while todo:
        k = todo.pop()
        for c in kids.get(k, []):
            if c not in out:
                out.add(c)
                todo.append(c)
    return out


class StopHistory(Exception):
    """the node table is no longer a node table (a failed call left it half-edited): nothing further can be evaluated"""


class Run:
    """One history on one real neuron, checked event by event."""

    def __init__(self, ctx, case, spec):
        self.ctx, self.case, self.spec = ctx, case, spec
        TR.install(spec)
        TR.reset(spec)
        self.x = make_neuron(case['forest'], case.get('units'))
        TR.track(self.x)
        self.saved = None
        self.checked = 0        # number of primitive events already compared for the current object
        self.fresh_cache = {}
        self.model_states = []
        self.had_nonadm = False
        self.radius_dirty = False   # radius edited since `_simple` was computed
        self.aba_taint = self.type_taint = False
        # the exact content changed but its float64 image did not (possible only with |id| > 2**53): such edits were invisible
        # to the checksum before core_md5 hashed every column in its own dtype (finding SIG_F64, fixed); counted only
        self.f64_taint = False
        self.prev_img = None
        self.others = []            # bystanders: [obj, label, inherited signature, content, fresh neuron, memo]

    # -- model ---------------------------------------------------------------------------------
    def model(self):
        toks = TR.hist[id(self.x)]
        if not toks:
            return [], []
        out = self.ctx.ask('c02.run ' + ' '.join(toks))
        st, bad = out.split('#')
        states = []
        for s in st.split('|'):
            d = dict(kv.split('=', 1) for kv in s.split(' '))
            ents = dict((e.split(':')[0], e.split(':')[1] == '1') for e in d['c'].split(',') if e)
            states.append(dict(stale=d['s'] == '1', lock=int(d['l']), m=d['m'] == '1', t=d['t'] == '1', adm=d['a'] == '1', ents=ents))
        bad = [int(i) for i in bad.split(',') if i]
        return states, bad

    def fresh(self):
        c = TR.content(self.x)
        key = (c, self.x.nodes['radius'].values.tobytes()) if 'radius' in self.x.nodes.columns else c
        if key not in self.fresh_cache:
            self.fresh_cache = {key: (fresh_of(self.x), {})}
        return self.fresh_cache[key]

    def fresh_view(self, name):
        f, memo = self.fresh()
        if name not in memo:
            memo[name] = get_view(f, name)
        return memo[name]

    # -- checks after every top-level event ------------------------------------------------------
    def check(self, label):
        ctx, case, x = self.ctx, self.case, self.x
        TR.pre(x)      # a trailing direct edit becomes a change event
        cur = (TR.content(x), f64_image(x))
        if self.prev_img is not None and None not in cur and None not in self.prev_img \
                and cur[0] != self.prev_img[0] and cur[1] == self.prev_img[1]:
            self.f64_taint = True
            ctx.count('f64_collision', 'content changed, float64 image of the hashed columns did not')
        self.prev_img = cur
        if id(x) in TR.rebased:
            TR.rebased.discard(id(x))
            self.checked = 0
        toks, snaps = TR.hist[id(x)], TR.snaps[id(x)]
        states, bad = self.model()
        self.model_states = states
        # 1. per-primitive comparison (only the part not compared yet)
        for i in range(min(self.checked, len(toks)), len(toks)):
            st, sn = states[i], snaps[i]
            if sn is None:
                continue
            impl = f"stale={int(sn[0])} lock={sn[1]} stamp={'?' if sn[2] is None else int(sn[2])} attrs={','.join(sn[3])}"
            mod = (f"stale={int(st['stale'])} lock={st['lock']} stamp={'?' if sn[2] is None else int(st['m'])} "
                   f"attrs={','.join(sorted(st['ents']))}")
            ctx.corr(impl, mod, f'protocol state after primitive event #{i} `{toks[i]}` (during {label}); trace={" ".join(toks[max(0, i - 12):i + 1])}', case,
                     signature=self.k())
            ctx.count('primitive', toks[i].split(':')[0])
            if not st['adm']:
                if toks[i].startswith('C'):
                    ctx.corr(toks[i], 'an exclude literal of the generated table', f'_clear_temp_attr call with an exclude list the translator did not find ({label})', case)
                elif toks[i].startswith('X'):
                    self.had_nonadm = True
                    ctx.count('outside_envelope', 'content-restored(non-fresh change)')
                elif toks[i].startswith('W'):
                    ctx.corr(toks[i], 'a cache attribute of a generated view', 'write of an unknown cache attribute', case)
        for i in bad:
            if i >= self.checked:
                ctx.corr(' '.join(toks[max(0, i - 3):i + 5]), 'wrapper / lock-entry prims of the model',
                         f'wrapper discipline at `{toks[i]}` (event #{i}, {label}): the events around a property entry / a lock differ from '
                         f'what the generated spec says the temp_property wrapper / lock_neuron do', case, signature=self.k())
        self.checked = len(toks)
        if not states:
            return
        # Diagnosis from the model states: `aba` = at some point the stamp was current while the model held an entry
        # computed from other content (only possible after a non-fresh change: content restored); `typ` = the stamp was
        # current while the `type` column was computed from another topology.  Everything computed from such an
        # entry / column is tainted until the caches are dropped.
        self.aba_taint = self.type_taint = False
        for s_ in states:
            if not s_['ents']:
                self.aba_taint = False
                if s_['t']:
                    self.type_taint = False
            if s_['m'] and not s_['stale']:
                if self.had_nonadm and any(not c for c in s_['ents'].values()):
                    self.aba_taint = True
                if not s_['t']:
                    self.type_taint = True
        st = states[-1]
        # every top-level event is complete here (failed calls included): the lock must have been released.  The Lean
        # theorem `failed_call_releases_lock` says so for the model; this is the same statement on the real object.
        ctx.corr(f"_lock={int(x.__dict__.get('_lock', 0))}", '_lock=0',
                 f'lock counter after a completed top-level event ({label}): a @lock_neuron call that raised did not release the lock', case)
        stamp_cur = (not st['stale']) and st['lock'] == 0 and st['m']
        # 2. Inv on the implementation: stamp current => every cache entry equals the fresh view
        if stamp_cur:
            for attr in sorted(k for k in x.__dict__ if k in TR.cache_attrs):
                v = self.spec.by_attr[attr]
                name = v['name']
                try:
                    raw = x.__dict__[attr]
                    got = ('ok', canon_value('simple_topo' if name == 'simple' else name, raw))
                except Exception as e:
                    got = ('raise', type(e).__name__)
                want = self.fresh_view('simple_topo' if name == 'simple' else name)
                if want[0] != 'ok':
                    continue
                sig = self.signature(name, not st['ents'].get(attr, True), False)
                ctx.oracle(got == want, f'cache entry {attr} is stale although the stamp is current (after {label}): the next '
                                        f'read of `{name}` returns a value computed before a change; cached={str(got)[:160]} fresh={str(want)[:160]}',
                           case, signature=sig)
        # 3. leaf / branch / root sets
        if st['t'] or stamp_cur:
            for name in TYPE_VIEWS:
                got, want = get_view(x, name), self.fresh_view(name)
                sig = self.k(SIG_TYPE if (self.type_taint and name != 'root') else None)
                ctx.oracle(got == want, f'`{name}` differs from a freshly constructed neuron after {label}: {got[1]} vs {want[1]}', case, signature=sig)
        else:
            ctx.count('type_oracle', 'skipped(in-place topology edit pending)')
        self.check_others(label)

    def k(self, sig=None):
        # (finding SIG_F64 is repaired: a change that is invisible in the float64 image of the table is a change like any other)
        return sig

    # -- bystanders ------------------------------------------------------------------------------
    def watch(self, obj, label):
        """`obj` is left behind by the history: from now on its views must keep agreeing with its own table."""
        if not isinstance(obj, TreeNeuron) or obj is self.x or any(o[0] is obj for o in self.others):
            return
        try:
            if len(obj.nodes) == 0:
                return
        except Exception:
            return
        inherited = self.signature('graph', False, False)
        self.others.append([obj, label, inherited, None, None, {}])
        self.others = self.others[-3:]
        self.ctx.count('bystander', label.split(' ')[0])

    def check_others(self, label, all_views=False):
        ctx, case = self.ctx, self.case
        for o in self.others:
            obj = o[0]
            if obj is self.x:
                continue
            c = TR.content(obj)
            if o[4] is None or c != o[3]:
                o[3], o[4], o[5] = c, fresh_of(obj), {}
            names = all_views if all_views else [self.spec.by_attr[a]['name'] for a in sorted(k_ for k_ in obj.__dict__ if k_ in TR.cache_attrs)]
            for name in names:
                nm = 'simple_topo' if name == 'simple' else name
                got = get_view(obj, nm)
                if nm not in o[5]:
                    o[5][nm] = get_view(o[4], nm)
                want = o[5][nm]
                if got[0] == 'raise' and want[0] == 'raise':
                    continue
                ctx.oracle(got == want, f'bystander: `{name}` of the object left behind by [{o[1]}] differs from a neuron freshly constructed from '
                                        f'its own node table after {label} was applied to the OTHER object (a cached object is shared between '
                                        f'them and was edited in place): got {str(got)[:200]} fresh {str(want)[:200]}', case, signature=o[2])
                ctx.count('bystander_read', name)

    def signature(self, view, predicted_stale, radius_only):
        """Known-finding signature of a failure, decided from what the *model* says about the history."""
        v = self.spec.by_name.get(view)
        if view == 'simple' and v and not v['wrapped'] and predicted_stale:
            return SIG_SIMPLE
        if self.aba_taint:
            return SIG_ABA
        if self.type_taint:
            # (finding SIG_TYPE is repaired; the signature is kept so that a recurrence is reported under its name)
            return SIG_TYPE      # e.g. downsample (simple) and the Python segment code select nodes by `type`
        if radius_only:
            return SIG_SIMPLE_RADIUS
        return None

    def read(self, view, label):
        ctx, case, x = self.ctx, self.case, self.x
        got = get_view(x, view)
        self.check(label)
        want = self.fresh_view(view)
        if got[0] == 'raise' and want[0] == 'raise':
            ctx.count('both_raise', view + ':' + want[1].split(':')[0])
            note = f'`{view}` raises identically on used and fresh neurons ({want[1]}): counted as equal'
            if note not in ctx.notes:
                ctx.notes.append(note)
            return
        sig = None
        st = self.model_states[-1] if self.model_states else None
        v = self.spec.by_name.get(view)
        if st is not None and got != want:
            predicted_stale = bool(v) and not st['ents'].get(v['attr'], True)
            radius_only = (view == 'simple' and self.radius_dirty
                           and get_view(x, 'simple_topo') == self.fresh_view('simple_topo'))
            sig = self.signature(view, predicted_stale, radius_only)
        ctx.oracle(got == want, f'`{view}` read after {label} differs from a freshly constructed neuron: got {str(got)[:200]} fresh {str(want)[:200]}',
                   case, signature=sig)
        ctx.count('read', view)

    def switch(self, y):
        """continue the history with object y (copy / result of an out-of-place operation)"""
        if id(y) not in TR.hist:
            TR.track(y)      # unknown provenance (not derived by copy): treated as a new neuron
            self.ctx.count('follow', 'untracked-result')
            self.model_states = []
        self.x = y
        self.checked = 0
        self.fresh_cache = {}
        self.prev_img = None

    def step(self, i, e):
        ctx, x = self.ctx, self.x
        kind = e['ev']
        label = f'event {i} {json.dumps(e, sort_keys=True)}'
        ids = x.nodes.node_id.values
        n = len(ids)
        if n == 0:
            ctx.count('event', 'skipped-empty')
            return
        ctx.count('event', kind if kind not in ('op', 'opcopy', 'failop') else f"{kind}:{e['op']}")
        if kind == 'read':
            if e['view'] == 'simple' and '_simple' not in x.__dict__:
                self.radius_dirty = False
            self.read(e['view'], label)
            return
        if kind == 'types':
            self.check(label)
            return
        if kind in ('op', 'opcopy'):
            inplace = kind == 'op'
            want = None
            if e['op'] in LOCKED_OPS:
                # the same call on a neuron freshly built from the table as it is NOW (before the operation)
                try:
                    ref = fresh_of(x)
                    want = ('ok', canon_result(apply_op(ref, e['op'], e['a'], e['b'], e['c'], inplace), ref))
                except Exception as ex:
                    want = ('raise', type(ex).__name__)
                sig = self.signature('graph', False, False)
            r = None
            objs0 = {a_: x.__dict__.get(a_) for a_ in ('_graph_nx', '_igraph')}
            c0 = TR.content(x)
            idt0 = str(x.nodes['node_id'].dtype) if 'node_id' in x.nodes.columns else '?'
            try:
                cur0 = (not x.__dict__.get('_stale', False)) and x.__dict__.get('_current_md5') == x.core_md5
            except Exception:
                cur0 = False
            try:
                r = apply_op(x, e['op'], e['a'], e['b'], e['c'], inplace)
                got = ('ok', canon_result(r, x)) if want is not None else None
            except Exception as ex:
                ctx.count('op_error', f"{e['op']}:{type(ex).__name__}")
                got = ('raise', type(ex).__name__)
            if 'node_id' not in x.nodes.columns:
                # the call raised half-way: `node_id` is still the index, the cached graph already edited
                known = (e['op'] in ('reroot', 'reroot_m', 'reroot_multi') and inplace and not navis.config.use_igraph
                         and idt0 == 'int32' and got == ('raise', 'TypeError'))
                ctx.oracle(False, f'`{e["op"]}` raised ({got}) during {label} and left the neuron without a usable node table (node_id moved into '
                                  f'the index, columns {list(x.nodes.columns)}): every derived view now raises', self.case,
                           signature=SIG_RR32 if known else None)
                raise StopHistory()
            if want is not None:
                ctx.count('locked_result', f"{e['op']}:{'inplace' if inplace else 'copy'}:{got[0]}")
                ctx.oracle(got == want, f'result of the @lock_neuron operation `{e["op"]}` ({"in place" if inplace else "on a copy"}) during {label} differs from '
                                        f'the same call on a neuron freshly constructed from the same node table (the operation worked on a cached '
                                        f'graph computed before a change): got {str(got)[:300]} fresh {str(want)[:300]}', self.case, signature=sig)
            if inplace and r is x and cur0 and e['op'] in ('reroot', 'reroot_m') and TR.content(x) != c0:
                # does the in-place editor work on the cached object itself or on an independent one? (generated `editors`)
                used = '_igraph' if (navis.config.use_igraph and x.__dict__.get('_igraph') is not None) else '_graph_nx'
                if objs0.get(used) is not None and x.__dict__.get(used) is not None and ('reroot_skeleton', used) in self.spec.editors:
                    ctx.corr(x.__dict__[used] is not objs0[used], self.spec.editors[('reroot_skeleton', used)],
                             f'reroot_skeleton re-binds `{used}` to an independent object before editing it ({label}): implementation vs generated `editors`',
                             self.case, signature=self.k())
                    ctx.count('editor_detaches', f'{used}:{x.__dict__[used] is not objs0[used]}')
            if inplace:
                if r is not None and r is not x and isinstance(r, TreeNeuron):
                    old = x
                    self.switch(r)
                    self.watch(old, f'receiver of in-place {e["op"]} that returned a new object (event {i})')
            elif isinstance(r, TreeNeuron) and r is not x:
                if e.get('follow') and len(r.nodes):
                    self.check(label + ' (original)')
                    old = x
                    self.switch(r)
                    self.watch(old, f'original of {e["op"]}(inplace=False) (event {i})')
                else:
                    self.watch(r, f'result of {e["op"]}(inplace=False) (event {i})')
        elif kind == 'failop':
            ctx.count('failed_call', f"{e['op']}:{apply_fail(x, e['op'], e['a'], e['b'])}")
        elif kind == 'edit_xyz':
            col = 'xyz'[e['b'] % 3]
            x.nodes.loc[x.nodes.node_id == pick(ids, e['a']), col] += [1.0, -2.0, 4.0][e['c'] % 3]
        elif kind == 'edit_radius':
            x.nodes.loc[x.nodes.node_id == pick(ids, e['a']), 'radius'] = [0.02, 0.03, 0.05][e['c'] % 3]
            self.radius_dirty = True
        elif kind == 'edit_parent':
            # re-attach a leaf (no children) to another node of the neuron: keeps the table a forest
            kids = set(int(p) for p in x.nodes.parent_id.values)
            leafs = [int(i) for i in ids if int(i) not in kids]
            if leafs and n > 2:
                lf = leafs[e['a'] % len(leafs)]
                others = [int(i) for i in ids if int(i) != lf]
                x.nodes.loc[x.nodes.node_id == lf, 'parent_id'] = others[e['b'] % len(others)]
        elif kind == 'edit_parent_nb':
            # move a leaf's parent link to a NEIGHBOURING id (old parent +-1..3): the two tables differ in one cell by < 4
            _, par, kids = table_maps(x)
            cands = [(lf, q) for lf in par if lf not in kids and par[lf] >= 0 for q in par
                     if q != lf and q != par[lf] and abs(q - par[lf]) <= 3]
            if cands:
                lf, q = cands[e['a'] % len(cands)]
                x.nodes.loc[x.nodes.node_id == lf, 'parent_id'] = q
                ctx.count('edit_parent_nb', f'{"f64-collide" if float(q) == float(par[lf]) else "f32-collide" if np.float32(q) == np.float32(par[lf]) else "distinct"}')
        elif kind == 'edit_subtree':
            # re-attach an inner node (with its subtree) to a node outside that subtree
            _, par, kids = table_maps(x)
            inner = [i_ for i_ in par if i_ in kids and par[i_] >= 0]
            if inner:
                nd = inner[e['a'] % len(inner)]
                out = [q for q in par if q != nd and q != par[nd] and q not in descendants(kids, nd)]
                if out:
                    x.nodes.loc[x.nodes.node_id == nd, 'parent_id'] = out[e['b'] % len(out)]
        elif kind == 'edit_xyz_tiny':
            # move one coordinate of a float64 table by a quarter of the float32 spacing at its value, along the edge to its parent
            df = x.nodes
            nr = df[df.parent_id >= 0]
            if len(nr) and all(str(df[c_].dtype) == 'float64' for c_ in 'xyz'):
                row = nr.iloc[e['a'] % len(nr)]
                prow = df[df.node_id == row.parent_id]
                if len(prow):
                    diffs = [abs(float(row[c_]) - float(prow.iloc[0][c_])) for c_ in 'xyz']
                    col = 'xyz'[int(np.argmax(diffs))]
                    v = float(row[col])
                    if abs(v) >= 1 and max(diffs) > 0:
                        x.nodes.loc[x.nodes.node_id == row.node_id, col] = v + float(np.spacing(np.float32(abs(v)))) / 4
                        ctx.count('edit_xyz_tiny', 'visible' if abs(v) >= 1024 else 'below canonical resolution')
        elif kind.startswith('replace'):
            df = x.nodes.copy()
            if kind == 'replace_shuffle':
                df = df.sample(frac=1, random_state=e['a'] % 1000).reset_index(drop=True)
            elif kind == 'replace_xyz':
                df[['x', 'y', 'z']] = df[['x', 'y', 'z']] + [1.0, 2.0, 0.0][e['a'] % 3]
            elif kind == 'replace_drop_leaf':
                kids = set(int(p) for p in df.parent_id.values)
                leafs = [int(i) for i in ids if int(i) not in kids]
                if leafs and n > 2:
                    df = df[df.node_id != leafs[e['a'] % len(leafs)]].reset_index(drop=True)
            x.nodes = df
        elif kind == 'save':
            self.saved = x.nodes.copy()
        elif kind == 'restore_replace':
            if self.saved is not None:
                x.nodes = self.saved.copy()
        elif kind == 'restore_inplace':
            if self.saved is not None and len(self.saved) == n and list(self.saved.node_id.values) == list(ids):
                for c in ('parent_id', 'x', 'y', 'z'):
                    x.nodes.loc[:, c] = self.saved[c].values
        elif kind == 'copy':
            y = x.copy(deepcopy=True) if e.get('deep') else x.copy()
            if not e.get('deep'):
                def shares(a_, b_):
                    return a_ is b_ or getattr(a_, '_graph', None) is b_
                both = [a_ for a_ in ('_graph_nx', '_igraph') if x.__dict__.get(a_) is not None and y.__dict__.get(a_) is not None]
                ctx.corr(sorted(a_ for a_ in both if shares(y.__dict__[a_], x.__dict__[a_])), sorted(a_ for a_ in both if a_ in self.spec.shared),
                         f'which cached graph objects a copy shares with the original ({label}): implementation vs generated `sharedOnCopy`', self.case)
                ctx.count('copy_shares', ','.join(sorted(a_ for a_ in both if shares(y.__dict__[a_], x.__dict__[a_]))) or '-')
            if e.get('follow'):
                self.check(label + ' (original)')
                self.switch(y)
                self.watch(x, f'original of copy (event {i})')
            else:
                self.watch(y, f'copy (event {i})')
        elif kind == 'pickle':
            y = pickle.loads(pickle.dumps(x))
            TR.fork(x, y, 'P')
            self.switch(y)
            self.watch(x, f'original of pickle round trip (event {i})')
        else:
            raise KeyError(kind)
        self.check(label)

    def finish(self):
        # the property at the end of the history: every view equals the fresh neuron's
        views = list(self.case.get('final') or ALL_VIEWS)
        random.Random(len(TR.hist[id(self.x)])).shuffle(views)
        if len(self.x.nodes) == 0:
            return
        for v in views:
            self.read(v, f'final read of {v}')
        self.check_others('the end of the history', all_views=self.case.get('final') or ALL_VIEWS)


_FASTCORE = navis.utils.fastcore
BACKENDS = {'default': (True, True), 'nx': (False, True), 'py': (True, False), 'py-nx': (False, False)}


def run_case(ctx, case, spec):
    use_ig, use_fc = BACKENDS[case.get('backend', 'default')]
    saved = (navis.config.use_igraph, navis.utils.fastcore)
    navis.config.use_igraph = use_ig and saved[0]
    navis.utils.fastcore = _FASTCORE if use_fc else None
    ctx.count('backend', case.get('backend', 'default'))
    try:
        try:
            R = Run(ctx, case, spec)
        except (RecursionError, AttributeError, KeyError, TypeError) as ex:
            # the cache protocol itself is broken to the point that a well-formed table cannot be turned into a neuron
            ctx.oracle(False, f'constructing a TreeNeuron from a well-formed node table raised {type(ex).__name__}: {str(ex)[:120]} '
                              f'(classification / checksum / lock protocol broken)', case)
            return
        try:
            R.check('construction')
            for i, e in enumerate(case['events']):
                R.step(i, e)
            R.finish()
        except StopHistory:
            ctx.count('history', 'stopped: node table destroyed by a failed call')
    finally:
        navis.config.use_igraph, navis.utils.fastcore = saved
    ctx.count('history_len', min(len(case['events']) // 4 * 4, 40))
    ctx.count('trace_len', min(len(TR.hist.get(id(R.x), [])) // 50 * 50, 1000))


# ------------------------------------------------------------------------------------------------
# hand-written histories (regressions and the witnesses of the Lean negations, replayed on real navis)
# ------------------------------------------------------------------------------------------------
F6 = dict(ids=[1, 2, 3, 4, 5, 6], parents=[-1, 1, 2, 2, 4, 4],
          xyz=[[0, 0, 0], [1, 0, 0], [2, 1, 0], [2, -1, 0], [3, -1, 0], [3, -2, 0]])
R = lambda v: dict(ev='read', view=v)  # noqa: E731
CORPUS = [
    # Lean `simple_witness`: read simple, change, read simple
    dict(forest=F6, events=[R('simple'), dict(ev='edit_xyz', a=2, b=0, c=0), R('simple')], name='simple-witness'),
    dict(forest=F6, events=[R('simple'), dict(ev='replace_drop_leaf', a=0, b=0, c=0), R('simple')], name='simple-replace'),
    dict(forest=F6, events=[R('simple'), dict(ev='op', op='reroot', a=4, b=0, c=0), R('simple')], name='simple-reroot'),
    # a wrapped read in between repairs it
    dict(forest=F6, events=[R('simple'), dict(ev='edit_xyz', a=2, b=0, c=0), R('graph'), R('simple')], name='simple-repaired'),
    # Lean `locked_coedit_aba_witness`: igraph warmed, reroot in place (edits igraph in step), table restored
    dict(forest=F6, events=[R('igraph'), dict(ev='save', a=0, b=0, c=0), dict(ev='op', op='reroot', a=4, b=0, c=0),
                            dict(ev='restore_replace', a=0, b=0, c=0), R('igraph')], name='aba-reroot-restore'),
    dict(forest=F6, events=[R('graph'), R('igraph'), dict(ev='save', a=0, b=0, c=0), dict(ev='op', op='subset', a=3, b=0, c=0),
                            dict(ev='restore_replace', a=0, b=0, c=0), R('graph'), R('igraph')], name='aba-subset-restore'),
    # Lean `type_stale_witness_historical` (finding SIG_TYPE, repaired: the in-place operators validate first): must pass now
    dict(forest=F6, events=[dict(ev='edit_parent', a=2, b=1, c=0), dict(ev='op', op='imul', a=0, b=0, c=0), dict(ev='types'),
                            R('graph'), dict(ev='types')], name='type-stale'),
    # edit / undo without locks (Lean `edit_undo_fresh`)
    dict(forest=F6, events=[R('segments'), R('cable_length'), dict(ev='save', a=0, b=0, c=0), dict(ev='edit_xyz', a=1, b=1, c=2),
                            R('cable_length'), dict(ev='restore_inplace', a=0, b=0, c=0), R('cable_length'), R('segments'),
                            dict(ev='op', op='imul', a=0, b=0, c=0), dict(ev='op', op='idiv', a=0, b=0, c=0), R('cable_length')],
         name='edit-undo'),
    # every view warmed, then every kind of change, then every view
    dict(forest=F6, events=[R(v) for v in READS] + [dict(ev='edit_xyz', a=5, b=2, c=2)] + [R(v) for v in READS]
         + [dict(ev='op', op='prune_twigs', a=0, b=0, c=0)] + [R(v) for v in READS], name='warm-all'),
    dict(forest=F6, events=[R('simple'), dict(ev='edit_radius', a=1, b=0, c=0), R('simple')], name='simple-radius'),
    # a @lock_neuron call raises, the caller goes on: warm -> failed call -> edit -> read
    dict(forest=F6, events=[R('graph'), R('cable_length'), R('segments'), dict(ev='failop', op='fail_reroot_method', a=0, b=0, c=0),
                            dict(ev='edit_xyz', a=1, b=1, c=2), R('cable_length'), R('graph'),
                            dict(ev='replace_drop_leaf', a=0, b=0, c=0), R('segments')], name='failed-reroot-then-edit'),
    dict(forest=F6, events=[R('igraph'), R('geodesic_matrix'), dict(ev='failop', op='fail_dist_between', a=1, b=2, c=0),
                            dict(ev='op', op='imul', a=0, b=0, c=0), R('geodesic_matrix'), R('igraph')], name='failed-dist-then-mul'),
    dict(forest=F6, events=[R('small_segments'), dict(ev='failop', op='fail_subset', a=0, b=0, c=0),
                            dict(ev='op', op='prune_twigs', a=0, b=0, c=0), R('small_segments'), R('simple')], name='failed-subset-then-prune'),
    # operations that pass a non-empty `exclude`
    dict(forest=F6, events=[R('segments'), R('small_segments'), dict(ev='op', op='despike_rev', a=0, b=0, c=0), R('segments'),
                            R('small_segments'), dict(ev='opcopy', op='despike_rev', a=0, b=0, c=0, follow=True), R('segments')],
         name='despike-reverse'),
    dict(forest=F6, events=[R('graph'), R('segments'), dict(ev='edit_xyz', a=1, b=0, c=0), dict(ev='copy', follow=True), R('graph'),
                            R('segments'), dict(ev='pickle'), R('igraph'), R('graph')], name='copy-stale'),
]

# finding `lock_neuron/no-staleness-check-before-lock` (fixed 4ae1633): warm graphs -> node 5 (with child 6) re-attached from 3
# to 2 by an IN-PLACE edit -> reroot to 6 under the lock.  Run under all four back-end configurations.
FL = dict(ids=[1, 2, 3, 4, 5, 6], parents=[-1, 1, 2, 3, 3, 5],
          xyz=[[0, 0, 0], [1, 0, 0], [2, 0, 0], [3, 0, 0], [2, 1, 0], [2, 3, 0]])
EDIT5 = dict(ev='edit_subtree', a=2, b=1, c=0)
CORPUS += [
    dict(forest=FL, events=[R('graph'), R('igraph'), EDIT5, dict(ev='op', op='reroot', a=5, b=0, c=0), R('graph'), R('segments')],
         name='lock-stale-graph-reroot'),
    dict(forest=FL, events=[R('graph'), R('igraph'), EDIT5, dict(ev='opcopy', op='reroot', a=5, b=0, c=0, follow=True), R('graph')],
         name='lock-stale-graph-reroot-copy', backends=['default', 'nx']),
    dict(forest=FL, events=[R('graph'), R('igraph'), R('geodesic_matrix'), dict(ev='edit_xyz', a=4, b=1, c=2),
                            dict(ev='op', op='dist_between', a=5, b=0, c=0), dict(ev='op', op='dist_to_root', a=1, b=0, c=0),
                            dict(ev='op', op='segment_length', a=5, b=1, c=0)], name='lock-stale-graph-dist', backends=['default', 'py-nx']),
    # finding `reroot_skeleton(networkx)/edits-_graph_nx-in-place` (fixed 7a5fe2d): the copy holds a view of the graph
    dict(forest=F6, events=[R('graph'), R('igraph'), dict(ev='copy', follow=False), dict(ev='op', op='reroot', a=5, b=0, c=0), R('graph')],
         name='alias-copy-then-reroot-original'),
    dict(forest=F6, events=[R('graph'), R('igraph'), dict(ev='copy', follow=True), dict(ev='op', op='reroot', a=5, b=0, c=0), R('graph')],
         name='alias-copy-then-reroot-copy', backends=['nx', 'default']),
    dict(forest=F6, events=[R('graph'), dict(ev='copy', follow=False), dict(ev='copy', follow=False), dict(ev='op', op='reroot_multi', a=5, b=2, c=0),
                            R('graph'), dict(ev='op', op='reroot_m', a=4, b=0, c=0)], name='alias-two-copies-reroot-twice', backends=['nx', 'py-nx']),
    # open finding SIG_RR32: int32 table (the dtype of the example neurons), networkx path
    dict(forest=dict(F6, dtypes=['int32', 'float32']), backends=['nx', 'py-nx', 'default'],
         events=[R('graph'), R('segments'), dict(ev='op', op='reroot', a=5, b=0, c=0), R('graph'), R('segments')], name='reroot-int32-table'),
]


F9 = dict(ids=[10, 11, 12, 13, 14, 15, 16, 17, 18], parents=[-1, 10, 11, 12, 13, 14, 12, 16, 17],
          xyz=[[0, 0, 0], [10, 0, 0], [20, 0, 0], [30, 120, 0], [40, 0, 0], [50, 0, 0], [20, 10, 0], [20, 20, 0], [20, 30, 0]])
WARM = ['segments', 'small_segments', 'graph', 'igraph', 'cable_length', 'geodesic_matrix', 'simple']


def sweep_cases(forests, ops_inplace, ops_copy, fail_ops):
    """warm every cache -> one catalogue operation (or failed call + edit) -> read every view: one history per operation"""
    warm = [dict(ev='read', view=v) for v in WARM]
    for fi, f in enumerate(forests):
        for op in ops_inplace:
            yield dict(kind='history', forest=f, units='8 nm', name=f'sweep-{op}-inplace-{fi}',
                       events=warm + [dict(ev='op', op=op, a=3 + fi, b=5, c=1)] + warm)
        for op in ops_copy:
            yield dict(kind='history', forest=f, units='8 nm', name=f'sweep-{op}-copy-{fi}',
                       events=warm + [dict(ev='opcopy', op=op, a=3 + fi, b=5, c=1, follow=True)] + warm)
        for op in fail_ops:
            yield dict(kind='history', forest=f, name=f'sweep-{op}-{fi}',
                       events=warm + [dict(ev='failop', op=op, a=1, b=2, c=0), dict(ev='edit_xyz', a=1, b=1, c=2)] + warm)


WARM_G = ['graph', 'igraph', 'segments', 'geodesic_matrix']
FINAL_G = ['graph', 'igraph', 'segments', 'cable_length']
NEURON_OPS = ['reroot', 'reroot_m', 'reroot_multi', 'subset', 'subset_pf']


def lock_cases(forests, backends, edits, rotate=False):
    """warm caches -> direct IN-PLACE edit of parent_id / xyz (no setter) -> a @lock_neuron operation as the very next
    access (in place and not): its RESULT must equal the same call on a fresh neuron built from the edited table"""
    warm = [dict(ev='read', view=v) for v in WARM_G]
    k = 0
    for fi, f in enumerate(forests):
        for be in backends:
            for op in LOCKED_OPS:
                for kind in (['op', 'opcopy'] if op in NEURON_OPS else ['op']):
                    for ed in ([edits[k % len(edits)]] if rotate else edits):
                        k += 1
                        yield dict(kind='history', forest=f, backend=be, name=f'lock-{op}-{kind}-{ed}-{be}-{fi}', final=FINAL_G,
                                   events=warm + [dict(ev=ed, a=2 + k % 3, b=1 + k % 2, c=k % 3),
                                                  dict(ev=kind, op=op, a=5 + k % 2, b=k % 3, c=1, follow=True)]
                                   + [dict(ev='read', view=v) for v in ('graph', 'segments')])


def alias_cases(forest, ops_backends):
    """read graphs -> copy -> in-place operation on the ORIGINAL: the COPY's views must equal those of a fresh neuron built from
    the copy's table; and the symmetric direction (operation on the copy, original watched)"""
    warm = [dict(ev='read', view=v) for v in WARM_G]
    for op, be in ops_backends:
        for follow in (False, True):
            yield dict(kind='history', forest=forest, backend=be, units='8 nm', final=FINAL_G,
                       name=f'alias-{op}-{"on-copy" if follow else "on-original"}-{be}',
                       events=warm + [dict(ev='copy', follow=follow), dict(ev='op', op=op, a=5, b=2, c=1),
                                      dict(ev='read', view='graph'), dict(ev='read', view='igraph')])


def bigid_cases(rng, quick):
    """checksum resolution: ids above 2**24 / 2**31 / 2**53 / 2**62 (dense, so that neighbouring ids exist), int32/float32 and
    int64/float64 tables; warm -> move a parent link to a neighbouring id / re-attach a subtree / move a coordinate by a
    quarter of the float32 spacing -> read every graph-like view"""
    warm = [dict(ev='read', view=v) for v in WARM_G + ['cable_length', 'small_segments']]
    for base in BIG_BASES:
        for ed in ('edit_parent_nb', 'edit_subtree'):
            for rep_ in range(1 if quick else 3):
                f = gen_forest(rng, rng.randint(6, 10), idbase=BIG_BASES[base])
                yield dict(kind='history', forest=f, name=f'bigid-{base}-{ed}', final=FINAL_G, backend=rng.choice(list(BACKENDS)),
                           events=warm + [dict(ev=ed, a=rng.randrange(100), b=rng.randrange(100), c=0)] + warm
                           + [dict(ev='edit_parent_nb', a=rng.randrange(100), b=0, c=0), dict(ev='op', op='reroot', a=rng.randrange(100), b=0, c=0)]
                           + warm[:3])
    f = gen_forest(rng, 8, idbase=2 ** 24)
    f['dtypes'] = ['int32', 'float32']
    yield dict(kind='history', forest=f, name='bigid-2^24-int32-float32', backend='default',
               events=warm + [dict(ev='edit_parent_nb', a=rng.randrange(100), b=0, c=0)] + warm)
    for base in (None, 2 ** 31):
        for rep_ in range(1 if quick else 3):
            f = gen_forest(rng, rng.randint(5, 9), idbase=base, xyzbase=4096)
            yield dict(kind='history', forest=f, name=f'tiny-move-{base}', final=FINAL_G, backend=rng.choice(list(BACKENDS)),
                       events=warm + [dict(ev='edit_xyz_tiny', a=rng.randrange(100), b=0, c=0)] + warm
                       + [dict(ev='edit_xyz_tiny', a=rng.randrange(100), b=0, c=0), dict(ev='op', op='dist_to_root', a=1, b=0, c=0)] + warm[:2])


def run(ctx):
    spec = load_spec(ctx)
    ctx.extra['rule'] = ('a case is one history on a real TreeNeuron: a generated forest (3..25 nodes, shuffled ids and rows, 1-3 trees) and '
                         'a list of top-level events (reads of the derived views, catalogue operations in place / on copies, direct edits of '
                         'x.nodes in place and by replacement, save/restore of the table, copy, pickle); distinct = distinct JSON digest; '
                         'non-trivial = at least one change event and one read')
    ctx.extra['assumptions'] = ['the hash FUNCTION is injective (xxhash/md5 collisions are not modelled); what reaches it is tied to the source: '
                                'Props.C02.hash_no_narrowing_cast / hash_input_injective over the generated spec, and the big-id / tiny-move '
                                'streams exercise it on the real code',
                                'a locked operation never restores exactly the content it started from after caching at an '
                                'intermediate table (freshness hypothesis of history_fresh); histories that leave this envelope are '
                                'counted under outside_envelope and still checked against the oracle']
    ctx.extra['generated_spec'] = dict(views=spec.views, temp_attr=spec.temp, core_cols=spec.core, sound=spec.sound, flags=spec.flags)
    if not spec.sound:
        ctx.notes.append('generated spec violates the source-level obligations (soundB = false)')
    for c in CORPUS:
        for be in (c['backends'] if 'backends' in c else list(BACKENDS) if c['name'].startswith(('lock-', 'alias-')) else
                   ['default', 'py-nx'] if c['name'].startswith(('aba', 'warm', 'type')) else ['default']):
            case = dict(kind='history', forest=c['forest'], events=c['events'], name=c['name'], backend=be)
            ctx.case(case)
            run_case(ctx, case, spec)
    r = ctx.rng
    # one history per catalogue operation (quick: a seeded third of the catalogue on one tree; thorough: all, two trees)
    if ctx.quick():
        sw = list(sweep_cases([F9], r.sample(INPLACE_OPS, 8) + ['despike_rev'], r.sample(COPY_OPS, 4), r.sample(FAIL_OPS, 3)))
    else:
        sw = list(sweep_cases([F9, F6], INPLACE_OPS, COPY_OPS, FAIL_OPS))
    other_ops = [o for o in INPLACE_OPS if o not in ('reroot', 'reroot_m', 'reroot_multi')]
    rr = [(o, be) for o in ('reroot', 'reroot_m', 'reroot_multi') for be in BACKENDS]
    if ctx.quick():
        # every locked operation (in place / on a copy) under two of the four back-end configurations (the corpus runs the
        # reproduction of the fixed defect under all four), rotating edit kind
        lc = list(lock_cases([FL], list(BACKENDS), ['edit_subtree', 'edit_parent', 'edit_xyz'], rotate=True))
        off = r.randrange(2)
        per = len(lc) // 4
        sw += [c for i, c in enumerate(lc) if ((i // per) + (i % per) + off) % 2 == 0]
        rq = [('reroot', be) for be in BACKENDS] + [('reroot_m', 'nx'), ('reroot_m', 'py-nx'), ('reroot_multi', 'nx'), ('reroot_multi', 'default')]
        sw += list(alias_cases(F9, rq + [(o, r.choice(list(BACKENDS))) for o in r.sample(other_ops, 6)]))
    else:
        sw += list(lock_cases([FL, F9], list(BACKENDS), ['edit_subtree', 'edit_parent', 'edit_xyz', 'edit_parent_nb']))
        sw += list(alias_cases(F9, rr + [(o, be) for o in other_ops for be in BACKENDS]))
        sw += list(alias_cases(F6, rr))
    sw += list(bigid_cases(r, ctx.quick()))
    for case in sw:
        ctx.count('stream', case['name'].split('-')[0])
        ctx.case(case)
        run_case(ctx, case, spec)
        if ctx.search_mode and ctx.has_new_failure('oracle'):
            return
    nhist = ctx.budget(36, 400)
    for k in range(nhist):
        big = (not ctx.quick()) and r.random() < 0.3
        n = r.randint(3, 25 if big else 12)
        lab = r.random()
        idbase = None if lab < 0.75 else (2 ** 24 if lab < 0.9 else 2 ** 31)
        f = gen_forest(r, n, ntrees=r.choice([1, 1, 1, 2, 3]) if n > 4 else 1, idbase=idbase,
                       xyzbase=4096 if r.random() < 0.15 else 0)
        if idbase != 2 ** 31 and r.random() < 0.15:
            f['dtypes'] = ['int32', 'float32']
        ctx.count('labeling', 'small' if idbase is None else '>2^24' if idbase == 2 ** 24 else '>2^31')
        focus = r.choice([None, None, 'undo'])
        case = dict(kind='history', forest=f, events=gen_events(r, r.randint(4, 24 if not ctx.quick() else 14), focus),
                    backend=r.choice(['default'] * 5 + ['nx', 'py', 'py-nx']))
        if r.random() < 0.3:
            case['units'] = r.choice(['8 nm', '1 um'])
        nontrivial = any(e['ev'] != 'read' for e in case['events']) and any(e['ev'] == 'read' for e in case['events'])
        ctx.case(case, nontrivial=nontrivial)
        run_case(ctx, case, spec)
        if ctx.search_mode and ctx.has_new_failure('oracle'):
            return


def search(ctx):
    """A proof obligation or the correspondence broke without an oracle failure: hunt for a failing input with
    histories biased to read / change / read."""
    spec = load_spec(ctx)
    r = ctx.rng
    other_ops = [o for o in INPLACE_OPS if o not in ('reroot', 'reroot_m', 'reroot_multi')]
    pre = list(lock_cases([FL, F9], list(BACKENDS), ['edit_subtree', 'edit_parent', 'edit_xyz', 'edit_parent_nb'])) \
        + list(alias_cases(F9, [(o, be) for o in ('reroot', 'reroot_m', 'reroot_multi') for be in BACKENDS]
                           + [(o, be) for o in other_ops for be in ('default', 'py-nx')])) + list(bigid_cases(r, False))
    for case in pre:
        ctx.case(case)
        run_case(ctx, case, spec)
        if ctx.has_new_failure('oracle'):
            return
    for case in sweep_cases([F9, F6], INPLACE_OPS, COPY_OPS, FAIL_OPS):
        ctx.case(case)
        run_case(ctx, case, spec)
        if ctx.has_new_failure('oracle'):
            return
    for c in CORPUS:
        case = dict(kind='history', forest=c['forest'], events=c['events'], name=c['name'] + '-search')
        ctx.case(case)
        run_case(ctx, case, spec)
        if ctx.has_new_failure('oracle'):
            return
    for k in range(ctx.budget(60, 300)):
        n = r.randint(3, 10)
        f = gen_forest(r, n, ntrees=r.choice([1, 1, 2]))
        evs = []
        for _ in range(r.randint(2, 6)):
            views = r.sample(READS, r.randint(1, 4))
            evs += [dict(ev='read', view=v) for v in views]
            evs += gen_events(r, r.randint(1, 2))
            evs += [dict(ev='read', view=v) for v in views]
        case = dict(kind='history', forest=f, events=evs)
        ctx.case(case)
        run_case(ctx, case, spec)
        if ctx.has_new_failure('oracle'):
            return


def replay(ctx, rp):
    spec = load_spec(ctx)
    case = rp['case']
    ctx.case(case)
    run_case(ctx, case, spec)


def _fails(case, spec, what_key):
    """Does `case` still produce an (unsigned) oracle failure of the same kind?"""
    from harness import common as C

    class Quiet(C.Ctx):
        pass
    sub = C.Ctx.__new__(C.Ctx)
    sub.__dict__.update(dict(prop='C02', tier='quick', seed=0, rng=random.Random(0), t0=0, evaluations=0, distinct=set(), hist={},
                             samples=[], failures=[], known_hit={}, known=[k for k in C.load_known() if k.get('property') == 'C02' and k.get('status') == 'open'],
                             drv=SHR['drv'], corr_checks=0, oracle_checks=0, notes=[], extra={}, deadline=None, search_mode=False))
    try:
        run_case(sub, case, spec)
    except Exception:
        return False
    return any(f['kind'] == 'oracle' and f['what'].split(' ')[0] == what_key for f in sub.failures)


SHR = {}


def shrink(ctx, failure):
    """Greedy delta-debugging on the event list (then on the forest size is left alone)."""
    import time
    spec = load_spec(ctx)
    SHR['drv'] = ctx.drv
    case = _copy.deepcopy(failure['case'])
    key = failure['what'].split(' ')[0]
    if not _fails(case, spec, key):
        return failure
    t_end = time.time() + 120
    evs = case['events']
    changed = True
    while changed and time.time() < t_end:
        changed = False
        for chunk in (8, 4, 2, 1):
            i = 0
            while i < len(evs) and time.time() < t_end:
                cand = evs[:i] + evs[i + chunk:]
                c2 = dict(case, events=cand)
                if cand and _fails(c2, spec, key):
                    evs = cand
                    case = c2
                    changed = True
                else:
                    i += chunk
    # re-run once on the real ctx-independent context to collect the failure text of the shrunk case
    from harness import common as C
    sub = C.Ctx.__new__(C.Ctx)
    sub.__dict__.update(dict(prop='C02', tier='quick', seed=0, rng=random.Random(0), t0=0, evaluations=0, distinct=set(), hist={},
                             samples=[], failures=[], known_hit={}, known=ctx.known, drv=ctx.drv, corr_checks=0, oracle_checks=0,
                             notes=[], extra={}, deadline=None, search_mode=False))
    run_case(sub, case, spec)
    of = [f for f in sub.failures if f['kind'] == 'oracle']
    if of:
        f = of[0]
        f['shrunk_from_events'] = len(failure['case']['events'])
        return f
    return failure
