"""C07 — SWC files round-trip and are valid, parent-first SWC tables.

Streams
  write   : random forests (all shapes / labelings / row orders of harness/gen.py, rerooted trees, NaN / -1 radii,
            fractional coordinates, float32 tables, soma, connectors, every label / connector / metadata option) →
            `navis.write_swc` into a temp dir outside /verif and /repo → the BYTES of the file go to the Lean lexer +
            `parseSwc` + `swcValidB` (proved equivalent to the specification) + comparison with the model's
            `finish (labelOf …) order` for the order induced by the implementation's node map (which must be exactly
            the model's stable sort by depth) → `navis.read_swc` of the same file compared with the Lean
            `readBack` and, independently, with the original skeleton under the node map.
  sources : the same file(s) through path / Path / str / StringIO / BytesIO / DataFrame / folder / zip / tar(.gz) /
            list of paths; `fmt` patterns (correspondence of `parse_filename` with the Lean `matchFmt`).
  parse   : hand-made SWC text (interleaved comments, blank lines, extra columns, delimiters, meta lines in odd places).
  nanrow  : SWC text with NaN in a key column (id / parent / x / y / z): rows dropped, orphans re-rooted (DESIGN §6 #15, fixed).
  small   : (thorough) every forest on ≤ 5 labelled nodes.
"""
import io, os, json, math, shutil, tarfile, tempfile, warnings, zipfile, itertools, random, pathlib
from fractions import Fraction

import numpy as np
import pandas as pd

warnings.filterwarnings('ignore')
import navis
from navis.io import swc_io
from . import gen as G

navis.config.pbar_hide = True
navis.set_loggers('ERROR')

SEP = '\x1e'
_L = {'root': 'r', 'end': 'e', 'branch': 'b', 'slab': 's'}


# ------------------------------------------------------------------------------------------------
# helpers
# ------------------------------------------------------------------------------------------------
def fstr(v):
    """numpy scalar → the decimal text pandas' astype(str) writes (shortest repr of its own precision)."""
    if v is None:
        return 'nan'
    try:
        if np.isnan(v):
            return 'nan'
    except TypeError:
        pass
    if isinstance(v, (np.floating,)):
        return str(v)
    if isinstance(v, (int, np.integer)):
        return str(int(v))
    return repr(float(v))


def frac(s):
    """Lean rational `n/d` or integer text → Fraction; 'nan' → None."""
    if s == 'nan':
        return None
    if '/' in s:
        a, b = s.split('/')
        return Fraction(int(a), int(b))
    return Fraction(int(s))


def tol_for(precision):
    return {16: Fraction(1, 2 ** 9), 32: Fraction(1, 2 ** 21), 64: Fraction(1, 2 ** 48), None: Fraction(1, 2 ** 48)}[precision]


def close(a, b, tol):
    """float a vs Fraction b (None = NaN)."""
    if b is None:
        return a is None or (isinstance(a, float) and math.isnan(a))
    if a is None or (isinstance(a, float) and (math.isnan(a) or math.isinf(a))):
        return False
    return abs(Fraction(float(a)) - b) <= tol * max(1, abs(b))


def fields(resp):
    out = {}
    for part in resp.split('|'):
        if '=' in part:
            k, v = part.split('=', 1)
            out[k] = v
    return out


def build(case):
    """Materialise the TreeNeuron of a case."""
    rows = case['rows']
    df = G.rows_to_df(rows)
    df['radius'] = np.array([float(r) for r in case.get('radius', ['0.01'] * len(rows))], dtype=float)
    if case.get('custom') is not None:
        df['mylab'] = np.array(case['custom'], dtype=np.int64)
    if case.get('f32'):
        df = df.astype({'x': np.float32, 'y': np.float32, 'z': np.float32, 'radius': np.float32})
    kw = dict(units=case.get('units', '1 nm'), name=case.get('name', 'nrn'))
    if case.get('id') is not None:
        kw['id'] = case['id']
    x = navis.TreeNeuron(df, **kw)
    cn = case.get('conn')
    if cn is not None:
        x.connectors = pd.DataFrame({'connector_id': np.arange(100, 100 + len(cn), dtype=np.int64),
                                     'node_id': np.array([c[0] for c in cn], dtype=np.int64),
                                     'type': [c[1] for c in cn],
                                     'x': 0.0, 'y': 0.0, 'z': 0.0}).astype({'type': object})
    soma = case.get('soma')
    if isinstance(soma, list):
        x._soma = list(soma)
    elif soma is not None:
        x.soma = soma
    else:
        x.soma = None
    if case.get('reroot') is not None:
        x = navis.reroot_skeleton(x, case['reroot'], inplace=False)
    return x


def write_kwargs(case):
    o = case['opts']
    kw = {}
    lb = o.get('labels', 'auto')
    if lb == 'auto':
        kw['labels'] = True
    elif lb == 'zero':
        kw['labels'] = False
    elif lb == 'column':
        kw['labels'] = 'mylab'
    else:   # dict keyed by index label (as `swc.index.map(labels)` applies it)
        kw['labels'] = {int(k): int(v) for k, v in lb}
    kw['export_connectors'] = bool(o.get('export'))
    wm = o.get('meta', 'default')
    if wm == 'default':
        kw['write_meta'] = True
    elif wm == 'off':
        kw['write_meta'] = False
    elif isinstance(wm, list):
        kw['write_meta'] = list(wm)
    elif isinstance(wm, dict):
        kw['write_meta'] = dict(wm)
    else:
        kw['write_meta'] = wm      # single key
    kw['return_node_map'] = bool(o.get('nodemap', True))
    return kw


def soma_list(x):
    s = x.soma
    if s is None:
        return []
    return [int(v) for v in navis.utils.make_iterable(s)]


def wire_opts(case, x):
    o = case['opts']
    lb = o.get('labels', 'auto')
    if isinstance(lb, list):
        lbs = 'idx:' + ','.join(f'{int(k)}>{int(v)}' for k, v in lb)
    else:
        lbs = lb
    wm = o.get('meta', 'default')
    if isinstance(wm, list):
        wms = 'keys:' + ','.join(wm)
    elif isinstance(wm, dict):
        wms = 'dict:' + ';'.join(f'{k}>{v}' for k, v in wm.items())
    elif wm in ('default', 'off'):
        wms = wm
    else:
        wms = 'keys:' + wm
    r = case.get('read', {})
    sl = r.get('soma_label', 1)
    cl = r.get('conn', [])
    return (f"labels={lbs} export={int(bool(o.get('export')))} meta={wms} soma={'N' if sl is None else sl} "
            f"conn={','.join(f'{n}:{v}' for n, v in cl)} readmeta={int(r.get('read_meta', True))} delim={r.get('delim', 'space')}")


def wire_skel(x):
    nd = x.nodes
    types = nd['type'].astype(str).values
    cust = nd['mylab'].values if 'mylab' in nd.columns else [0] * len(nd)
    toks = []
    for k in range(len(nd)):
        toks.append(':'.join([str(int(nd.node_id.values[k])), str(int(nd.parent_id.values[k])), fstr(nd.x.values[k]),
                              fstr(nd.y.values[k]), fstr(nd.z.values[k]), fstr(nd.radius.values[k]),
                              _L.get(types[k], 's'), str(int(cust[k])), str(int(nd.index.values[k]))]))
    has = isinstance(x.connectors, pd.DataFrame)
    pre = [int(v) for v in x.presynapses.node_id.values] if has else []
    post = [int(v) for v in x.postsynapses.node_id.values] if has else []
    extra = f"soma={','.join(map(str, soma_list(x)))} hasconn={int(has)} pre={','.join(map(str, pre))} post={','.join(map(str, post))}"
    attrs = ';'.join(f'{k}={meta_text(x, k)}' for k in ('id', 'name', 'units'))
    return ' '.join(toks), extra, attrs


def meta_text(x, k):
    """Text of an attribute in the Meta line: str(value); per-axis units are a JSON list of the three unit strings."""
    v = getattr(x, k, None)
    if k == 'units' and navis.utils.is_iterable(getattr(v, 'magnitude', None)):
        return json.dumps([str(u) for u in v])
    return str(v)


def file_payload(path):
    raw = open(path, 'rb').read()
    text = raw.decode('utf-8')
    lines = text.split('\n')
    if lines and lines[-1] == '':
        lines = lines[:-1]
    return text, SEP.join(lines)


def table_of(n):
    """Property-level node table of a neuron read back."""
    nd = n.nodes
    lab = nd['label'].values if 'label' in nd.columns else [None] * len(nd)
    out = []
    for k in range(len(nd)):
        out.append((int(nd.node_id.values[k]), int(nd.parent_id.values[k]), float(nd.x.values[k]), float(nd.y.values[k]),
                    float(nd.z.values[k]), float(nd.radius.values[k]), lab[k]))
    return out


def tables_equal(a, b):
    if len(a) != len(b):
        return False
    for r, s in zip(a, b):
        if r[0] != s[0] or r[1] != s[1]:
            return False
        for u, v in zip(r[2:6], s[2:6]):
            if not (u == v or (math.isnan(u) and math.isnan(v))):
                return False
        lu, lv = r[6], s[6]
        if not (lu == lv or (_isnan(lu) and _isnan(lv)) or str(lu) == str(lv)):
            return False
    return True


def _isnan(v):
    try:
        return v is None or bool(np.isnan(v))
    except TypeError:
        return False


def label_text(v):
    """Label value of a node table as text: integers without decimal point, NaN as 'nan'."""
    if _isnan(v):
        return 'nan'
    if isinstance(v, (int, np.integer)):
        return str(int(v))
    if isinstance(v, (float, np.floating)):
        return repr(float(v))
    return str(v)


def label_ok(v, model, labint):
    """Label value read back vs the label token of the file.  When every label token of the file is an integer
    literal the values must be integers (never floats); otherwise pandas infers a float column and only the value counts."""
    if labint:
        return label_text(v) == model
    if model == 'nan':
        return _isnan(v)
    try:
        return (not _isnan(v)) and float(v) == float(model)
    except (TypeError, ValueError):
        return False


class Tmp:
    def __enter__(self):
        self.d = tempfile.mkdtemp(prefix='c07_')
        assert not self.d.startswith('/verif') and not self.d.startswith('/repo')
        return self.d

    def __exit__(self, *a):
        shutil.rmtree(self.d, ignore_errors=True)


# ------------------------------------------------------------------------------------------------
# write + round trip
# ------------------------------------------------------------------------------------------------
def case_write(ctx, case):
    try:
        x = build(case)
    except Exception as e:   # the generator only produces constructible skeletons
        ctx.oracle(False, f'cannot build the skeleton of the case: {type(e).__name__}: {str(e)[:120]}', case)
        return
    kw = write_kwargs(case)
    o = case['opts']
    nodes_s, extra_s, attrs_s = wire_skel(x)
    opts_s = wire_opts(case, x)
    has_conn = isinstance(x.connectors, pd.DataFrame)
    pm0 = {int(i): int(p) for i, p in zip(x.nodes.node_id.values, x.nodes.parent_id.values)}
    tbl = fields(ctx.ask(f'c07.table {opts_s} | {nodes_s} | {extra_s} | {attrs_s}'))
    ctx.oracle(tbl.get('wf') == '1', 'generated skeleton is not a well-formed forest (generator bug)', case)
    ctx.oracle(tbl.get('valid') == '1', 'model: makeSwcTable produced an invalid table (contradicts table_valid)', case)
    ctx.corr(tbl.get('histvalid'), tbl.get('cond'), 'model: historical ordering valid vs its condition (historical_sortByParent_valid_iff)', case)
    with Tmp() as d:
        path = os.path.join(d, case.get('fname', 'nrn.swc'))
        try:
            ret = navis.write_swc(x, path, **kw)
            err = None
        except Exception as e:
            ret, err = None, e
        if tbl.get('raises') == '1' or err is not None:
            ctx.count('write_outcome', 'raises')
            # the only modelled rejection: export_connectors without a connector table
            ctx.corr('raises' if err is not None else 'ok', 'raises' if tbl.get('raises') == '1' else 'ok',
                     f'write_swc raised {type(err).__name__ if err else None}: {str(err)[:100] if err else ""}; model raises={tbl.get("raises")}', case)
            if err is not None and tbl.get('raises') != '1':
                ctx.oracle(False, f'write_swc raised {type(err).__name__}: {str(err)[:120]}', case)
            return
        ctx.count('write_outcome', 'ok')
        # node map: returned or (same deterministic computation) from make_swc_table
        if kw['return_node_map']:
            ctx.oracle(isinstance(ret, dict), f'return_node_map=True returned {type(ret).__name__}', case)
            nmap = {int(k): int(v) for k, v in (ret or {}).items()}
        else:
            ctx.oracle(ret is None, f'return_node_map=False returned {type(ret).__name__}', case)
            _, m2 = swc_io.make_swc_table(x, labels=kw['labels'], export_connectors=kw['export_connectors'], return_node_map=True)
            nmap = {int(k): int(v) for k, v in m2.items()}
        text, payload = file_payload(path)
        map_s = ','.join(f'{k}>{v}' for k, v in nmap.items())
        resp = fields(ctx.ask(f'c07.file {opts_s} | {nodes_s} | {extra_s} | {attrs_s} | {map_s} |{payload}'))
        n = len(pm0)
        cond = resp.get('cond') == '1'
        # --- the file is an SWC table ------------------------------------------------------------
        ctx.oracle(resp.get('parse') == '1', 'the written file does not parse as an SWC table', case)
        ctx.oracle(resp.get('ncols') == '7', f'the written file has {resp.get("ncols")} columns, not seven', case)
        if resp.get('parse') != '1':
            return
        valid = resp.get('valid') == '1'
        # theorem sortByParent_valid_iff says exactly when the as-written ordering is valid
        is_sorted = resp.get('sorted') == '1'
        if not valid:
            bad_kind, bad_txt = _first_bad(resp.get('rows', ''))
            ctx.oracle(False, 'written SWC table is not valid (ids 1..N, roots -1, every parent listed before and numbered '
                       'lower than its children): ' + bad_txt, case)
        else:
            ctx.oracle(True, 'valid', case)
        # --- correspondence with the model -----------------------------------------------------------
        ctx.corr(resp.get('sorted'), '1', 'write_swc: file order is not ascending by depth (steps to the root)', case)
        ctx.corr(resp.get('stable'), '1', 'write_swc: file order differs from the stable sort by depth of the node table', case)
        ctx.count('order_kind', 'depth-sort' if is_sorted else ('parent-first' if valid else 'other'))
        ctx.count('historical_order_would_be', 'valid' if cond else 'invalid')
        for key, what in (('mapok', 'node map is not a bijection of the node ids onto 1..N'),
                          ('agree', 'file rows differ from the model table (labels / ids / parent remap / radius fill / columns)'),
                          ('mapagree', 'returned node map differs from the model map for the same order'),
                          ('hdr', 'header (comment lines / Meta line) differs from the model header'),
                          ('rt', 'model write → parse does not reproduce the file rows')):
            ctx.corr(resp.get(key), '1', f'write_swc: {what}', case)
        rows = [r.split(':') for r in resp.get('rows', '').split()]
        # --- read back -----------------------------------------------------------------------------------
        r = case.get('read', {})
        prec = r.get('precision', 32)
        rkw = dict(connector_labels=dict(r.get('conn', [])), soma_label=r.get('soma_label', 1), precision=prec,
                   read_meta=r.get('read_meta', True))
        try:
            z = navis.read_swc(path, **rkw)
        except Exception as e:
            ctx.oracle(False, f'read_swc of the written file raised {type(e).__name__}: {str(e)[:120]}', case)
            return
        tol = tol_for(prec)
        if case.get('f32'):
            tol = max(tol, tol_for(32))
        zt = table_of(z)
        # reader vs Lean readBack on the same bytes
        ok = len(zt) == len(rows)
        if ok:
            for a, b in zip(zt, rows):
                if a[0] != int(b[0]) or a[1] != int(b[6]):
                    ok = False
                if not all(close(a[2 + j], frac(b[2 + j]), tol) for j in range(3)):
                    ok = False
                if not close(a[5], frac(b[5]), tol):
                    ok = False
                if not label_ok(a[6], b[1], resp.get('labint') == '1'):
                    ok = False
        ctx.oracle(ok, 'read_swc node table differs from the table in the file (ids / parents / label values / coordinates / radius)', case)
        zs = z.soma
        zs_s = 'nan' if zs is None else str(int(navis.utils.make_iterable(zs)[0]))
        # without a row carrying `soma_label` navis falls back to find_soma (label 1 / radius), which is not part of the reader model
        if resp.get('soma') != 'nan' or rkw['soma_label'] == 1:
            ctx.corr(zs_s, resp.get('soma'), 'read_swc soma vs readBack soma', case)
        if rkw['connector_labels']:
            zc = z.connectors
            got = ','.join(f'{t}:{int(i)}' for t, i in zip(zc['type'].values, zc['node_id'].values)) if isinstance(zc, pd.DataFrame) else 'None'
            ctx.corr(got, resp.get('conns'), 'read_swc connectors vs readBack connectors', case)
        props = dict(p.split('=', 1) for p in resp.get('props', '').split(';') if '=' in p)
        # --- the round trip under the node map --------------------------------------------------------------
        inv = {v: k for k, v in nmap.items()}
        ctx.oracle(sorted(nmap) == sorted(pm0) and sorted(inv) == list(range(1, n + 1)),
                   'node map is not a bijection from the node ids onto 1..N', case)
        zp = {a[0]: a for a in zt}
        ok_par = ok_xyz = ok_rad = True
        ndx = x.nodes
        for k in range(n):
            i = int(ndx.node_id.values[k]); p = int(ndx.parent_id.values[k])
            a = zp.get(nmap.get(i))
            if a is None:
                ok_par = False
                break
            want = nmap.get(p, -1) if p >= 0 else -1
            if a[1] != want:
                ok_par = False
            for j, col in enumerate(('x', 'y', 'z')):
                if not close(a[2 + j], Fraction(float(ndx[col].values[k])), tol):
                    ok_xyz = False
            rad = float(ndx.radius.values[k])
            if not close(a[5], Fraction(0) if math.isnan(rad) else Fraction(rad), tol):
                ok_rad = False
        ctx.oracle(ok_par, 'round trip: parent links differ under the node map', case)
        ctx.oracle(ok_xyz, f'round trip: coordinates differ (precision {prec})', case)
        ctx.oracle(ok_rad, f'round trip: radii differ (NaN is written as 0) (precision {prec})', case)
        if o.get('labels', 'auto') == 'auto' and rkw['soma_label'] == 1:
            somas = soma_list(x)
            exp_pre = set(int(v) for v in x.presynapses.node_id.values) if (has_conn and o.get('export')) else set()
            exp_post = set(int(v) for v in x.postsynapses.node_id.values) if (has_conn and o.get('export')) else set()
            eff = [s for s in somas if s not in exp_pre and s not in exp_post]
            if somas and not eff:
                ctx.count('soma', 'overridden-by-synapse-label')
            elif eff:
                want = min(nmap[s] for s in eff)
                ctx.count('soma', 'single' if len(somas) == 1 else 'several')
                ctx.oracle(zs is not None and int(navis.utils.make_iterable(zs)[0]) == want,
                           f'round trip: soma {somas} comes back as {zs} (expected new id {want})', case)
            else:
                ctx.count('soma', 'none')
                ctx.oracle(zs is None, f'round trip: skeleton without soma comes back with soma {zs}', case)
            if o.get('export') and dict(r.get('conn', [])) == {'pre': 7, 'post': 8}:
                zc = z.connectors
                gpre = sorted(int(i) for t, i in zip(zc['type'].values, zc['node_id'].values) if t == 'pre')
                gpost = sorted(int(i) for t, i in zip(zc['type'].values, zc['node_id'].values) if t == 'post')
                ctx.oracle(gpost == sorted(nmap[i] for i in exp_post), 'round trip: postsynapse labels not preserved', case)
                ctx.oracle(gpre == sorted(nmap[i] for i in exp_pre - exp_post),
                           'round trip: presynapse labels not preserved (nodes without a postsynapse)', case)
                ctx.count('connectors_exported', 'yes')
        # --- header meta: units and id -----------------------------------------------------------------------
        wm = o.get('meta', 'default')
        keys = ['id', 'name', 'units'] if wm == 'default' else (wm if isinstance(wm, list) else ([] if wm == 'off' or isinstance(wm, dict) else [wm]))
        if rkw['read_meta']:
            if 'units' in keys:
                aniso = navis.utils.is_iterable(x.units.magnitude)
                same = _units_equal(x.units, z.units)
                ctx.oracle(same, f'units {x.units} come back as {z.units}', case)
                ctx.count('units', 'per-axis' if aniso else 'isotropic')
                ctx.corr(props.get('units'), meta_text(x, 'units'), 'Meta line units text', case)
            if 'id' in keys:
                ctx.oracle(z.id == str(x.id), f'id {x.id!r} comes back as {z.id!r} (expected its text)', case)
            if isinstance(wm, dict):
                for k, v in wm.items():
                    ctx.corr(props.get(k), str(v), f'Meta line entry {k}', case)
        else:
            ctx.oracle(str(z.units) in ('1 dimensionless', 'dimensionless'), f'read_meta=False but units are {z.units}', case)
        ctx.count('labels_mode', o.get('labels') if isinstance(o.get('labels', 'auto'), str) else 'dict')
        ctx.count('meta_mode', wm if isinstance(wm, str) else type(wm).__name__)
        ctx.count('precision', prec)
        # --- sources ------------------------------------------------------------------------------------------
        if case.get('sources'):
            check_sources(ctx, case, d, path, text, z, rkw)


def _units_equal(a, b):
    try:
        am, bm = np.atleast_1d(np.asarray(a.magnitude, dtype=float)), np.atleast_1d(np.asarray(b.magnitude, dtype=float))
        return str(a.units) == str(b.units) and am.shape == bm.shape and bool(np.all(am == bm))
    except Exception:
        return False


def _first_bad(rows_s):
    """(kind, text) of the first offending row: 'id' (ids not 1..N), 'root' (root not -1 / parent < 1),
    'parent-after-child' (parent id is a later row), 'ok'."""
    k = 1
    for r in rows_s.split():
        f = r.split(':')
        i, p = int(f[0]), int(f[6])
        if i != k:
            return 'id', f'row {k} has id {i}'
        if p != -1:
            if p < 1:
                return 'root', f'row {i} has parent {p} (a root must have -1)'
            if p >= i:
                return 'parent-after-child', f'row {i} has parent {p}'
        k += 1
    return 'ok', 'ok'


# ------------------------------------------------------------------------------------------------
# sources
# ------------------------------------------------------------------------------------------------
def check_sources(ctx, case, d, path, text, z, rkw):
    ref = table_of(z)
    srcs = {
        'Path': lambda: pathlib.Path(path),
        'str': lambda: text,
        'StringIO': lambda: io.StringIO(text),
        'BytesIO': lambda: io.BytesIO(text.encode('utf-8')),
        'file-handle': lambda: open(path, 'r'),
        'binary-handle': lambda: open(path, 'rb'),
    }
    for nm, mk in srcs.items():
        try:
            src = mk()
            y = navis.read_swc(src, **rkw)
            if hasattr(src, 'close'):
                src.close()
            ok = isinstance(y, navis.TreeNeuron) and tables_equal(table_of(y), ref)
            ctx.oracle(ok, f'read_swc from {nm} yields a different node table than from the path', case)
            ctx.oracle(_same_soma(y, z), f'read_swc from {nm}: soma {y.soma} vs {z.soma} from the path', case)
            if rkw.get('read_meta', True):
                ctx.oracle(str(y.units) == str(z.units), f'read_swc from {nm}: units {y.units} vs {z.units}', case)
        except Exception as e:
            ctx.oracle(False, f'read_swc from {nm} raised {type(e).__name__}: {str(e)[:120]}', case)
        ctx.count('source', nm)
    # DataFrame with the seven SWC columns (what read_csv yields)
    try:
        df = pd.read_csv(io.StringIO(text), delimiter=' ', skipinitialspace=True, comment='#', header=None)
        df.columns = list(swc_io.NODE_COLUMNS)
        y = navis.read_swc(df, **rkw)
        ctx.oracle(isinstance(y, navis.TreeNeuron) and tables_equal(table_of(y), ref), 'read_swc from a DataFrame yields a different node table', case)
        ctx.oracle(_same_soma(y, z), f'read_swc from a DataFrame: soma {y.soma} vs {z.soma}', case)
        ctx.count('source', 'DataFrame')
    except Exception as e:
        ctx.oracle(False, f'read_swc from a DataFrame raised {type(e).__name__}: {str(e)[:120]}', case)
    # folder / zip / tar with several copies under different names; fmt decides name / id
    names = case.get('names') or ['alpha_12.swc', 'beta_7.swc']
    fmt = case.get('fmt', '{name}_{id:int}.swc')
    sub = os.path.join(d, 'dir')
    os.mkdir(sub)
    for nmf in names:
        shutil.copy(path, os.path.join(sub, nmf))
    zp = os.path.join(d, 'arch.zip')
    with zipfile.ZipFile(zp, 'w') as zf:
        for nmf in names:
            zf.write(os.path.join(sub, nmf), arcname=nmf)
    tp = os.path.join(d, 'arch.tar')
    with tarfile.open(tp, 'w') as tf:
        for nmf in names:
            tf.add(os.path.join(sub, nmf), arcname=nmf)
    tg = os.path.join(d, 'arch.tar.gz')
    with tarfile.open(tg, 'w:gz') as tf:
        for nmf in names:
            tf.add(os.path.join(sub, nmf), arcname=nmf)
    expect = {}
    for nmf in names:
        expect[nmf] = fmt_model(ctx, fmt, nmf)
    unmatched = [nmf for nmf in names if expect[nmf] is None or expect[nmf] == 'ERR']
    batch = {'folder': sub, 'zip': zp, 'tar': tp, 'tar.gz': tg, 'list': [os.path.join(sub, nmf) for nmf in names]}
    for kind, src in batch.items():
        try:
            ys = navis.read_swc(src, fmt=fmt, **rkw)
            err = None
        except Exception as e:
            ys, err = None, e
        ctx.count('source', kind)
        if unmatched:
            ctx.oracle(err is not None, f'read_swc({kind}, fmt={fmt!r}) accepted file names the pattern cannot parse: {unmatched}', case)
            continue
        if err is not None:
            ctx.oracle(False, f'read_swc({kind}, fmt={fmt!r}) raised {type(err).__name__}: {str(err)[:120]}', case)
            continue
        ok = isinstance(ys, navis.NeuronList) and len(ys) == len(names)
        ctx.oracle(ok, f'read_swc({kind}) returned {type(ys).__name__} of length {len(ys) if hasattr(ys, "__len__") else "?"} for {len(names)} files', case)
        if not ok:
            continue
        got_files = [getattr(y, 'file', None) for y in ys]
        ctx.oracle(sorted(got_files) == sorted(names), f'read_swc({kind}): files {got_files} vs {names}', case)
        if kind in ('zip', 'tar', 'tar.gz', 'list'):
            ctx.oracle(got_files == names, f'read_swc({kind}): batch order {got_files} differs from the archive / list order {names}', case)
        else:
            ys2 = navis.read_swc(src, fmt=fmt, **rkw)
            ctx.oracle([getattr(y, 'file', None) for y in ys2] == got_files, 'read_swc(folder): batch order differs between two reads', case)
        for y in ys:
            ctx.oracle(tables_equal(table_of(y), ref), f'read_swc({kind}) yields a different node table than the path ({y.file})', case)
            ctx.oracle(_same_soma(y, z), f'read_swc({kind}): soma {y.soma} vs {z.soma}', case)
            ex = expect.get(getattr(y, 'file', None)) or {}
            for k, v in ex.items():
                if k == 'file':
                    continue
                gv = getattr(y, k, None)
                ctx.oracle(gv == v and type(gv) is type(v), f'read_swc({kind}, fmt={fmt!r}): attribute {k} of {y.file} is {gv!r}, the pattern prescribes {v!r}', case)


def _same_soma(a, b):
    sa, sb = a.soma, b.soma
    la = [] if sa is None else [int(v) for v in navis.utils.make_iterable(sa)]
    lb = [] if sb is None else [int(v) for v in navis.utils.make_iterable(sb)]
    return la == lb


def fmt_model(ctx, fmt, fname):
    """Lean `matchFmt` + the conversions of parse_filename. None = no match, 'ERR' = conversion error."""
    resp = ctx.ask(f'c07.fmt {fmt} |{fname}')
    if resp == 'NOMATCH':
        return None
    out = {}
    for part in resp.split(';'):
        kt, v = part.split('=', 1)
        k, t = kt.split(':', 1)
        try:
            if t == 'int':
                v = int(v)
            elif t == 'float':
                v = float(v)
            elif t == 'bool':
                v = bool(v)
            elif t == 'str':
                v = str(v)
            else:
                return 'ERR'
        except ValueError:
            return 'ERR'
        out[k] = v
    return out


def case_fmt(ctx, case):
    fmt, fname = case['fmt'], case['fname']
    model = fmt_model(ctx, fmt, fname)
    rd = swc_io.SwcReader(fmt=fmt)
    try:
        impl = rd.parse_filename(os.path.join('/some/dir', fname))
    except ValueError:
        impl = None
    if model == 'ERR':
        ctx.corr('raises' if impl is None else 'ok', 'raises', f'parse_filename({fmt!r}, {fname!r}) vs model (conversion error)', case)
        ctx.count('fmt_outcome', 'conversion-error')
        return
    ctx.corr(json.dumps(impl, sort_keys=True), json.dumps(model, sort_keys=True), f'parse_filename({fmt!r}, {fname!r}) vs matchFmt', case)
    ctx.count('fmt_outcome', 'nomatch' if model is None else 'match')


# ------------------------------------------------------------------------------------------------
# hand-made files
# ------------------------------------------------------------------------------------------------
def case_parse(ctx, case):
    text = case['text']
    r = case.get('read', {})
    rkw = dict(connector_labels=dict(r.get('conn', [])), soma_label=r.get('soma_label', 1), precision=r.get('precision', 64),
               read_meta=r.get('read_meta', True))
    dl = r.get('delim', 'space')
    if dl != 'space':
        rkw['delimiter'] = {'comma': ',', 'tab': '\t', 'semi': ';'}[dl]
    lines = text.split('\n')
    if lines and lines[-1] == '':
        lines = lines[:-1]
    opts_s = wire_opts(dict(opts={}, read=r), None)
    resp = fields(ctx.ask(f'c07.parse {opts_s} |{SEP.join(lines)}'))
    try:
        z = navis.read_swc(io.StringIO(text), **rkw)
        err = None
    except Exception as e:
        z, err = None, e
    if resp.get('parse') != '1':
        ctx.corr('raises' if err is not None else 'ok', 'raises', f'malformed SWC text: read_swc {"raised" if err else "accepted"}; model rejects', case)
        ctx.count('parse_outcome', 'rejected')
        return
    ctx.count('parse_outcome', 'ok')
    if err is not None:
        ctx.corr('raises', 'ok', f'read_swc raised {type(err).__name__}: {str(err)[:100]} on SWC text the model parses', case)
        return
    rows = [rw.split(':') for rw in resp.get('rows', '').split()]
    zt = table_of(z)
    tol = tol_for(rkw['precision'])
    ok = len(zt) == len(rows)
    if ok:
        for a, b in zip(zt, rows):
            ok = ok and a[0] == int(b[0]) and a[1] == int(b[6]) and all(close(a[2 + j], frac(b[2 + j]), tol) for j in range(3)) \
                and close(a[5], frac(b[5]), tol) and label_ok(a[6], b[1], resp.get('labint') == '1')
    ctx.corr('same' if ok else f'{zt}', 'same', 'read_swc(text) node table vs parseSwc', case)
    zs = z.soma
    if resp.get('soma') != 'nan' or rkw['soma_label'] == 1:
        ctx.corr('nan' if zs is None else str(int(navis.utils.make_iterable(zs)[0])), resp.get('soma'), 'read_swc(text) soma vs readBack', case)
    if rkw['connector_labels']:
        zc = z.connectors
        got = ','.join(f'{t}:{int(i)}' for t, i in zip(zc['type'].values, zc['node_id'].values))
        ctx.corr(got, resp.get('conns'), 'read_swc(text) connectors vs readBack', case)
    props = dict(p.split('=', 1) for p in resp.get('props', '').split(';') if '=' in p)
    if 'units' in props:
        ctx.corr(str(z.units), str(navis.config.ureg(props['units'])), 'read_swc(text) units vs Meta line', case)
    if 'id' in props:
        ctx.corr(str(z.id), props['id'], 'read_swc(text) id vs Meta line', case)
    elif rkw['read_meta'] is False or not props:
        pass
    # `.swc_header` holds exactly the leading comment lines
    ctx.corr(str(len([l for l in z.swc_header.split('\n') if l])), resp.get('nhdr', '0'), 'read_swc(text) number of header rows vs headerOf', case)


def case_nanrow(ctx, case):
    """SWC text with NaN in a key column: read_swc drops the rows and re-roots the orphans (= Lean `sanitiseRows`)."""
    text = case['text']
    lines = text.split('\n')
    if lines and lines[-1] == '':
        lines = lines[:-1]
    prec = case.get('precision', 64)
    resp = fields(ctx.ask(f'c07.sanitised soma=1 |{SEP.join(lines)}'))
    try:
        z = navis.read_swc(text, precision=prec)
        err = None
    except Exception as e:
        z, err = None, e
    ctx.count('nanrow_outcome', 'raises' if err is not None else 'ok')
    if err is not None:
        ctx.oracle(False, f'read_swc of an SWC table with a NaN row raises {type(err).__name__} ({type(err.__cause__).__name__ if err.__cause__ else ""}: '
                   f'{str(err.__cause__)[:80] if err.__cause__ else ""}) instead of dropping the row', case)
        return
    rows = [rw.split(':') for rw in resp.get('rows', '').split()]
    zt = table_of(z)
    ok = len(zt) == len(rows) and all(a[0] == int(b[0]) and a[1] == int(b[6]) for a, b in zip(zt, rows))
    ctx.oracle(ok, f'read_swc with NaN rows: table {[(a[0], a[1]) for a in zt]} vs rows without the NaN rows, orphans made roots '
               f'{[(int(b[0]), int(b[6])) for b in rows]}', case)
    # independent of the model: exactly the complete rows survive, nobody refers to a dropped row
    bad = set(case.get('bad', []))
    want_ids = [i for i in case.get('ids', []) if i not in bad]
    if case.get('ids'):
        ctx.oracle([a[0] for a in zt] == want_ids, f'read_swc with NaN rows kept ids {[a[0] for a in zt]}, complete rows are {want_ids}', case)
    ctx.oracle(all(a[1] == -1 or a[1] in {b[0] for b in zt} for a in zt), 'read_swc with NaN rows left a dangling parent', case)
    if prec is not None and len(zt):
        ctx.oracle(str(z.nodes.node_id.dtype).startswith('int') and str(z.nodes.parent_id.dtype).startswith('int'),
                   f'read_swc with NaN rows: id columns have dtypes {z.nodes.node_id.dtype}/{z.nodes.parent_id.dtype}, not integers', case)


# ------------------------------------------------------------------------------------------------
# generators
# ------------------------------------------------------------------------------------------------
RADII = ['0.01', '0.01', '0.01', '0.5', '0.25', '1e-05', 'nan', '-1.0', '0.0', '0.1']
UNITS = ['1 nm', '8 nm', '2 um', None, '0.5 micron']
FMTS = ['{name}.swc', '{id}.swc', '{id:int}.swc', '{name,id}.swc', '{name,id:int}.swc', '{name}_{id:int}.swc', '{name}.{id}.swc',
        '{name}_{}_{id}.swc', '{name}_{myproperty}.swc', 'skel-{name}.swc', '{name}_{id:float}.swc',
        '{id:int}_{name}.swc', '{name:str}.swc', '{flag:bool}.swc', 'x{id:int}.swc']
FNAMES = ['alpha_12.swc', 'beta_7.swc', '123.swc', 'a_b_12.swc', 'skel-foo.swc', 'n.1.swc', 'a.swc.swc', 'x5.swc', 'foo_bar_3.swc', '12_abc.swc',
          'plain.swc', 'a_1.5.swc', '_.swc', 'A(1)_2.swc', 'q+w_8.swc']


FMTS_MORE = ['{}_{name}.swc', '{name}_{}.swc', '{}_{id:int}_{name}.swc', '{name}_{}_{}_{id:int}.swc', '{id:int}_{}_{name}.swc',
             '{name}-{id:int}-{}.swc', '{a}_{b}_{c}.swc', 'n{id:int}_{}x{name}.swc', '{name,id:int}_{}.swc']
TOKENS = ['a', 'foo', '12', '7', '0', 'x9', 'B', 'neuron', '3', '42', 'left', 'R1']


def fill_fmt(r, fmt):
    """A file name built from the pattern: every `{...}` placeholder replaced by a random separator-free token
    (typed placeholders get digits), so the pattern matches and every group carries a distinct value."""
    import re as _re
    used = set()

    def tok(m):
        body = m.group(0)[1:-1]
        for _ in range(20):
            t = r.choice(TOKENS)
            if ':int' in body or ':float' in body:
                t = str(r.randint(0, 999))
            if t not in used:
                break
        used.add(t)
        return t
    out = _re.sub(r'\{.*?\}', tok, fmt)
    if r.random() < 0.1:
        out = out.replace('.swc', '.SWC' if r.random() < 0.5 else '.txt')
    return out


def gen_write_case(r, small=False):
    rows, meta = G.rand_forest(r, nmax=8 if small else 36, allow_zero_edges=r.random() < 0.2)
    n = len(rows)
    ids = [rw['id'] for rw in rows]
    # fractional / negative coordinates now and then
    mode = r.random()
    if mode < 0.25:
        for rw in rows:
            for k in 'xyz':
                rw[k] = rw[k] + r.choice([0, 0.5, 0.25, 0.125, -0.75])
    elif mode < 0.35:
        for rw in rows:
            for k in 'xyz':
                rw[k] = -rw[k] + r.choice([0, 0.1, 0.3])
    case = dict(rows=rows, meta=meta)
    rm = r.random()
    case['radius'] = ['0.01'] * n if rm < 0.3 else [r.choice(RADII) for _ in range(n)]
    case['custom'] = [r.choice([0, 1, 2, 3, 5, 7, 8]) for _ in range(n)]
    case['units'] = r.choice(UNITS) if r.random() < 0.93 else ['4 nm', '4 nm', '40 nm']
    case['id'] = r.choice([None, 1234, 'abc', 2 ** 40 + 3, 7])
    case['name'] = r.choice(['nrn', 'DA1 lPN', 'x_y', 'None'])
    if r.random() < 0.6:
        k = r.randint(0, 2 * n)
        tp = r.choice([('pre', 'post'), ('pre', 'post'), ('pre',), ('post',), (0, 1), ('presynapse', 'postsynapse')])
        case['conn'] = [[r.choice(ids), r.choice(tp)] for _ in range(k)]
    sm = r.random()
    if sm < 0.45:
        case['soma'] = r.choice(ids)
    elif sm < 0.55 and n >= 2:
        case['soma'] = r.sample(ids, 2)
    if r.random() < 0.35 and n >= 2:
        case['reroot'] = r.choice(ids)
    if r.random() < 0.15:
        case['f32'] = True
    lb = r.choice(['auto', 'auto', 'auto', 'auto', 'zero', 'column', 'idx', 'idxfull'])
    if lb == 'idx':
        lb = [[k, r.choice([1, 3, 5, 7])] for k in r.sample(range(n), r.randint(0, n))]
    elif lb == 'idxfull':
        lb = [[k, r.choice([0, 1, 7, 8])] for k in range(n)]
    wm = r.choice(['default', 'default', 'default', 'off', ['id', 'units'], ['units'], {'template': 'JRC2018F', 'n': 5}, 'name', 'units'])
    case['opts'] = dict(labels=lb, export=r.random() < 0.5, meta=wm, nodemap=r.random() < 0.7)
    case['read'] = dict(conn=r.choice([[], [['pre', 7], ['post', 8]], [['pre', 7], ['post', 8]], [['post', 8], ['pre', 7]], [['presynapse', 7]]]),
                        soma_label=r.choice([1, 1, 1, 1, None, 5]), precision=r.choice([32, 32, 64, 64, 16]),
                        read_meta=r.random() < 0.9)
    case['fname'] = r.choice(['nrn.swc', 'my neuron.swc', 'a.b.swc', '12.swc'])
    return case


def gen_parse_text(r):
    """SWC text as people write it by hand."""
    n = r.randint(1, 9)
    dl = r.choice(['space', 'space', 'space', 'comma', 'tab', 'semi'])
    dch = {'space': ' ', 'comma': ',', 'tab': '\t', 'semi': ';'}[dl]
    extra = r.choice([0, 0, 0, 1, 2])
    lines = []
    for _ in range(r.randint(0, 3)):
        lines.append(r.choice(['# a comment', '#', '# PointNo Label X Y Z Radius Parent', '#no space']))
    meta_pos = r.choice(['header', 'header', 'none', 'after', 'twice', 'upper'])
    meta = {'id': r.choice(['77', 'abc']), 'units': r.choice(['8 nanometer', '1 micrometer'])}
    if meta_pos in ('header', 'twice'):
        lines.append('# Meta: ' + json.dumps(meta))
    if meta_pos == 'upper':
        lines.append('# META: ' + json.dumps(meta))
    if meta_pos == 'twice':
        lines.append('# Meta: ' + json.dumps({'id': 'second', 'units': '3 nanometer'}))
    if r.random() < 0.5:
        lines.append('# trailing header line')
    ids = r.sample(range(1, 60), n) if r.random() < 0.5 else list(range(1, n + 1))
    for k, i in enumerate(ids):
        p = -1 if k == 0 or r.random() < 0.15 else r.choice(ids[:k])
        lab = r.choice(['0', '1', '5', '6', '7', '8', '3', '2'])
        xyz = [r.choice(['1.5', '2', '-3.25', '0.0', '100', '1e2', '2.5e-1', '7.', '.5']) for _ in range(3)]
        rad = r.choice(['0.5', '1', '0.01', 'nan', 'NaN', '-1', '2.0'])
        f = [str(i), lab] + xyz + [rad, str(p)] + [r.choice(['9', 'x', '1.5']) for _ in range(extra)]
        pad = r.choice(['', '', ' ']) if dl == 'space' else ''
        line = pad + (dch + (' ' if r.random() < 0.2 else '')).join(f)
        if r.random() < 0.1:
            line += '# inline comment'
        lines.append(line)
        if r.random() < 0.12:
            lines.append(r.choice(['', '# interleaved comment']))
        if meta_pos == 'after' and k == 0:
            lines.append('# Meta: ' + json.dumps(meta))
    malformed = r.random() < 0.12
    if malformed and n >= 1:
        kind = r.choice(['short', 'shortall', 'ragged'])
        body = [k for k, l in enumerate(lines) if l and not l.lstrip().startswith('#')]
        if kind == 'shortall':
            for k in body:
                lines[k] = dch.join(lines[k].split('#')[0].strip().split(dch)[:5])
        elif kind == 'ragged' and len(body) >= 2:
            # a later row with fewer fields: read_csv pads with NaN, sanitise_nodes drops the row
            k = r.choice(body[1:])
            lines[k] = dch.join(lines[k].split('#')[0].strip().split(dch)[:r.choice([4, 6])])
        else:
            k = body[0]
            lines[k] = dch.join(lines[k].split('#')[0].strip().split(dch)[:6])
    text = '\n'.join(lines) + ('\n' if r.random() < 0.8 else '')
    return dict(text=text, read=dict(delim=dl, conn=r.choice([[], [['pre', 7], ['post', 8]]]), soma_label=r.choice([1, 1, None, 5]),
                                     precision=r.choice([64, 32]), read_meta=r.random() < 0.85), malformed=malformed)


def gen_nanrow(r):
    n = r.randint(2, 8)
    lines = ['# SWC with missing data']
    bad = set(r.sample(range(n), r.randint(1, max(1, n // 3))))
    for k in range(n):
        p = -1 if k == 0 else r.randrange(1, k + 1)
        f = [str(k + 1), '0', '1.0', '2.0', '3.0', '0.5', str(p)]
        if k in bad:
            col = r.choice([2, 3, 4, 2, 3, 4, 6, 0])
            if col == 0:
                f[0] = r.choice(['nan', 'NaN'])
            else:
                f[col] = r.choice(['nan', 'NaN', 'None'])
        lines.append(' '.join(f))
    bad_ids = sorted(b + 1 for b in bad)
    return dict(text='\n'.join(lines) + '\n', bad=bad_ids, ids=list(range(1, n + 1)), precision=r.choice([64, 32]))


CHAIN5 = dict(rows=[dict(id=i, parent=(i - 1 if i > 1 else -1), x=3 * i, y=0, z=0) for i in range(1, 6)], reroot=5,
              opts=dict(labels='auto', export=False, meta='default', nodemap=True), read=dict(precision=32), meta=dict(shape='corpus-chain5-rerooted'))


def run(ctx):
    ctx.extra['rule'] = ('write stream: forests from harness/gen.py (13 shape classes × 6 labelings × 3 row orders) × radius / soma / connector / '
                         'reroot / float32 decorations × label, connector, metadata, node-map and reader options; a case is non-trivial when the '
                         'forest has ≥ 3 nodes; parse / nanrow / fmt streams: hand-made SWC text and file-name patterns; distinct by JSON digest')
    ctx.extra['assumptions'] = ['decimal text of a float (Python repr / numpy str) is an injective encoding of the double; the Lean lexer reads it as an exact rational',
                                'pandas read_csv / csv.writer / zipfile / tarfile are modelled (token level), not verified']
    r = ctx.rng
    # corpus first
    c = dict(CHAIN5, kind='write', sources=True)
    ctx.case(c)
    case_write(ctx, c)
    nw = ctx.budget(110, 1400)
    for k in range(nw):
        case = gen_write_case(r, small=(k % 4 == 0))
        case['kind'] = 'write'
        if k % 12 == 0:
            case['sources'] = True
            case['fmt'] = r.choice(FMTS)
            case['names'] = r.sample(FNAMES, r.randint(1, 3))
        ctx.case(case, nontrivial=len(case['rows']) >= 3)
        m = case['meta']
        ctx.count('shape', m.get('shape')); ctx.count('labeling', m.get('labeling')); ctx.count('order', m.get('order'))
        ctx.count('rerooted', case.get('reroot') is not None)
        case_write(ctx, case)
    # file-name patterns: the full cross product of the hand-written patterns and names (cheap), then names
    # *generated from* a pattern by filling its placeholders, so that matches with several groups are frequent
    for f_ in FMTS:
        for n_ in FNAMES:
            case = dict(kind='fmt', fmt=f_, fname=n_)
            ctx.case(case, nontrivial=True)
            case_fmt(ctx, case)
    for k in range(ctx.budget(150, 1500)):
        f_ = r.choice(FMTS + FMTS_MORE)
        case = dict(kind='fmt', fmt=f_, fname=fill_fmt(r, f_))
        ctx.case(case, nontrivial=True)
        case_fmt(ctx, case)
    for k in range(ctx.budget(60, 700)):
        case = dict(gen_parse_text(r), kind='parse')
        ctx.case(case, nontrivial=True)
        case_parse(ctx, case)
    for k in range(ctx.budget(25, 250)):
        case = dict(gen_nanrow(r), kind='nanrow')
        ctx.case(case, nontrivial=True)
        case_nanrow(ctx, case)
    ctx.notes += [
        'data rows of a written file end with \\r\\n (csv.writer default) while header lines end with \\n; the Lean lexer and pandas both accept it',
        'labels=<dict> is applied with swc.index.map(labels), i.e. keyed by the DataFrame index label, not by node_id as the docstring says; '
        'the model follows the code (the property does not constrain custom labels)',
        'make_swc_table sorts with kind="stable" on the depth column, so the file order is determined: the correspondence demands exactly '
        'the model order (sortByDepth); histogram historical_order_would_be counts the inputs on which the former parent_id sort was invalid',
        'export_connectors=True on a skeleton without connector table raises ValueError (x.presynapses); modelled as writeRaises',
        'a synapse label overrides the soma label on the same node (one label per node); counted, not flagged',
    ]
    if not ctx.quick():
        exhaustive_small(ctx)
        parallel_batch(ctx)


def parallel_batch(ctx):
    """Folder / zip of several neurons read with worker processes: same neurons, same order as the serial read."""
    r = ctx.rng
    for rep in range(2):
        cases = [gen_write_case(r, small=True) for _ in range(6)]
        case = dict(kind='parallel', n=6, seeds=[c['meta'] for c in cases])
        ctx.case(case, nontrivial=True)
        with Tmp() as d:
            sub = os.path.join(d, 'many')
            os.mkdir(sub)
            nl = []
            for k, c in enumerate(cases):
                c['id'] = 100 + k
                c['soma'] = None if isinstance(c.get('soma'), list) else c.get('soma')
                x = build(c)
                nl.append(x)
            nl = navis.NeuronList(nl)
            navis.write_swc(nl, sub)
            zp = os.path.join(d, 'many.zip')
            navis.write_swc(nl, zp)
            for src in (sub, zp):
                a = navis.read_swc(src, fmt='{id:int}.swc', parallel=False, precision=64)
                b = navis.read_swc(src, fmt='{id:int}.swc', parallel=2, precision=64)
                ctx.oracle([n.id for n in a] == [n.id for n in b], f'read_swc({os.path.basename(src)}): order with parallel=2 {[n.id for n in b]} vs serial {[n.id for n in a]}', case)
                ctx.oracle(sorted(n.id for n in a) == [100 + k for k in range(6)], f'read_swc({os.path.basename(src)}): ids {[n.id for n in a]}', case)
                ctx.oracle(all(tables_equal(table_of(u), table_of(v)) for u, v in zip(a, b)), 'parallel read yields different node tables', case)
                if src == zp:
                    ctx.oracle([n.id for n in a] == [100 + k for k in range(6)], f'read_swc(zip): batch order {[n.id for n in a]} is not the archive order', case)
                ctx.count('source', 'parallel-' + ('zip' if src == zp else 'folder'))


def exhaustive_small(ctx):
    """Every forest on ≤ 5 labelled nodes: write, validity iff the model condition, round trip."""
    cnt = 0
    for n in range(1, 6):
        for par in itertools.product(range(-1, n), repeat=n):
            ok = True
            for i in range(n):
                seen, j = 0, i
                while j >= 0 and seen <= n:
                    j = par[j]; seen += 1
                if seen > n:
                    ok = False; break
            if not ok:
                continue
            rows = [dict(id=i + 1, parent=(par[i] + 1 if par[i] >= 0 else -1), x=3 * i, y=i % 2, z=0) for i in range(n)]
            case = dict(kind='write', rows=rows, opts=dict(labels='auto', export=False, meta='default', nodemap=True), read=dict(precision=64),
                        meta=dict(shape='exh'))
            ctx.case(case, nontrivial=n >= 3)
            case_write(ctx, case)
            cnt += 1
    ctx.extra['exhaustive_small_scope'] = f'all forests on ≤5 labelled nodes (ids 1..n, every parent function without cycles): {cnt} skeletons written, parsed by the Lean parser, read back'


RUNNERS = {'write': case_write, 'fmt': case_fmt, 'parse': case_parse, 'nanrow': case_nanrow, 'parallel': lambda ctx, case: parallel_batch(ctx)}


def replay(ctx, rp):
    case = rp['case']
    ctx.case(case)
    RUNNERS[case.get('kind', 'write')](ctx, case)


def shrink(ctx, failure):
    """Greedy shrink of a failing write case: drop leaves / decorations while an oracle still fails with the same message class."""
    case = failure.get('case') or {}
    if case.get('kind', 'write') != 'write':
        return None
    from .common import Ctx

    def fails(c):
        sub = Ctx(ctx.prop, ctx.tier, ctx.seed)
        sub.drv = ctx.drv
        sub.known = []
        try:
            case_write(sub, c)
        except Exception:
            return None
        for f in sub.failures:
            if f['kind'] == 'oracle' and f['what'].split(':')[0][:40] == failure['what'].split(':')[0][:40]:
                return f
        return None

    best, bestf = case, failure
    improved = True
    steps = 0
    while improved and steps < 60:
        improved = False
        steps += 1
        rows = best['rows']
        parents = {r['parent'] for r in rows}
        cands = []
        for k, rw in enumerate(rows):
            if rw['id'] not in parents and len(rows) > 1 and rw['id'] != best.get('reroot'):
                c = json.loads(json.dumps(best))
                gone = rw['id']
                del c['rows'][k]
                for key in ('radius', 'custom'):
                    if c.get(key):
                        del c[key][k]
                if c.get('conn'):
                    c['conn'] = [q for q in c['conn'] if q[0] != gone]
                if isinstance(c.get('soma'), list):
                    c['soma'] = [s for s in c['soma'] if s != gone] or None
                elif c.get('soma') == gone:
                    c['soma'] = None
                if isinstance(c['opts'].get('labels'), list):
                    c['opts']['labels'] = [q for q in c['opts']['labels'] if q[0] < len(c['rows'])]
                cands.append(c)
        for key in ('conn', 'soma', 'f32', 'sources'):
            if best.get(key):
                c = json.loads(json.dumps(best)); c[key] = None
                cands.append(c)
        for c in cands:
            f = fails(c)
            if f:
                best, bestf, improved = c, f, True
                break
    return dict(bestf, case=best)
