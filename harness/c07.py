"""C07 — SWC files round-trip and are valid, parent-first SWC tables.

Streams
  write   : random forests (all shapes / labelings / row orders of harness/gen.py, rerooted trees, NaN / -1 radii,
            fractional coordinates, float32 tables, soma, connectors, every label / connector / metadata option) →
            `navis.write_swc` into a temp dir outside /verif and /repo → the BYTES of the file go to the Lean lexer +
            `parseSwc` + `swcValidB` (proved equivalent to the specification) + comparison with the model's
            `finish (labelOf …) order` for the order induced by the implementation's node map (which must be exactly
            the model's stable sort by depth) → `navis.read_swc` of the same file compared with the Lean
            `readBack` and, independently, with the original skeleton under the node map.
  sources : the same file(s) through path / Path / str / StringIO / BytesIO / DataFrame / folder / zip / tar(.gz) /
            list of paths; `fmt` patterns (correspondence of `parse_filename` with the Lean `matchFmt`).
  parse   : hand-made SWC text (interleaved comments, blank lines, extra columns, delimiters, meta lines in odd places).
  nanrow  : SWC text with NaN in a key column (id / parent / x / y / z): rows dropped, orphans re-rooted (DESIGN §6 #15, fixed).
  small   : (thorough) every forest on ≤ 5 labelled nodes.
  header  : the `header=` option of write_swc crossed with the other write options: None / single line / several lines / with and
            without final line break / CRLF / blank lines / a Meta line first, in the middle, last (with and without line break) /
            empty string / non-ASCII text; the bytes are compared with the character-level model (`SwcText.assemble`: header verbatim,
            newline-terminated, rows `str(k) …\r\n`), the Lean reader model must find exactly the rows (`dataLines`), and the usual
            validity / round-trip oracles run on the file.  Headers with a line that is neither `#…` nor blank are the open finding
            `write_swc/custom-header/line-without-comment-prefix`.
  many    : NeuronLists written to a folder / a `{neuron.…}` pattern / a zip / `pattern@zip` / a list of paths / a single neuron to a
            folder or zip, with the write options; every produced file is judged like a single write; the folder / archive is read
            back with the matching `fmt`.
  readopt : `limit` (int / slice / substring / regex / list), `include_subdirs`, hidden and foreign files for folder / zip / tar.
  bigid   : hand-made tables with ids beyond int16 / int32 read at every precision (dtype table of `base.parse_precision`).
"""
import io, os, json, math, shutil, tarfile, tempfile, warnings, zipfile, itertools, random, pathlib
from fractions import Fraction

import numpy as np
import pandas as pd

warnings.filterwarnings('ignore')
import navis
from navis.io import swc_io
from . import gen as G

navis.config.pbar_hide = True
navis.set_loggers('ERROR')

SEP = '\x1e'
_L = {'root': 'r', 'end': 'e', 'branch': 'b', 'slab': 's'}


# ------------------------------------------------------------------------------------------------
# helpers
# ------------------------------------------------------------------------------------------------
def fstr(v):
    """numpy scalar → the decimal text pandas' astype(str) writes (shortest repr of its own precision)."""
    if v is None:
        return 'nan'
    try:
        if np.isnan(v):
            return 'nan'
    except TypeError:
        pass
    if isinstance(v, (np.floating,)):
        return str(v)
    if isinstance(v, (int, np.integer)):
        return str(int(v))
    return repr(float(v))


def frac(s):
    """Lean rational `n/d` or integer text → Fraction; 'nan' → None."""
    if s == 'nan':
        return None
    if '/' in s:
        a, b = s.split('/')
        return Fraction(int(a), int(b))
    return Fraction(int(s))


def tol_for(precision):
    return {16: Fraction(1, 2 ** 9), 32: Fraction(1, 2 ** 21), 64: Fraction(1, 2 ** 48), None: Fraction(1, 2 ** 48)}[precision]


def close(a, b, tol):
    """float a vs Fraction b (None = NaN)."""
    if b is None:
        return a is None or (isinstance(a, float) and math.isnan(a))
    if a is None or (isinstance(a, float) and (math.isnan(a) or math.isinf(a))):
        return False
    return abs(Fraction(float(a)) - b) <= tol * max(1, abs(b))


def fields(resp):
    out = {}
    for part in resp.split('|'):
        if '=' in part:
            k, v = part.split('=', 1)
            out[k] = v
    return out


def build(case):
    """Materialise the TreeNeuron of a case."""
    rows = case['rows']
    df = G.rows_to_df(rows)
    df['radius'] = np.array([float(r) for r in case.get('radius', ['0.01'] * len(rows))], dtype=float)
    if case.get('custom') is not None:
        df['mylab'] = np.array(case['custom'], dtype=np.int64)
    if case.get('f32'):
        df = df.astype({'x': np.float32, 'y': np.float32, 'z': np.float32, 'radius': np.float32})
    kw = dict(units=case.get('units', '1 nm'), name=case.get('name', 'nrn'))
    if case.get('id') is not None:
        kw['id'] = case['id']
    x = navis.TreeNeuron(df, **kw)
    cn = case.get('conn')
    if cn is not None:
        x.connectors = pd.DataFrame({'connector_id': np.arange(100, 100 + len(cn), dtype=np.int64),
                                     'node_id': np.array([c[0] for c in cn], dtype=np.int64),
                                     'type': [c[1] for c in cn],
                                     'x': 0.0, 'y': 0.0, 'z': 0.0}).astype({'type': object})
    soma = case.get('soma')
    if isinstance(soma, list):
        x._soma = list(soma)
    elif soma is not None:
        x.soma = soma
    else:
        x.soma = None
    if case.get('reroot') is not None:
        x = navis.reroot_skeleton(x, case['reroot'], inplace=False)
    return x


def write_kwargs(case):
    o = case['opts']
    kw = {}
    lb = o.get('labels', 'auto')
    if lb == 'auto':
        kw['labels'] = True
    elif lb == 'zero':
        kw['labels'] = False
    elif lb == 'column':
        kw['labels'] = 'mylab'
    else:   # dict keyed by index label (as `swc.index.map(labels)` applies it)
        kw['labels'] = {int(k): int(v) for k, v in lb}
    kw['export_connectors'] = bool(o.get('export'))
    wm = o.get('meta', 'default')
    if wm == 'default':
        kw['write_meta'] = True
    elif wm == 'off':
        kw['write_meta'] = False
    elif isinstance(wm, list):
        kw['write_meta'] = list(wm)
    elif isinstance(wm, dict):
        kw['write_meta'] = dict(wm)
    else:
        kw['write_meta'] = wm      # single key
    kw['return_node_map'] = bool(o.get('nodemap', True))
    if o.get('header') is not None:
        kw['header'] = o['header']
    return kw


def raw_header_lines(h):
    """Physical lines of the user's header string (newline-terminated)."""
    t = h if h.endswith('\n') else h + '\n'
    return t.split('\n')[:-1]


def header_lines(h):
    """Physical lines of a custom header as `_write_swc` writes it (what `SwcText.lines (headerText h)` is): a line that is neither a
    `#` line nor empty up to carriage returns gets `# ` in front, then the text is newline-terminated."""
    t = '\n'.join(l if (l.startswith('#') or l.strip('\r') == '') else '# ' + l for l in h.split('\n'))
    t = t if t.endswith('\n') else t + '\n'
    return t.split('\n')[:-1]


def header_ok(h):
    """Every physical line of the user's string is already a `#` line or empty up to carriage returns (nothing to comment out)."""
    return all(l.startswith('#') or l.strip('\r') == '' for l in raw_header_lines(h))


def soma_list(x):
    s = x.soma
    if s is None:
        return []
    return [int(v) for v in navis.utils.make_iterable(s)]


def wire_opts(case, x):
    o = case['opts']
    lb = o.get('labels', 'auto')
    if isinstance(lb, list):
        lbs = 'idx:' + ','.join(f'{int(k)}>{int(v)}' for k, v in lb)
    else:
        lbs = lb
    wm = o.get('meta', 'default')
    if isinstance(wm, list):
        wms = 'keys:' + ','.join(wm)
    elif isinstance(wm, dict):
        wms = 'dict:' + ';'.join(f'{k}>{v}' for k, v in wm.items())
    elif wm in ('default', 'off'):
        wms = wm
    else:
        wms = 'keys:' + wm
    r = case.get('read', {})
    sl = r.get('soma_label', 1)
    cl = r.get('conn', [])
    h = o.get('header')
    hs = 'none' if h is None else 'c:' + ','.join(str(ord(c)) for c in h)
    return (f"labels={lbs} export={int(bool(o.get('export')))} meta={wms} soma={'N' if sl is None else sl} "
            f"conn={','.join(f'{n}:{v}' for n, v in cl)} readmeta={int(r.get('read_meta', True))} delim={r.get('delim', 'space')} hdrtext={hs}")


def wire_skel(x):
    nd = x.nodes
    types = nd['type'].astype(str).values
    cust = nd['mylab'].values if 'mylab' in nd.columns else [0] * len(nd)
    toks = []
    for k in range(len(nd)):
        toks.append(':'.join([str(int(nd.node_id.values[k])), str(int(nd.parent_id.values[k])), fstr(nd.x.values[k]),
                              fstr(nd.y.values[k]), fstr(nd.z.values[k]), fstr(nd.radius.values[k]),
                              _L.get(types[k], 's'), str(int(cust[k])), str(int(nd.index.values[k]))]))
    has = isinstance(x.connectors, pd.DataFrame)
    pre = [int(v) for v in x.presynapses.node_id.values] if has else []
    post = [int(v) for v in x.postsynapses.node_id.values] if has else []
    extra = f"soma={','.join(map(str, soma_list(x)))} hasconn={int(has)} pre={','.join(map(str, pre))} post={','.join(map(str, post))}"
    attrs = ';'.join(f'{k}={meta_text(x, k)}' for k in ('id', 'name', 'units'))
    return ' '.join(toks), extra, attrs


def meta_text(x, k):
    """Text of an attribute in the Meta line: str(value); per-axis units are a JSON list of the three unit strings."""
    v = getattr(x, k, None)
    if k == 'units' and navis.utils.is_iterable(getattr(v, 'magnitude', None)):
        return json.dumps([str(u) for u in v])
    return str(v)


def file_payload(path):
    raw = open(path, 'rb').read()
    text = raw.decode('utf-8')
    lines = text.split('\n')
    if lines and lines[-1] == '':
        lines = lines[:-1]
    return text, SEP.join(lines + ['$'])     # the final `$` piece protects trailing blanks / \r of the last line from the protocol's trim


def table_of(n):
    """Property-level node table of a neuron read back."""
    nd = n.nodes
    lab = nd['label'].values if 'label' in nd.columns else [None] * len(nd)
    out = []
    for k in range(len(nd)):
        out.append((int(nd.node_id.values[k]), int(nd.parent_id.values[k]), float(nd.x.values[k]), float(nd.y.values[k]),
                    float(nd.z.values[k]), float(nd.radius.values[k]), lab[k]))
    return out


def tables_equal(a, b):
    if len(a) != len(b):
        return False
    for r, s in zip(a, b):
        if r[0] != s[0] or r[1] != s[1]:
            return False
        for u, v in zip(r[2:6], s[2:6]):
            if not (u == v or (math.isnan(u) and math.isnan(v))):
                return False
        lu, lv = r[6], s[6]
        if not (lu == lv or (_isnan(lu) and _isnan(lv)) or str(lu) == str(lv)):
            return False
    return True


def _isnan(v):
    try:
        return v is None or bool(np.isnan(v))
    except TypeError:
        return False


def label_text(v):
    """Label value of a node table as text: integers without decimal point, NaN as 'nan'."""
    if _isnan(v):
        return 'nan'
    if isinstance(v, (int, np.integer)):
        return str(int(v))
    if isinstance(v, (float, np.floating)):
        return repr(float(v))
    return str(v)


def label_ok(v, model, labint):
    """Label value read back vs the label token of the file.  When every label token of the file is an integer
    literal the values must be integers (never floats); otherwise pandas infers a float column and only the value counts."""
    if labint:
        return label_text(v) == model
    if model == 'nan':
        return _isnan(v)
    try:
        return (not _isnan(v)) and float(v) == float(model)
    except (TypeError, ValueError):
        return False


class Tmp:
    def __enter__(self):
        self.d = tempfile.mkdtemp(prefix='c07_')
        assert not self.d.startswith('/verif') and not self.d.startswith('/repo')
        return self.d

    def __exit__(self, *a):
        shutil.rmtree(self.d, ignore_errors=True)


# ------------------------------------------------------------------------------------------------
# write + round trip
# ------------------------------------------------------------------------------------------------
def case_write(ctx, case):
    try:
        x = build(case)
    except Exception as e:   # the generator only produces constructible skeletons
        ctx.oracle(False, f'cannot build the skeleton of the case: {type(e).__name__}: {str(e)[:120]}', case)
        return
    kw = write_kwargs(case)
    o = case['opts']
    nodes_s, extra_s, attrs_s = wire_skel(x)
    opts_s = wire_opts(case, x)
    has_conn = isinstance(x.connectors, pd.DataFrame)
    pm0 = {int(i): int(p) for i, p in zip(x.nodes.node_id.values, x.nodes.parent_id.values)}
    tbl = fields(ctx.ask(f'c07.table {opts_s} | {nodes_s} | {extra_s} | {attrs_s}'))
    ctx.oracle(tbl.get('wf') == '1', 'generated skeleton is not a well-formed forest (generator bug)', case)
    ctx.oracle(tbl.get('valid') == '1', 'model: makeSwcTable produced an invalid table (contradicts table_valid)', case)
    ctx.corr(tbl.get('histvalid'), tbl.get('cond'), 'model: historical ordering valid vs its condition (historical_sortByParent_valid_iff)', case)
    ctx.corr(tbl.get('asw'), '1', 'model: the table as written (sequential label assignments + memoised _node_depths) differs from makeSwcTable '
             '(contradicts table_as_written)', case)
    # `_node_depths` as written vs navis on the implementation's own arrays
    nd_ = x.nodes
    impl_d = [int(v) for v in swc_io._node_depths(nd_.node_id.values, nd_.parent_id.values)]
    ctx.corr(dense_rank(impl_d), dense_rank((tbl.get('depthsw') or '').split(',') if tbl.get('depthsw') else []),
             '_node_depths(node_id, parent_id) vs the Lean model of the loop as written (nodeDepthsW), as sort keys (dense ranks)', case)
    with Tmp() as d:
        path = os.path.join(d, case.get('fname', 'nrn.swc'))
        try:
            ret = navis.write_swc(x, path, **kw)
            err = None
        except Exception as e:
            ret, err = None, e
        if tbl.get('raises') == '1' or err is not None:
            ctx.count('write_outcome', 'raises')
            # the only modelled rejection: export_connectors without a connector table
            ctx.corr('raises' if err is not None else 'ok', 'raises' if tbl.get('raises') == '1' else 'ok',
                     f'write_swc raised {type(err).__name__ if err else None}: {str(err)[:100] if err else ""}; model raises={tbl.get("raises")}', case)
            if err is not None and tbl.get('raises') != '1':
                ctx.oracle(False, f'write_swc raised {type(err).__name__}: {str(err)[:120]}', case)
            return
        ctx.count('write_outcome', 'ok')
        # node map: returned or (same deterministic computation) from make_swc_table
        if kw['return_node_map']:
            ctx.oracle(isinstance(ret, dict), f'return_node_map=True returned {type(ret).__name__}', case)
            nmap = {int(k): int(v) for k, v in (ret or {}).items()}
        else:
            ctx.oracle(ret is None, f'return_node_map=False returned {type(ret).__name__}', case)
            _, m2 = swc_io.make_swc_table(x, labels=kw['labels'], export_connectors=kw['export_connectors'], return_node_map=True)
            nmap = {int(k): int(v) for k, v in m2.items()}
        judge_file(ctx, case, x, kw, nmap, path, d)


def judge_file(ctx, case, x, kw, nmap, path, d, report=None):
    """Everything that is decided on one written file: the bytes against the Lean parser / character-level model / checkers,
    `read_swc` of the file against `readBack`, the round trip under the node map, header metadata, sources."""
    rc = report if report is not None else case      # the case recorded with a failure (the whole NeuronList case for the `many` stream)
    o = case['opts']
    nodes_s, extra_s, attrs_s = wire_skel(x)
    opts_s = wire_opts(case, x)
    has_conn = isinstance(x.connectors, pd.DataFrame)
    pm0 = {int(i): int(p) for i, p in zip(x.nodes.node_id.values, x.nodes.parent_id.values)}
    text, payload = file_payload(path)
    map_s = ','.join(f'{k}>{v}' for k, v in nmap.items())
    resp = fields(ctx.ask(f'c07.file {opts_s} | {nodes_s} | {extra_s} | {attrs_s} | {map_s} |{payload}'))
    n = len(pm0)
    cond = resp.get('cond') == '1'
    hdr = o.get('header')
    ctx.count('header_option', header_class(hdr))
    # --- the text: header (generated as the source spells it / the user's string verbatim, newline-terminated), then one `k …\r` line per row
    ctx.corr(resp.get('textok'), '1', 'write_swc: the text of the file is not <header, newline-terminated> followed by one line per table row '
             '(character-level model SwcText.assemble / generated header lines of the source)', rc)
    # a header line that is neither a comment nor blank is turned into a comment by write_swc (finding
    # write_swc/custom-header/line-without-comment-prefix, fixed): every header is judged like any other
    if hdr is not None:
        ctx.oracle(resp.get('hdrok') == '1', f'write_swc(header={hdr!r}): a line of the written header is neither a comment nor blank (it is read as data)', rc,
                   signature='write_swc/custom-header/line-without-comment-prefix')
    # the reader model (read_header_rows + read_csv(skiprows, comment)) finds exactly the row lines, and the header rows are those of the header
    ctx.oracle(resp.get('dl') == '1', 'the lines a reader takes as data (everything after the leading # lines that is neither a comment nor blank) '
               'are not exactly the rows of the table: a row is glued to / hidden by the header or a header line is read as data', rc)
    ctx.corr(resp.get('hrows'), '1', 'leading # lines of the file differ from the leading # lines of the header', rc)
    ctx.corr(resp.get('norows'), '1', 'a header line lexes as a data row', rc)
    # --- the file is an SWC table ------------------------------------------------------------
    ctx.oracle(resp.get('parse') == '1', 'the written file does not parse as an SWC table', rc)
    ctx.oracle(resp.get('ncols') == '7', f'the written file has {resp.get("ncols")} columns, not seven', rc)
    if resp.get('parse') != '1':
        return
    valid = resp.get('valid') == '1'
    # theorem sortByParent_valid_iff says exactly when the as-written ordering is valid
    is_sorted = resp.get('sorted') == '1'
    if not valid:
        bad_kind, bad_txt = _first_bad(resp.get('rows', ''))
        ctx.oracle(False, 'written SWC table is not valid (ids 1..N, roots -1, every parent listed before and numbered '
                   'lower than its children): ' + bad_txt, rc)
    else:
        ctx.oracle(True, 'valid', rc)
    # --- correspondence with the model -----------------------------------------------------------
    ctx.corr(resp.get('sorted'), '1', 'write_swc: file order is not ascending by depth (steps to the root)', rc)
    ctx.corr(resp.get('stable'), '1', 'write_swc: file order differs from the stable sort by depth of the node table', rc)
    ctx.count('order_kind', 'depth-sort' if is_sorted else ('parent-first' if valid else 'other'))
    ctx.count('historical_order_would_be', 'valid' if cond else 'invalid')
    for key, what in (('mapok', 'node map is not a bijection of the node ids onto 1..N'),
                      ('agree', 'file rows differ from the model table (labels / ids / parent remap / radius fill / columns)'),
                      ('mapagree', 'returned node map differs from the model map for the same order'),
                      ('hdr', 'header (comment lines / Meta line) differs from the model header'),
                      ('rt', 'model write → parse does not reproduce the file rows')):
        ctx.corr(resp.get(key), '1', f'write_swc: {what}', rc)
    rows = [r.split(':') for r in resp.get('rows', '').split()]
    # --- read back -----------------------------------------------------------------------------------
    r = case.get('read', {})
    prec = r.get('precision', 32)
    rkw = dict(connector_labels=dict(r.get('conn', [])), soma_label=r.get('soma_label', 1), precision=prec,
               read_meta=r.get('read_meta', True))
    # every other case leaves the options that equal the documented defaults to read_swc itself
    call_kw = dict(rkw)
    if len(pm0) % 2 == 0:
        for k_, dv in (('connector_labels', {}), ('soma_label', 1), ('precision', 32), ('read_meta', True)):
            if call_kw.get(k_) == dv:
                del call_kw[k_]
        ctx.count('read_defaults', 'omitted:' + ','.join(sorted(set(rkw) - set(call_kw))))
    try:
        z = navis.read_swc(path, **call_kw)
    except Exception as e:
        ctx.oracle(False, f'read_swc of the written file raised {type(e).__name__}: {str(e)[:120]}', rc)
        return
    tol = tol_for(prec)
    if case.get('f32'):
        tol = max(tol, tol_for(32))
    zt = table_of(z)
    # reader vs Lean readBack on the same bytes
    ok = len(zt) == len(rows)
    if ok:
        for a, b in zip(zt, rows):
            if a[0] != int(b[0]) or a[1] != int(b[6]):
                ok = False
            if not all(close(a[2 + j], frac(b[2 + j]), tol) for j in range(3)):
                ok = False
            if not close(a[5], frac(b[5]), tol):
                ok = False
            if not label_ok(a[6], b[1], resp.get('labint') == '1'):
                ok = False
    ctx.oracle(ok, 'read_swc node table differs from the table in the file (ids / parents / label values / coordinates / radius)', rc)
    zs = z.soma
    zs_s = 'nan' if zs is None else str(int(navis.utils.make_iterable(zs)[0]))
    # without a row carrying `soma_label` navis falls back to find_soma (label 1 / radius), which is not part of the reader model
    if resp.get('soma') != 'nan' or rkw['soma_label'] == 1:
        ctx.corr(zs_s, resp.get('soma'), 'read_swc soma vs readBack soma', rc)
    if rkw['connector_labels']:
        zc = z.connectors
        got = ','.join(f'{t}:{int(i)}' for t, i in zip(zc['type'].values, zc['node_id'].values)) if isinstance(zc, pd.DataFrame) else 'None'
        ctx.corr(got, resp.get('conns'), 'read_swc connectors vs readBack connectors', rc)
    props = dict(p.split('=', 1) for p in resp.get('props', '').split(';') if '=' in p)
    # --- the round trip under the node map --------------------------------------------------------------
    inv = {v: k for k, v in nmap.items()}
    ctx.oracle(sorted(nmap) == sorted(pm0) and sorted(inv) == list(range(1, n + 1)),
               'node map is not a bijection from the node ids onto 1..N', rc)
    zp = {a[0]: a for a in zt}
    ok_par = ok_xyz = ok_rad = True
    ndx = x.nodes
    for k in range(n):
        i = int(ndx.node_id.values[k]); p = int(ndx.parent_id.values[k])
        a = zp.get(nmap.get(i))
        if a is None:
            ok_par = False
            break
        want = nmap.get(p, -1) if p >= 0 else -1
        if a[1] != want:
            ok_par = False
        for j, col in enumerate(('x', 'y', 'z')):
            if not close(a[2 + j], Fraction(float(ndx[col].values[k])), tol):
                ok_xyz = False
        rad = float(ndx.radius.values[k])
        if not close(a[5], Fraction(0) if math.isnan(rad) else Fraction(rad), tol):
            ok_rad = False
    ctx.oracle(ok_par, 'round trip: parent links differ under the node map', rc)
    ctx.oracle(ok_xyz, f'round trip: coordinates differ (precision {prec})', rc)
    ctx.oracle(ok_rad, f'round trip: radii differ (NaN is written as 0) (precision {prec})', rc)
    if o.get('labels', 'auto') == 'auto' and rkw['soma_label'] == 1:
        somas = soma_list(x)
        exp_pre = set(int(v) for v in x.presynapses.node_id.values) if (has_conn and o.get('export')) else set()
        exp_post = set(int(v) for v in x.postsynapses.node_id.values) if (has_conn and o.get('export')) else set()
        eff = [s for s in somas if s not in exp_pre and s not in exp_post]
        if somas and not eff:
            ctx.count('soma', 'overridden-by-synapse-label')
        elif eff:
            want = min(nmap[s] for s in eff)
            ctx.count('soma', 'single' if len(somas) == 1 else 'several')
            ctx.oracle(zs is not None and int(navis.utils.make_iterable(zs)[0]) == want,
                       f'round trip: soma {somas} comes back as {zs} (expected new id {want})', rc)
        else:
            ctx.count('soma', 'none')
            ctx.oracle(zs is None, f'round trip: skeleton without soma comes back with soma {zs}', rc)
        if o.get('export') and dict(r.get('conn', [])) == {'pre': 7, 'post': 8}:
            zc = z.connectors
            gpre = sorted(int(i) for t, i in zip(zc['type'].values, zc['node_id'].values) if t == 'pre')
            gpost = sorted(int(i) for t, i in zip(zc['type'].values, zc['node_id'].values) if t == 'post')
            ctx.oracle(gpost == sorted(nmap[i] for i in exp_post), 'round trip: postsynapse labels not preserved', rc)
            ctx.oracle(gpre == sorted(nmap[i] for i in exp_pre - exp_post),
                       'round trip: presynapse labels not preserved (nodes without a postsynapse)', rc)
            ctx.count('connectors_exported', 'yes')
    # --- header meta: units and id -----------------------------------------------------------------------
    wm = o.get('meta', 'default')
    keys = ['id', 'name', 'units'] if wm == 'default' else (wm if isinstance(wm, list) else ([] if wm == 'off' or isinstance(wm, dict) else [wm]))
    if hdr is not None:
        # `write_meta` is ignored with a user supplied header: what comes back is what the header's own Meta line says
        keys, wm = [], 'custom-header'
        hp = dict(p_.split('=', 1) for p_ in resp.get('hdrprops', '').split(';') if '=' in p_)
        if rkw['read_meta']:
            ctx.corr(json.dumps(props, sort_keys=True), json.dumps(hp, sort_keys=True), 'Meta properties read back (Lean readBack) vs the Meta line of the custom header', rc)
            if 'id' in hp:
                ctx.oracle(str(z.id) == hp['id'], f'custom header Meta id {hp["id"]!r} comes back as {z.id!r}', rc)
            if 'units' in hp:
                try:
                    want_u = navis.config.ureg(hp['units'])
                    ctx.oracle(str(z.units) == str(want_u), f'custom header Meta units {hp["units"]!r} come back as {z.units}', rc)
                except Exception:
                    pass
            if not hp:
                ctx.oracle(str(z.units) in ('1 dimensionless', 'dimensionless'), f'custom header without Meta line but units are {z.units}', rc)
            ctx.count('custom_header_meta', ','.join(sorted(hp)) or 'none')
    if rkw['read_meta']:
        if 'units' in keys:
            aniso = navis.utils.is_iterable(x.units.magnitude)
            same = _units_equal(x.units, z.units)
            ctx.oracle(same, f'units {x.units} come back as {z.units}', rc)
            ctx.count('units', 'per-axis' if aniso else 'isotropic')
            ctx.corr(props.get('units'), meta_text(x, 'units'), 'Meta line units text', rc)
        if 'id' in keys:
            ctx.oracle(z.id == str(x.id), f'id {x.id!r} comes back as {z.id!r} (expected its text)', rc)
        if isinstance(wm, dict):
            for k, v in wm.items():
                ctx.corr(props.get(k), str(v), f'Meta line entry {k}', rc)
    else:
        ctx.oracle(str(z.units) in ('1 dimensionless', 'dimensionless'), f'read_meta=False but units are {z.units}', rc)
    ctx.count('labels_mode', o.get('labels') if isinstance(o.get('labels', 'auto'), str) else 'dict')
    ctx.count('meta_mode', wm if isinstance(wm, str) else type(wm).__name__)
    # --- dtypes and rounding: precision p casts ids to int<p>, coordinates / radius to float<p> (base.parse_precision) -----------
    ip, fp = {16: ('int16', 'float16'), 32: ('int32', 'float32'), 64: ('int64', 'float64'), None: ('int64', 'float64')}[prec]
    if prec is not None and zt:
        # IDs keep the requested width when it holds them, otherwise the next of 32 / 64 bit that does (Lean `idBits`)
        ip = 'int' + ctx.ask(f'c07.idbits {prec} {min(min(a[0], a[1]) for a in zt)} {max(max(a[0], a[1]) for a in zt)}')
    dts = {c: str(z.nodes[c].dtype) for c in ('node_id', 'parent_id', 'x', 'y', 'z', 'radius')}
    ctx.oracle(dts['node_id'] == ip and dts['parent_id'] == ip and all(dts[c] == fp for c in ('x', 'y', 'z', 'radius')),
               f'read_swc(precision={prec}): column dtypes {dts}, expected {ip} / {fp}', rc)
    if prec in (16, 32):
        # "to the precision requested": exactly the nearest float<p> of the decimal text in the file
        ft = {16: np.float16, 32: np.float32}[prec]
        exact = len(zt) == len(rows) and all(
            (a[2 + j] == float(ft(float(Fraction(frac(b[2 + j]))))) or (math.isinf(a[2 + j]) and math.isinf(float(ft(float(Fraction(frac(b[2 + j])))))))) for a, b in zip(zt, rows) for j in range(3))
        ctx.oracle(exact, f'read_swc(precision={prec}): a coordinate is not the nearest float{prec} of the number in the file', rc)
    ctx.count('precision', prec)
    # --- sources ------------------------------------------------------------------------------------------
    if case.get('sources'):
        check_sources(ctx, case, d, path, text, z, rkw, rc, soma_by_label=resp.get('soma') != 'nan')


def dense_rank(vals):
    """Order-equivalence class of a key column: the dense ranks of its values (invariant under 0- / 1-based depths)."""
    try:
        v = [int(t) for t in vals]
    except (TypeError, ValueError):
        return str(vals)
    rk = {d: k for k, d in enumerate(sorted(set(v)))}
    return [rk[d] for d in v]


def header_class(h):
    if h is None:
        return 'generated'
    if h == '':
        return 'empty'
    k = []
    if not header_ok(h):
        k.append('non-comment-line')
    k.append('multi' if len(header_lines(h)) > 1 else 'single')
    k.append('nl' if h.endswith('\n') else 'no-nl')
    if any(l.lower().startswith('# meta:') for l in header_lines(h)):
        k.append('meta-last' if header_lines(h)[-1].lower().startswith('# meta:') else 'meta')
    if '\r' in h:
        k.append('crlf')
    if any(l.strip('\r') == '' for l in header_lines(h)):
        k.append('blank-line')
    return '+'.join(k)


def _units_equal(a, b):
    try:
        am, bm = np.atleast_1d(np.asarray(a.magnitude, dtype=float)), np.atleast_1d(np.asarray(b.magnitude, dtype=float))
        return str(a.units) == str(b.units) and am.shape == bm.shape and bool(np.all(am == bm))
    except Exception:
        return False


def _first_bad(rows_s):
    """(kind, text) of the first offending row: 'id' (ids not 1..N), 'root' (root not -1 / parent < 1),
    'parent-after-child' (parent id is a later row), 'ok'."""
    k = 1
    for r in rows_s.split():
        f = r.split(':')
        i, p = int(f[0]), int(f[6])
        if i != k:
            return 'id', f'row {k} has id {i}'
        if p != -1:
            if p < 1:
                return 'root', f'row {i} has parent {p} (a root must have -1)'
            if p >= i:
                return 'parent-after-child', f'row {i} has parent {p}'
        k += 1
    return 'ok', 'ok'


# ------------------------------------------------------------------------------------------------
# sources
# ------------------------------------------------------------------------------------------------
def check_sources(ctx, case, d, path, text, z, rkw, rc=None, soma_by_label=True):
    rc = rc if rc is not None else case
    ref = table_of(z)
    srcs = {
        'Path': lambda: pathlib.Path(path),
        'str': lambda: text,
        'StringIO': lambda: io.StringIO(text),
        'BytesIO': lambda: io.BytesIO(text.encode('utf-8')),
        'file-handle': lambda: open(path, 'r'),
        'binary-handle': lambda: open(path, 'rb'),
    }
    for nm, mk in srcs.items():
        try:
            src = mk()
            y = navis.read_swc(src, **rkw)
            if hasattr(src, 'close'):
                src.close()
            ok = isinstance(y, navis.TreeNeuron) and tables_equal(table_of(y), ref)
            ctx.oracle(ok, f'read_swc from {nm} yields a different node table than from the path', rc)
            ctx.oracle(_same_soma(y, z), f'read_swc from {nm}: soma {y.soma} vs {z.soma} from the path', rc)
            if rkw.get('read_meta', True):
                ctx.oracle(str(y.units) == str(z.units), f'read_swc from {nm}: units {y.units} vs {z.units}', rc)
        except Exception as e:
            ctx.oracle(False, f'read_swc from {nm} raised {type(e).__name__}: {str(e)[:120]}', rc)
        ctx.count('source', nm)
    # DataFrame with the seven SWC columns (what read_csv yields)
    try:
        df = pd.read_csv(io.StringIO(text), delimiter=' ', skipinitialspace=True, comment='#', header=None)
        df.columns = list(swc_io.NODE_COLUMNS)
        y = navis.read_swc(df, **rkw)
        ctx.oracle(isinstance(y, navis.TreeNeuron) and tables_equal(table_of(y), ref), 'read_swc from a DataFrame yields a different node table', rc)
        # a DataFrame carries no header, hence no units: when no row has `soma_label`, navis' fall-back soma detection (radius in units)
        # may legitimately differ from the read of the file; compare the soma only when it is found by its label
        if soma_by_label:
            ctx.oracle(_same_soma(y, z), f'read_swc from a DataFrame: soma {y.soma} vs {z.soma}', rc)
        ctx.count('source', 'DataFrame')
    except Exception as e:
        ctx.oracle(False, f'read_swc from a DataFrame raised {type(e).__name__}: {str(e)[:120]}', rc)
    # folder / zip / tar with several copies under different names; fmt decides name / id
    names = case.get('names') or ['alpha_12.swc', 'beta_7.swc']
    fmt = case.get('fmt', '{name}_{id:int}.swc')
    sub = os.path.join(d, 'dir')
    os.mkdir(sub)
    for nmf in names:
        shutil.copy(path, os.path.join(sub, nmf))
    zp = os.path.join(d, 'arch.zip')
    with zipfile.ZipFile(zp, 'w') as zf:
        for nmf in names:
            zf.write(os.path.join(sub, nmf), arcname=nmf)
    tp = os.path.join(d, 'arch.tar')
    with tarfile.open(tp, 'w') as tf:
        for nmf in names:
            tf.add(os.path.join(sub, nmf), arcname=nmf)
    tg = os.path.join(d, 'arch.tar.gz')
    with tarfile.open(tg, 'w:gz') as tf:
        for nmf in names:
            tf.add(os.path.join(sub, nmf), arcname=nmf)
    expect = {}
    for nmf in names:
        expect[nmf] = fmt_model(ctx, fmt, nmf)
    unmatched = [nmf for nmf in names if expect[nmf] is None or expect[nmf] == 'ERR']
    batch = {'folder': sub, 'zip': zp, 'tar': tp, 'tar.gz': tg, 'list': [os.path.join(sub, nmf) for nmf in names]}
    for kind, src in batch.items():
        try:
            ys = navis.read_swc(src, fmt=fmt, **rkw)
            err = None
        except Exception as e:
            ys, err = None, e
        ctx.count('source', kind)
        if unmatched:
            ctx.oracle(err is not None, f'read_swc({kind}, fmt={fmt!r}) accepted file names the pattern cannot parse: {unmatched}', rc)
            continue
        if err is not None:
            ctx.oracle(False, f'read_swc({kind}, fmt={fmt!r}) raised {type(err).__name__}: {str(err)[:120]}', rc)
            continue
        ok = isinstance(ys, navis.NeuronList) and len(ys) == len(names)
        ctx.oracle(ok, f'read_swc({kind}) returned {type(ys).__name__} of length {len(ys) if hasattr(ys, "__len__") else "?"} for {len(names)} files', rc)
        if not ok:
            continue
        got_files = [getattr(y, 'file', None) for y in ys]
        ctx.oracle(sorted(got_files) == sorted(names), f'read_swc({kind}): files {got_files} vs {names}', rc)
        if kind in ('zip', 'tar', 'tar.gz', 'list'):
            ctx.oracle(got_files == names, f'read_swc({kind}): batch order {got_files} differs from the archive / list order {names}', rc)
        else:
            ys2 = navis.read_swc(src, fmt=fmt, **rkw)
            ctx.oracle([getattr(y, 'file', None) for y in ys2] == got_files, 'read_swc(folder): batch order differs between two reads', rc)
        for y in ys:
            ctx.oracle(tables_equal(table_of(y), ref), f'read_swc({kind}) yields a different node table than the path ({y.file})', rc)
            ctx.oracle(_same_soma(y, z), f'read_swc({kind}): soma {y.soma} vs {z.soma}', rc)
            ex = expect.get(getattr(y, 'file', None)) or {}
            for k, v in ex.items():
                if k == 'file':
                    continue
                gv = getattr(y, k, None)
                ctx.oracle(gv == v and type(gv) is type(v), f'read_swc({kind}, fmt={fmt!r}): attribute {k} of {y.file} is {gv!r}, the pattern prescribes {v!r}', rc)


def _same_soma(a, b):
    sa, sb = a.soma, b.soma
    la = [] if sa is None else [int(v) for v in navis.utils.make_iterable(sa)]
    lb = [] if sb is None else [int(v) for v in navis.utils.make_iterable(sb)]
    return la == lb


def fmt_model(ctx, fmt, fname):
    """Lean `matchFmt` + the conversions of parse_filename. None = no match, 'ERR' = conversion error."""
    resp = ctx.ask(f'c07.fmt {fmt} |{fname}')
    if resp == 'NOMATCH':
        return None
    out = {}
    for part in resp.split(';'):
        kt, v = part.split('=', 1)
        k, t = kt.split(':', 1)
        try:
            if t == 'int':
                v = int(v)
            elif t == 'float':
                v = float(v)
            elif t == 'bool':
                v = bool(v)
            elif t == 'str':
                v = str(v)
            else:
                return 'ERR'
        except ValueError:
            return 'ERR'
        out[k] = v
    return out


def case_fmt(ctx, case):
    fmt, fname = case['fmt'], case['fname']
    model = fmt_model(ctx, fmt, fname)
    rd = swc_io.SwcReader(fmt=fmt)
    try:
        impl = rd.parse_filename(os.path.join('/some/dir', fname))
    except ValueError:
        impl = None
    if model == 'ERR':
        ctx.corr('raises' if impl is None else 'ok', 'raises', f'parse_filename({fmt!r}, {fname!r}) vs model (conversion error)', case)
        ctx.count('fmt_outcome', 'conversion-error')
        return
    ctx.corr(json.dumps(impl, sort_keys=True), json.dumps(model, sort_keys=True), f'parse_filename({fmt!r}, {fname!r}) vs matchFmt', case)
    ctx.count('fmt_outcome', 'nomatch' if model is None else 'match')
    if impl is not None:
        # the property itself, decided by the proved checker on navis' own values: "attributes taken from the file name as the pattern
        # prescribes" = the file name contains the pattern with every named placeholder replaced by the extracted text
        # (typed placeholders are left free: the conversion loses leading zeros / signs)
        import re as _re
        typed = set()
        for grp in _re.findall(r'\{(.*?)\}', fmt):
            for f_ in grp.replace(' ', '').split(','):
                if ':' in f_ and f_.split(':')[1] != 'str':
                    typed.add(f_.split(':')[0])
        vals = ';'.join(f'{k}=' + ','.join(str(ord(ch)) for ch in str(v)) for k, v in impl.items() if k != 'file' and k not in typed and isinstance(v, str))
        ok = ctx.ask(f'c07.fmtcheck {fmt} |{fname} |{vals}')
        ctx.oracle(ok == '1', f'parse_filename(fmt={fmt!r}) of {fname!r} returned {({k: v for k, v in impl.items() if k != "file"})}: '
                   'the pattern with these values filled in does not occur in the file name (Lean checker fmtConsistentB)', case)
        ctx.oracle(impl.get('file') == fname, f'parse_filename: file attribute {impl.get("file")!r} is not the file name {fname!r}', case)


# ------------------------------------------------------------------------------------------------
# hand-made files
# ------------------------------------------------------------------------------------------------
def case_parse(ctx, case):
    text = case['text']
    r = case.get('read', {})
    rkw = dict(connector_labels=dict(r.get('conn', [])), soma_label=r.get('soma_label', 1), precision=r.get('precision', 64),
               read_meta=r.get('read_meta', True))
    dl = r.get('delim', 'space')
    if dl != 'space':
        rkw['delimiter'] = {'comma': ',', 'tab': '\t', 'semi': ';'}[dl]
    lines = text.split('\n')
    if lines and lines[-1] == '':
        lines = lines[:-1]
    opts_s = wire_opts(dict(opts={}, read=r), None)
    resp = fields(ctx.ask(f'c07.parse {opts_s} |{SEP.join(lines + ["$"])}'))
    try:
        z = navis.read_swc(io.StringIO(text), **rkw)
        err = None
    except Exception as e:
        z, err = None, e
    if resp.get('parse') != '1':
        ctx.corr('raises' if err is not None else 'ok', 'raises', f'malformed SWC text: read_swc {"raised" if err else "accepted"}; model rejects', case)
        ctx.count('parse_outcome', 'rejected')
        return
    ctx.count('parse_outcome', 'ok')
    ctx.count('parse_blanks', f"{case.get('ws', 'none')}/{case.get('eol', 'lf')}")
    if err is not None:
        ctx.corr('raises', 'ok', f'read_swc raised {type(err).__name__}: {str(err)[:100]} on SWC text the model parses', case)
        return
    rows = [rw.split(':') for rw in resp.get('rows', '').split()]
    zt = table_of(z)
    tol = tol_for(rkw['precision'])
    ok = len(zt) == len(rows)
    if ok:
        for a, b in zip(zt, rows):
            ok = ok and a[0] == int(b[0]) and a[1] == int(b[6]) and all(close(a[2 + j], frac(b[2 + j]), tol) for j in range(3)) \
                and close(a[5], frac(b[5]), tol) and label_ok(a[6], b[1], resp.get('labint') == '1')
    ctx.corr('same' if ok else f'{zt}', 'same', 'read_swc(text) node table vs parseSwc', case)
    zs = z.soma
    if resp.get('soma') != 'nan' or rkw['soma_label'] == 1:
        ctx.corr('nan' if zs is None else str(int(navis.utils.make_iterable(zs)[0])), resp.get('soma'), 'read_swc(text) soma vs readBack', case)
    if rkw['connector_labels']:
        zc = z.connectors
        got = ','.join(f'{t}:{int(i)}' for t, i in zip(zc['type'].values, zc['node_id'].values))
        ctx.corr(got, resp.get('conns'), 'read_swc(text) connectors vs readBack', case)
    props = dict(p.split('=', 1) for p in resp.get('props', '').split(';') if '=' in p)
    if 'units' in props:
        ctx.corr(str(z.units), str(navis.config.ureg(props['units'])), 'read_swc(text) units vs Meta line', case)
    if 'id' in props:
        ctx.corr(str(z.id), props['id'], 'read_swc(text) id vs Meta line', case)
    elif rkw['read_meta'] is False or not props:
        pass
    # `.swc_header` holds exactly the leading comment lines
    ctx.corr(str(len([l for l in z.swc_header.split('\n') if l])), resp.get('nhdr', '0'), 'read_swc(text) number of header rows vs headerOf', case)


def case_nanrow(ctx, case):
    """SWC text with NaN in a key column: read_swc drops the rows and re-roots the orphans (= Lean `sanitiseRows`)."""
    text = case['text']
    lines = text.split('\n')
    if lines and lines[-1] == '':
        lines = lines[:-1]
    prec = case.get('precision', 64)
    resp = fields(ctx.ask(f'c07.sanitised soma=1 |{SEP.join(lines + ["$"])}'))
    try:
        z = navis.read_swc(text, precision=prec)
        err = None
    except Exception as e:
        z, err = None, e
    ctx.count('nanrow_outcome', 'raises' if err is not None else 'ok')
    if err is not None:
        ctx.oracle(False, f'read_swc of an SWC table with a NaN row raises {type(err).__name__} ({type(err.__cause__).__name__ if err.__cause__ else ""}: '
                   f'{str(err.__cause__)[:80] if err.__cause__ else ""}) instead of dropping the row', case)
        return
    rows = [rw.split(':') for rw in resp.get('rows', '').split()]
    zt = table_of(z)
    ok = len(zt) == len(rows) and all(a[0] == int(b[0]) and a[1] == int(b[6]) for a, b in zip(zt, rows))
    ctx.oracle(ok, f'read_swc with NaN rows: table {[(a[0], a[1]) for a in zt]} vs rows without the NaN rows, orphans made roots '
               f'{[(int(b[0]), int(b[6])) for b in rows]}', case)
    # independent of the model: exactly the complete rows survive, nobody refers to a dropped row
    bad = set(case.get('bad', []))
    want_ids = [i for i in case.get('ids', []) if i not in bad]
    if case.get('ids'):
        ctx.oracle([a[0] for a in zt] == want_ids, f'read_swc with NaN rows kept ids {[a[0] for a in zt]}, complete rows are {want_ids}', case)
    ctx.oracle(all(a[1] == -1 or a[1] in {b[0] for b in zt} for a in zt), 'read_swc with NaN rows left a dangling parent', case)
    if prec is not None and len(zt):
        ctx.oracle(str(z.nodes.node_id.dtype).startswith('int') and str(z.nodes.parent_id.dtype).startswith('int'),
                   f'read_swc with NaN rows: id columns have dtypes {z.nodes.node_id.dtype}/{z.nodes.parent_id.dtype}, not integers', case)


# ------------------------------------------------------------------------------------------------
# NeuronLists / folder, pattern, zip, list targets
# ------------------------------------------------------------------------------------------------
TARGETS = ['folder', 'pattern', 'zip', 'pattern@zip', 'list', 'single-folder', 'single-zip', 'pattern-id-name']


def gen_many_case(r):
    k = r.randint(2, 4)
    subs = []
    for j in range(k):
        c = gen_write_case(r, small=True)
        c['id'] = r.choice([100 + j, f'n{j}', 2 ** 33 + j, 7 * (j + 1)])
        c['name'] = r.choice([f'nm{j}', f'DA{j} lPN', f'x_y{j}'])
        if isinstance(c.get('soma'), list):
            c['soma'] = c['soma'][0]
        c.pop('fname', None)
        subs.append(c)
    export = r.random() < 0.3
    if export:
        for c in subs:
            if c.get('conn') is None:
                ids = [rw['id'] for rw in c['rows']]
                c['conn'] = [[r.choice(ids), r.choice(['pre', 'post'])] for _ in range(r.randint(0, 3))]
    opts = dict(labels=r.choice(['auto', 'auto', 'zero', 'column']), export=export,
                meta=r.choice(['default', 'default', 'off', ['id', 'units'], {'template': 'JRC2018F'}]), nodemap=r.random() < 0.5, header=gen_header(r))
    if opts['header'] is not None and not header_ok(opts['header']):
        opts['header'] = '# list header'
    read = dict(conn=r.choice([[], [['pre', 7], ['post', 8]]]), soma_label=1, precision=r.choice([32, 64, 16]), read_meta=True)
    target = r.choice(TARGETS)
    if target.startswith('single'):
        subs = subs[:1]
    return dict(kind='many', subs=subs, opts=opts, read=read, target=target)


def case_many(ctx, case):
    subs = [dict(c, opts=case['opts'], read=case['read']) for c in case['subs']]
    try:
        xs = [build(c) for c in subs]
    except Exception as e:
        ctx.oracle(False, f'cannot build the skeletons of the case: {type(e).__name__}: {str(e)[:120]}', case)
        return
    kw = write_kwargs(case)
    target = case['target']
    ctx.count('many_target', target)
    ids = [str(x.id) for x in xs]
    if len(set(ids)) != len(ids):
        return
    with Tmp() as d:
        out = os.path.join(d, 'out')
        os.mkdir(out)
        obj = xs[0] if target.startswith('single') else navis.NeuronList(xs)
        # expected file names (base.Writer: `<id>.swc` in a folder / a zip, `str.format(neuron=x)` for a pattern)
        if target in ('folder', 'single-folder'):
            dest, names, fmt, container = out, [f'{i}.swc' for i in ids], '{id}.swc', out
        elif target == 'pattern':
            dest, names, fmt, container = os.path.join(out, 'skel-{neuron.name}.swc'), [f'skel-{x.name}.swc' for x in xs], 'skel-{name}.swc', out
        elif target == 'pattern-id-name':
            dest, names, fmt, container = os.path.join(out, '{neuron.id}-{neuron.name}.swc'), [f'{x.id}-{x.name}.swc' for x in xs], '{id}-{name}.swc', out
        elif target in ('zip', 'single-zip'):
            dest, names, fmt, container = os.path.join(d, 'nl.zip'), [f'{i}.swc' for i in ids], '{id}.swc', os.path.join(d, 'nl.zip')
        elif target == 'pattern@zip':
            dest, names, fmt, container = os.path.join(d, 'skel-{neuron.name}.swc@nl.zip'), [f'skel-{x.name}.swc' for x in xs], 'skel-{name}.swc', os.path.join(d, 'nl.zip')
        else:
            names = [f'f{k}.swc' for k in range(len(xs))]
            dest, fmt, container = [os.path.join(out, nm) for nm in names], '{name}.swc', out
        if len(set(names)) != len(names):
            return
        try:
            ret = navis.write_swc(obj, dest, **kw)
            err = None
        except Exception as e:
            ret, err = None, e
        raises = kw['export_connectors'] and kw['labels'] is True and any(not isinstance(x.connectors, pd.DataFrame) for x in xs)
        if err is not None or raises:
            ctx.corr('raises' if err is not None else 'ok', 'raises' if raises else 'ok',
                     f'write_swc({target}) raised {type(err).__name__ if err else None}: {str(err)[:100] if err else ""}', case)
            if err is not None and not raises:
                ctx.oracle(False, f'write_swc({target}) raised {type(err).__name__}: {str(err)[:120]}', case)
            return
        # a node map is only returned for a single neuron written to a file / folder (write_many / write_zip return None)
        ctx.count('many_return', type(ret).__name__)
        if target == 'single-folder' and kw['return_node_map']:
            ctx.oracle(isinstance(ret, dict), f'write_swc(single neuron → folder, return_node_map=True) returned {type(ret).__name__}', case)
        # the files produced
        if container.endswith('.zip'):
            with zipfile.ZipFile(container) as zf:
                got = zf.namelist()
                ex = os.path.join(d, 'extracted')
                os.mkdir(ex)
                zf.extractall(ex)
            files = [os.path.join(ex, nm) for nm in names]
            ctx.oracle(sorted(got) == sorted(names), f'write_swc({target}): archive members {got}, expected {names}', case)
        else:
            got = sorted(os.listdir(container))
            files = [os.path.join(container, nm) for nm in names]
            ctx.oracle(got == sorted(names), f'write_swc({target}): files {got}, expected {sorted(names)}', case)
        if sorted(got) != sorted(names):
            return
        singles = []
        for c, x, f in zip(subs, xs, files):
            _, m2 = swc_io.make_swc_table(x, labels=kw['labels'], export_connectors=kw['export_connectors'], return_node_map=True)
            nmap = {int(k): int(v) for k, v in m2.items()}
            if isinstance(ret, dict) and target == 'single-folder':
                ctx.oracle({int(k): int(v) for k, v in ret.items()} == nmap, 'returned node map differs from make_swc_table\'s', case)
            judge_file(ctx, c, x, kw, nmap, f, d, report=case)
            singles.append(f)
        # read the folder / archive back with the matching pattern
        r = case['read']
        rkw = dict(connector_labels=dict(r.get('conn', [])), soma_label=r.get('soma_label', 1), precision=r.get('precision', 32), read_meta=True)
        try:
            ys = navis.read_swc(container, fmt=fmt, **rkw)
        except Exception as e:
            ctx.oracle(False, f'read_swc({target} container, fmt={fmt!r}) raised {type(e).__name__}: {str(e)[:120]}', case)
            return
        ok = isinstance(ys, navis.NeuronList) and len(ys) == len(xs)
        ctx.oracle(ok, f'read_swc({target} container) returned {type(ys).__name__} of length {len(ys) if hasattr(ys, "__len__") else "?"} for {len(xs)} neurons', case)
        if not ok:
            return
        by_file = {getattr(y, 'file', None): y for y in ys}
        ctx.oracle(sorted(by_file) == sorted(names), f'read_swc({target} container): files {sorted(map(str, by_file))} vs {sorted(names)}', case)
        if container.endswith('.zip'):
            ctx.oracle([getattr(y, 'file', None) for y in ys] == got, f'read_swc(zip): order {[y.file for y in ys]} is not the archive order {got}', case)
        for x, nm, f in zip(xs, names, singles):
            y = by_file.get(nm)
            if y is None:
                continue
            try:
                ref = navis.read_swc(f, **rkw)
            except Exception:
                continue        # already reported by judge_file
            ctx.oracle(tables_equal(table_of(y), table_of(ref)), f'read_swc({target} container): node table of {nm} differs from reading the file alone', case)
            ctx.oracle(_same_soma(y, ref), f'read_swc({target} container): soma of {nm} is {y.soma}, alone {ref.soma}', case)
            if 'id' in fmt:
                ctx.oracle(y.id == str(x.id), f'read_swc({target} container, fmt={fmt!r}): id of {nm} is {y.id!r}, the file name says {str(x.id)!r}', case)
            if 'name' in fmt and target != 'list':
                ctx.oracle(y.name == str(x.name), f'read_swc({target} container, fmt={fmt!r}): name of {nm} is {y.name!r}, the file name says {str(x.name)!r}', case)
            if case['opts'].get('header') is None and case['opts'].get('meta') in ('default', ['id', 'units']):
                ctx.oracle(_units_equal(x.units, y.units), f'read_swc({target} container): units of {nm} are {y.units}, written {x.units}', case)


# ------------------------------------------------------------------------------------------------
# read options on folders / archives: limit, include_subdirs, hidden and foreign files
# ------------------------------------------------------------------------------------------------
def _tiny_swc(k):
    return f'# Meta: {{"units": "1 nanometer"}}\n1 0 {k}.0 0.0 0.0 0.5 -1\n2 0 {k}.0 1.0 0.0 0.5 1\n'


def gen_readopt_case(r):
    n = r.randint(3, 6)
    stems = r.sample(['qa1', 'qb2', 'qa3', 'zz4', 'qb5', 'mm6', 'qa77', 'left_8'], n)
    lim = r.choice([('int', r.randint(0, n + 1)), ('int', r.randint(1, n)), ('slice', [r.randint(0, 2), r.randint(2, n)]), ('sub', r.choice(['qa', 'qb', 'zz', 'nomatch'])),
                    ('regex', r.choice([r'^qa\d', r'q[ab]\d\.swc$', r'.*_8'])), ('list', r.sample(stems, r.randint(1, n))), ('none', None), ('none', None)])
    # now and then the folder itself carries the substring in its name (a `limit` string is documented as a *file name* pattern)
    dirname = 'lib_' + lim[1] if (lim[0] == 'sub' and r.random() < 0.35) else 'lib'
    return dict(kind='readopt', stems=stems, limit=list(lim), subdirs=r.random() < 0.5, deep=r.random() < 0.6, hidden=r.random() < 0.5, dirname=dirname)


def case_readopt(ctx, case):
    import re as _re
    stems = case['stems']
    names = [s_ + '.swc' for s_ in stems]
    kind, val = case['limit']
    with Tmp() as d:
        sub = os.path.join(d, case.get('dirname', 'lib'))
        os.mkdir(sub)
        for k, nm in enumerate(names):
            open(os.path.join(sub, nm), 'w').write(_tiny_swc(k))
        extra = []
        if case.get('hidden'):
            open(os.path.join(sub, '._' + names[0]), 'w').write('resource fork garbage')
            open(os.path.join(sub, 'notes.txt'), 'w').write('not an swc')
            extra = ['._' + names[0], 'notes.txt']
        deep = []
        if case.get('deep'):
            os.mkdir(os.path.join(sub, 'deep'))
            open(os.path.join(sub, 'deep', 'inner9.swc'), 'w').write(_tiny_swc(9))
            deep = ['inner9.swc']
        zp, tp = os.path.join(d, 'lib.zip'), os.path.join(d, 'lib.tar')
        members = names + extra
        with zipfile.ZipFile(zp, 'w') as zf:
            for nm in members:
                zf.write(os.path.join(sub, nm), arcname=nm)
        with tarfile.open(tp, 'w') as tf:
            for nm in members:
                tf.add(os.path.join(sub, nm), arcname=nm)
        limit = {'int': val, 'slice': slice(*val) if kind == 'slice' else None, 'sub': val, 'regex': val, 'list': [v + '.swc' for v in val] if kind == 'list' else None,
                 'none': None}[kind]
        ctx.count('limit_kind', kind)
        for src_kind, src in (('folder', sub), ('zip', zp), ('tar', tp)):
            kw = dict(fmt='{name}.swc', limit=limit)
            if src_kind == 'folder':
                kw['include_subdirs'] = bool(case.get('subdirs'))
            try:
                ys = navis.read_swc(src, **kw)
                got = [y.file for y in ys] if isinstance(ys, navis.NeuronList) else [ys.file]
            except Exception as e:
                ctx.oracle(False, f'read_swc({src_kind}, limit={limit!r}) raised {type(e).__name__}: {str(e)[:120]}', case)
                continue
            ctx.count('readopt_source', src_kind)
            # the candidate files in the order the source presents them
            if src_kind == 'folder':
                try:
                    base = [y.file for y in navis.read_swc(src, fmt='{name}.swc', include_subdirs=bool(case.get('subdirs')))]
                except Exception as e:
                    ctx.oracle(False, f'read_swc(folder) raised {type(e).__name__}: {str(e)[:120]}', case)
                    continue
                want_all = sorted(names + (deep if case.get('subdirs') else []))
                ctx.oracle(sorted(base) == want_all, f'read_swc(folder, include_subdirs={bool(case.get("subdirs"))}) read {sorted(base)}, the .swc files that are not hidden are {want_all}', case)
            else:
                base = list(names)
            if kind == 'none':
                ctx.oracle(got == base, f'read_swc({src_kind}) read {got}, expected {base}', case)
                continue
            if kind == 'int':
                want = base[:val]
                sig = 'read_swc/limit-int/archive-reads-one-more' if (src_kind != 'folder' and got == base[:val + 1] and got != want) else None
                ctx.oracle(got == want, f'read_swc({src_kind}, limit={val}) read {len(got)} files {got}; the first {val} are {want}', case, signature=sig)
            elif kind == 'slice':
                ctx.oracle(got == base[limit], f'read_swc({src_kind}, limit=slice{tuple(val)}) read {got}, expected {base[limit]}', case)
            elif kind == 'sub':
                want = [b for b in base if val in b]
                # (the folder itself may carry the text in its name: a `limit` string is a *file name* pattern — finding
                # read_swc/limit-substring/folder-matches-full-path, fixed)
                sig = 'read_swc/limit-substring/folder-matches-full-path' if (src_kind == 'folder' and val in str(sub)) else None
                ctx.oracle(got == want, f'read_swc({src_kind}, limit={val!r}) read {got}, the names containing it are {want}', case, signature=sig)
            elif kind == 'regex':
                want = [b for b in base if _re.search(val, b)]
                ctx.oracle(got == want, f'read_swc({src_kind}, limit={val!r}) read {got}, the names matching it are {want}', case)
            elif kind == 'list':
                want = [b for b in base if b in limit]
                sig = 'read_swc/limit-list/folder-and-zip-match-nothing' if (src_kind != 'tar' and got == [] and want) else None
                ctx.oracle(got == want, f'read_swc({src_kind}, limit={limit}) read {got}, the listed files present are {want}', case, signature=sig)


# ------------------------------------------------------------------------------------------------
# `_node_depths` on arbitrary parent maps (cycles, dangling parents, self loops: the `on_path` / `in parents` guards)
# ------------------------------------------------------------------------------------------------
def gen_depths_case(r):
    n = r.randint(1, 9)
    ids = r.sample(range(0, 30), n)
    mode = r.choice(['forest', 'any', 'any', 'cycle'])
    par = []
    for k, i in enumerate(ids):
        if mode == 'forest':
            par.append(-1 if k == 0 or r.random() < 0.2 else r.choice(ids[:k]))
        else:
            par.append(r.choice(ids + [-1, -1, 99, i]))
    if mode == 'cycle' and n >= 2:
        cyc = r.sample(range(n), r.randint(2, n))
        for a, b in zip(cyc, cyc[1:] + cyc[:1]):
            par[a] = ids[b]
    order = list(range(n))
    r.shuffle(order)
    return dict(kind='depths', ids=[ids[k] for k in order], parents=[par[k] for k in order], mode=mode)


def case_depths(ctx, case):
    ids, par = case['ids'], case['parents']
    model = ctx.ask('c07.depths ' + ' '.join(f'{i}:{p}' for i, p in zip(ids, par)))
    try:
        impl = dense_rank([int(v) for v in swc_io._node_depths(np.array(ids, dtype=np.int64), np.array(par, dtype=np.int64))])
    except Exception as e:
        impl = f'raises {type(e).__name__}'
    if case.get('mode') == 'forest':
        ctx.corr(impl, dense_rank(model.split(',')), '_node_depths on a forest vs the Lean model of the loop as written (as sort keys: dense ranks)', case)
    else:
        # cycles / dangling parents cannot reach write_swc through a TreeNeuron; the guards only have to terminate
        ctx.corr(isinstance(impl, list) and len(impl) == len(ids), True, '_node_depths on a malformed parent map: ' + str(impl)[:80], case)
    ctx.count('depths_mode', case.get('mode'))


# ------------------------------------------------------------------------------------------------
# ids beyond the integer range of the requested precision
# ------------------------------------------------------------------------------------------------
def gen_bigid_case(r):
    n = r.randint(2, 5)
    pool = [1, 2, 3, 32767, 32768, 40000, 65536, 2 ** 31 - 1, 2 ** 31, 2 ** 31 + 5, 2 ** 32 + 5, 2 ** 40 + 3, 2 ** 53 + 1, 2 ** 62]
    ids = r.sample(pool, n)
    return dict(kind='bigid', ids=ids, parents=[-1] + [r.choice(ids[:k]) for k in range(1, n)], precision=r.choice([16, 32, 64, None]))


def case_bigid(ctx, case):
    ids, par, prec = case['ids'], case['parents'], case['precision']
    text = ''.join(f'{i} 0 {k}.0 0.0 0.0 0.5 {p}\n' for k, (i, p) in enumerate(zip(ids, par)))
    lines = text.split('\n')[:-1]
    resp = fields(ctx.ask(f'c07.parse labels=auto soma=1 |{SEP.join(lines + ["$"])}'))
    rows = [rw.split(':') for rw in resp.get('rows', '').split()]
    ctx.corr([int(b[0]) for b in rows], ids, 'Lean lexer: ids of the hand-made table', case)
    try:
        z = navis.read_swc(text, precision=prec)
    except Exception as e:
        ctx.oracle(False, f'read_swc(precision={prec}) of a table with ids {ids} raised {type(e).__name__}: {str(e.__cause__ or e)[:100]}', case)
        return
    got = [(int(a), int(b)) for a, b in zip(z.nodes.node_id.values, z.nodes.parent_id.values)]
    want = list(zip(ids, par))
    bits = {16: 16, 32: 32, 64: 64, None: 64}[prec]
    over = max(ids) >= 2 ** (bits - 1)
    ctx.count('bigid', f'{prec}:{"over" if over else "fits"}')
    ctx.oracle(got == want, f'read_swc(precision={prec}): ids / parents {got} differ from the table {want}', case,
               signature='read_swc/precision/id-exceeds-int-range' if over else None)
    if prec is not None:
        # the ID columns keep the requested width when it holds them and are widened (32, 64 bit) otherwise: Lean `idBits`
        want_dt = 'int' + ctx.ask(f'c07.idbits {prec} {min(ids + par)} {max(ids + par)}')
        dts = (str(z.nodes.node_id.dtype), str(z.nodes.parent_id.dtype))
        ctx.corr(dts, (want_dt, want_dt), f'read_swc(precision={prec}): dtypes of node_id / parent_id for ids spanning {min(ids + par)}..{max(ids + par)} vs idBits', case)
        ctx.oracle(str(z.nodes.x.dtype) == f'float{prec}', f'read_swc(precision={prec}): coordinates are {z.nodes.x.dtype}', case)


# ------------------------------------------------------------------------------------------------
# generators
# ------------------------------------------------------------------------------------------------
RADII = ['0.01', '0.01', '0.01', '0.5', '0.25', '1e-05', 'nan', '-1.0', '0.0', '0.1']
UNITS = ['1 nm', '8 nm', '2 um', None, '0.5 micron']
FMTS = ['{name}.swc', '{id}.swc', '{id:int}.swc', '{name,id}.swc', '{name,id:int}.swc', '{name}_{id:int}.swc', '{name}.{id}.swc',
        '{name}_{}_{id}.swc', '{name}_{myproperty}.swc', 'skel-{name}.swc', '{name}_{id:float}.swc',
        '{id:int}_{name}.swc', '{name:str}.swc', '{flag:bool}.swc', 'x{id:int}.swc']
FNAMES = ['alpha_12.swc', 'beta_7.swc', '123.swc', 'a_b_12.swc', 'skel-foo.swc', 'n.1.swc', 'a.swc.swc', 'x5.swc', 'foo_bar_3.swc', '12_abc.swc',
          'plain.swc', 'a_1.5.swc', '_.swc', 'A(1)_2.swc', 'q+w_8.swc']


FMTS_MORE = ['{}_{name}.swc', '{name}_{}.swc', '{}_{id:int}_{name}.swc', '{name}_{}_{}_{id:int}.swc', '{id:int}_{}_{name}.swc',
             '{name}-{id:int}-{}.swc', '{a}_{b}_{c}.swc', 'n{id:int}_{}x{name}.swc', '{name,id:int}_{}.swc']
TOKENS = ['a', 'foo', '12', '7', '0', 'x9', 'B', 'neuron', '3', '42', 'left', 'R1']


def fill_fmt(r, fmt):
    """A file name built from the pattern: every `{...}` placeholder replaced by a random separator-free token
    (typed placeholders get digits), so the pattern matches and every group carries a distinct value."""
    import re as _re
    used = set()

    def tok(m):
        body = m.group(0)[1:-1]
        for _ in range(20):
            t = r.choice(TOKENS)
            if ':int' in body or ':float' in body:
                t = str(r.randint(0, 999))
            if t not in used:
                break
        used.add(t)
        return t
    out = _re.sub(r'\{.*?\}', tok, fmt)
    if r.random() < 0.1:
        out = out.replace('.swc', '.SWC' if r.random() < 0.5 else '.txt')
    return out


HDR_LINES = ['# exported by my pipeline', '#', '# a\t b  ', '#no space', '# PointNo Label X Y Z Radius Parent', '# µm ü neuron', '# 1 0 0.0 0.0 0.0 1.0 -1',
             '## double', '# x | y', '# trailing blank ']
HDR_META = ['# Meta: {"id": "5", "units": "2 micrometer"}', '# Meta: {"id": 12, "name": "zz"}', '# META: {"units": "8 nanometer"}', '# meta: {"id": "abc"}',
            '# Meta: {"units": "1 micrometer", "template": "JRC2018F"}']
HDR_SPECIAL = ['', '\n', '#', '# one', '# one\n', '#\n#', '# a\n\n', '\n# after blank']
HDR_BAD = ['no hash', '# a\nno hash\n', ' # lead', 'exported 2026\n# b', '# a\n   \n# b']


def gen_header(r):
    """The `header=` option: None, or a string of comment lines in every arrangement of line breaks / Meta line position / blank lines."""
    k = r.random()
    if k < 0.42:
        return None
    if k < 0.50:
        return r.choice(HDR_SPECIAL)
    if k < 0.56:
        return r.choice(HDR_BAD)
    lines = [r.choice(HDR_LINES) for _ in range(r.randint(1, 3))]
    if r.random() < 0.45:
        pos = r.choice([0, len(lines), len(lines), r.randint(0, len(lines))])
        lines.insert(pos, r.choice(HDR_META))
    if r.random() < 0.15:
        lines.insert(r.randint(0, len(lines)), '')
    sep = '\r\n' if r.random() < 0.12 else '\n'
    h = sep.join(lines)
    if r.random() < 0.5:
        h += sep
    return h


def gen_write_case(r, small=False):
    rows, meta = G.rand_forest(r, nmax=8 if small else 36, allow_zero_edges=r.random() < 0.2)
    n = len(rows)
    ids = [rw['id'] for rw in rows]
    # fractional / negative coordinates now and then
    mode = r.random()
    if mode < 0.25:
        for rw in rows:
            for k in 'xyz':
                rw[k] = rw[k] + r.choice([0, 0.5, 0.25, 0.125, -0.75])
    elif mode < 0.35:
        for rw in rows:
            for k in 'xyz':
                rw[k] = -rw[k] + r.choice([0, 0.1, 0.3])
    case = dict(rows=rows, meta=meta)
    rm = r.random()
    case['radius'] = ['0.01'] * n if rm < 0.3 else [r.choice(RADII) for _ in range(n)]
    case['custom'] = [r.choice([0, 1, 2, 3, 5, 7, 8]) for _ in range(n)]
    case['units'] = r.choice(UNITS) if r.random() < 0.93 else ['4 nm', '4 nm', '40 nm']
    case['id'] = r.choice([None, 1234, 'abc', 2 ** 40 + 3, 7])
    case['name'] = r.choice(['nrn', 'DA1 lPN', 'x_y', 'None'])
    if r.random() < 0.6:
        k = r.randint(0, 2 * n)
        tp = r.choice([('pre', 'post'), ('pre', 'post'), ('pre',), ('post',), (0, 1), ('presynapse', 'postsynapse')])
        case['conn'] = [[r.choice(ids), r.choice(tp)] for _ in range(k)]
    sm = r.random()
    if sm < 0.45:
        case['soma'] = r.choice(ids)
    elif sm < 0.55 and n >= 2:
        case['soma'] = r.sample(ids, 2)
    if r.random() < 0.35 and n >= 2:
        case['reroot'] = r.choice(ids)
    if r.random() < 0.15:
        case['f32'] = True
    lb = r.choice(['auto', 'auto', 'auto', 'auto', 'zero', 'column', 'idx', 'idxfull'])
    if lb == 'idx':
        lb = [[k, r.choice([1, 3, 5, 7])] for k in r.sample(range(n), r.randint(0, n))]
    elif lb == 'idxfull':
        lb = [[k, r.choice([0, 1, 7, 8])] for k in range(n)]
    wm = r.choice(['default', 'default', 'default', 'off', ['id', 'units'], ['units'], {'template': 'JRC2018F', 'n': 5}, 'name', 'units'])
    case['opts'] = dict(labels=lb, export=r.random() < 0.5, meta=wm, nodemap=r.random() < 0.7, header=gen_header(r))
    case['read'] = dict(conn=r.choice([[], [['pre', 7], ['post', 8]], [['pre', 7], ['post', 8]], [['post', 8], ['pre', 7]], [['presynapse', 7]]]),
                        soma_label=r.choice([1, 1, 1, 1, None, 5]), precision=r.choice([32, 32, 64, 64, 16]),
                        read_meta=r.random() < 0.9)
    case['fname'] = r.choice(['nrn.swc', 'my neuron.swc', 'a.b.swc', '12.swc'])
    return case


def gen_parse_text(r):
    """SWC text as people write it by hand."""
    n = r.randint(1, 9)
    dl = r.choice(['space', 'space', 'space', 'comma', 'tab', 'semi'])
    dch = {'space': ' ', 'comma': ',', 'tab': '\t', 'semi': ';'}[dl]
    extra = r.choice([0, 0, 0, 1, 2])
    lines = []
    for _ in range(r.randint(0, 3)):
        lines.append(r.choice(['# a comment', '#', '# PointNo Label X Y Z Radius Parent', '#no space']))
    meta_pos = r.choice(['header', 'header', 'none', 'after', 'twice', 'upper'])
    meta = {'id': r.choice(['77', 'abc']), 'units': r.choice(['8 nanometer', '1 micrometer'])}
    if meta_pos in ('header', 'twice'):
        lines.append('# Meta: ' + json.dumps(meta))
    if meta_pos == 'upper':
        lines.append('# META: ' + json.dumps(meta))
    if meta_pos == 'twice':
        lines.append('# Meta: ' + json.dumps({'id': 'second', 'units': '3 nanometer'}))
    if r.random() < 0.5:
        lines.append('# trailing header line')
    ids = r.sample(range(1, 60), n) if r.random() < 0.5 else list(range(1, n + 1))
    for k, i in enumerate(ids):
        p = -1 if k == 0 or r.random() < 0.15 else r.choice(ids[:k])
        lab = r.choice(['0', '1', '5', '6', '7', '8', '3', '2'])
        xyz = [r.choice(['1.5', '2', '-3.25', '0.0', '100', '1e2', '2.5e-1', '7.', '.5']) for _ in range(3)]
        rad = r.choice(['0.5', '1', '0.01', 'nan', 'NaN', '-1', '2.0'])
        f = [str(i), lab] + xyz + [rad, str(p)] + [r.choice(['9', 'x', '1.5']) for _ in range(extra)]
        pad = r.choice(['', '', ' ']) if dl == 'space' else ''
        line = pad + (dch + (' ' if r.random() < 0.2 else '')).join(f)
        if r.random() < 0.1:
            line += '# inline comment'
        lines.append(line)
        if r.random() < 0.12:
            lines.append(r.choice(['', '# interleaved comment']))
        if meta_pos == 'after' and k == 0:
            lines.append('# Meta: ' + json.dumps(meta))
    malformed = r.random() < 0.12
    if malformed and n >= 1:
        kind = r.choice(['short', 'shortall', 'ragged'])
        body = [k for k, l in enumerate(lines) if l and not l.lstrip().startswith('#')]
        if kind == 'shortall':
            for k in body:
                lines[k] = dch.join(lines[k].split('#')[0].strip().split(dch)[:5])
        elif kind == 'ragged' and len(body) >= 2:
            # a later row with fewer fields: read_csv pads with NaN, sanitise_nodes drops the row
            k = r.choice(body[1:])
            lines[k] = dch.join(lines[k].split('#')[0].strip().split(dch)[:r.choice([4, 6])])
        else:
            k = body[0]
            lines[k] = dch.join(lines[k].split('#')[0].strip().split(dch)[:6])
    # blanks the way hand-edited files have them: trailing blanks on every data row (one more, empty, column), on one later
    # row only (ragged: pandas refuses), a line of blanks between rows (a row without data: dropped, orphans re-rooted)
    ws = 'none'
    if dl == 'space' and not malformed:
        body = [k for k, l in enumerate(lines) if l and not l.lstrip().startswith('#') and '#' not in l]
        w = r.random()
        if w < 0.08 and body:
            for k in body:
                lines[k] = lines[k] + ' '
            ws = 'trailing-all' if len(body) == len([l for l in lines if l and not l.lstrip().startswith('#')]) else 'trailing-some'
        elif w < 0.12 and len(body) >= 2:
            lines[body[-1]] = lines[body[-1]] + '  '
            ws = 'trailing-one'
        elif w < 0.18 and len(body) >= 1:
            lines.insert(body[-1], r.choice([' ', '   ']))
            ws = 'blank-row'
    eol = '\r\n' if r.random() < 0.15 else '\n'
    text = eol.join(lines) + (eol if r.random() < 0.8 else '')
    return dict(ws=ws, eol='crlf' if eol != '\n' else 'lf', text=text, read=dict(delim=dl, conn=r.choice([[], [['pre', 7], ['post', 8]]]), soma_label=r.choice([1, 1, None, 5]),
                                     precision=r.choice([64, 32]), read_meta=r.random() < 0.85), malformed=malformed)


def gen_nanrow(r):
    n = r.randint(2, 8)
    lines = ['# SWC with missing data']
    bad = set(r.sample(range(n), r.randint(1, max(1, n // 3))))
    for k in range(n):
        p = -1 if k == 0 else r.randrange(1, k + 1)
        f = [str(k + 1), '0', '1.0', '2.0', '3.0', '0.5', str(p)]
        if k in bad:
            col = r.choice([2, 3, 4, 2, 3, 4, 6, 0])
            if col == 0:
                f[0] = r.choice(['nan', 'NaN'])
            else:
                f[col] = r.choice(['nan', 'NaN', 'None'])
        lines.append(' '.join(f))
    bad_ids = sorted(b + 1 for b in bad)
    return dict(text='\n'.join(lines) + '\n', bad=bad_ids, ids=list(range(1, n + 1)), precision=r.choice([64, 32]))


CHAIN5 = dict(rows=[dict(id=i, parent=(i - 1 if i > 1 else -1), x=3 * i, y=0, z=0) for i in range(1, 6)], reroot=5,
              opts=dict(labels='auto', export=False, meta='default', nodemap=True), read=dict(precision=32), meta=dict(shape='corpus-chain5-rerooted'))


def _guard(fn):
    """A case runner that cannot evaluate a case because navis hands back something unexpected (possible after an edit of navis,
    never on the clean tree) records a broken correspondence with the exception instead of crashing the run."""
    def wrapped(ctx, case):
        try:
            return fn(ctx, case)
        except (KeyboardInterrupt, SystemExit):
            raise
        except Exception as e:
            from .common import Timeout
            if isinstance(e, (Timeout, RuntimeError)) and 'driver' in str(e).lower() + type(e).__name__.lower():
                raise
            if isinstance(e, Timeout):
                raise
            import traceback
            ctx.corr(f'{type(e).__name__}: {str(e)[:160]} @ {traceback.format_exc().strip().splitlines()[-3].strip()[:120]}', 'evaluated',
                     f'harness could not evaluate a {case.get("kind", "write")} case on the output of navis', case)
    wrapped.__name__ = fn.__name__
    return wrapped


def run(ctx):
    ctx.extra['rule'] = ('write stream: forests from harness/gen.py (13 shape classes × 6 labelings × 3 row orders) × radius / soma / connector / '
                         'reroot / float32 decorations × label, connector, metadata, node-map and reader options; a case is non-trivial when the '
                         'forest has ≥ 3 nodes; the `header=` option (None / comment lines with and without final line break, CRLF, blank lines, Meta line '
                         'first / middle / last, empty, non-ASCII, lines without #) is drawn for every write case; parse / nanrow / fmt streams: hand-made '
                         'SWC text and file-name patterns; many: NeuronLists to folder / pattern / zip / pattern@zip / list / single→folder|zip; readopt: limit × '
                         'include_subdirs × hidden / foreign files on folder, zip, tar; bigid: ids beyond int16 / int32 × precision; depths: _node_depths on '
                         'arbitrary parent maps; distinct by JSON digest')
    ctx.extra['assumptions'] = ['decimal text of a float (Python repr / numpy str) is an injective encoding of the double; the Lean lexer reads it as an exact rational',
                                'pandas read_csv / csv.writer / zipfile / tarfile are modelled (token level), not verified']
    r = ctx.rng
    # corpus first
    c = dict(CHAIN5, kind='write', sources=True)
    ctx.case(c)
    case_write(ctx, c)
    nw = ctx.budget(110, 1400)
    for k in range(nw):
        case = gen_write_case(r, small=(k % 4 == 0))
        case['kind'] = 'write'
        if k % 6 == 0:
            case['sources'] = True
            case['fmt'] = r.choice(FMTS)
            case['names'] = r.sample(FNAMES, r.randint(1, 3))
        ctx.case(case, nontrivial=len(case['rows']) >= 3)
        m = case['meta']
        ctx.count('shape', m.get('shape')); ctx.count('labeling', m.get('labeling')); ctx.count('order', m.get('order'))
        ctx.count('rerooted', case.get('reroot') is not None)
        case_write(ctx, case)
    # file-name patterns: the full cross product of the hand-written patterns and names (cheap), then names
    # *generated from* a pattern by filling its placeholders, so that matches with several groups are frequent
    for f_ in FMTS:
        for n_ in FNAMES:
            case = dict(kind='fmt', fmt=f_, fname=n_)
            ctx.case(case, nontrivial=True)
            case_fmt(ctx, case)
    for k in range(ctx.budget(150, 1500)):
        f_ = r.choice(FMTS + FMTS_MORE)
        case = dict(kind='fmt', fmt=f_, fname=fill_fmt(r, f_))
        ctx.case(case, nontrivial=True)
        case_fmt(ctx, case)
    for k in range(ctx.budget(60, 700)):
        case = dict(gen_parse_text(r), kind='parse')
        ctx.case(case, nontrivial=True)
        case_parse(ctx, case)
    for k in range(ctx.budget(25, 250)):
        case = dict(gen_nanrow(r), kind='nanrow')
        ctx.case(case, nontrivial=True)
        case_nanrow(ctx, case)
    for k in range(ctx.budget(24, 300)):
        case = gen_many_case(r)
        case['target'] = TARGETS[k % len(TARGETS)] if k < 2 * len(TARGETS) else case['target']
        if case['target'].startswith('single'):
            case['subs'] = case['subs'][:1]
        ctx.case(case, nontrivial=True)
        case_many(ctx, case)
    # fixed cases first (past defects of `limit`: integer on archives, list of names on folders / zips, plain text vs the folder's own path)
    for lim_, dn_ in ((['int', 1], 'lib'), (['int', 2], 'lib'), (['list', ['zz4', 'qa1']], 'lib'), (['sub', 'zz'], 'lib_zz'), (['sub', 'qa'], 'qa_lib')):
        case = dict(kind='readopt', stems=['qa1', 'zz4', 'qb2', 'qa3'], limit=lim_, subdirs=False, deep=True, hidden=True, dirname=dn_)
        ctx.case(case, nontrivial=True)
        case_readopt(ctx, case)
    for k in range(ctx.budget(30, 300)):
        case = gen_readopt_case(r)
        ctx.case(case, nontrivial=True)
        case_readopt(ctx, case)
    for k in range(ctx.budget(60, 600)):
        case = gen_depths_case(r)
        ctx.case(case, nontrivial=True)
        case_depths(ctx, case)
    for k in range(ctx.budget(30, 300)):
        case = gen_bigid_case(r)
        ctx.case(case, nontrivial=True)
        case_bigid(ctx, case)
    ctx.notes += [
        'data rows of a written file end with \\r\\n (csv.writer default) while header lines end with \\n; the Lean lexer and pandas both accept it',
        'labels=<dict> is applied with swc.index.map(labels), i.e. keyed by the DataFrame index label, not by node_id as the docstring says; '
        'the model follows the code (the property does not constrain custom labels)',
        'make_swc_table sorts with kind="stable" on the depth column, so the file order is determined: the correspondence demands exactly '
        'the model order (sortByDepth); histogram historical_order_would_be counts the inputs on which the former parent_id sort was invalid',
        'export_connectors=True on a skeleton without connector table raises ValueError (x.presynapses); modelled as writeRaises',
        'a synapse label overrides the soma label on the same node (one label per node); counted, not flagged',
        'write_swc(header=<str>) writes the string with its non-comment, non-blank lines turned into comments ("# " prepended) plus a final line break; write_meta is ignored then (documented): units / id come '
        'back only if the header itself carries a Meta line among its leading # lines',
        'write_swc(NeuronList | → zip, return_node_map=True) returns None (write_many / write_zip drop the maps); the round trip of list writes is '
        'judged with the map of make_swc_table (same deterministic computation); histogram many_return',
        'a blank-only line between data rows is a row without data for pandas (dropped by sanitise_nodes, orphans re-rooted), trailing blanks open one '
        'more column: the Lean lexer follows this (fields of a line = runs of blanks as separators, a trailing run opens an empty field)',
        'read_swc(path with *) raises FileNotFoundError in its sanity check although files_in_dir supports glob patterns (not part of the property)',
    ]
    if not ctx.quick():
        exhaustive_small(ctx)
        parallel_batch(ctx)
        big_round_trip(ctx)


def big_round_trip(ctx):
    """A skeleton with more nodes than int16 holds, read back at every precision (the writer numbers the rows 1..N)."""
    n = 33000
    case = dict(kind='bign', n=n)
    ctx.case(case, nontrivial=True)
    ids = np.arange(1, n + 1, dtype=np.int64)
    par = np.concatenate([[-1], ids[:-1]])
    par[1::7] = np.maximum(ids[1::7] // 2, 1)          # some branching
    par[0] = -1
    df = pd.DataFrame(dict(node_id=ids, parent_id=par, x=(ids % 97).astype(float), y=(ids % 13).astype(float), z=0.5, radius=0.01))
    x = navis.TreeNeuron(df, units='1 nm', name='big')
    with Tmp() as d:
        path = os.path.join(d, 'big.swc')
        nmap = navis.write_swc(x, path, return_node_map=True)
        nmap = {int(k): int(v) for k, v in nmap.items()}
        for prec in (16, 32, 64):
            z = navis.read_swc(path, precision=prec)
            zp = dict(zip(z.nodes.node_id.values.tolist(), z.nodes.parent_id.values.tolist()))
            ok = len(zp) == n and all(zp.get(nmap[int(i)]) == (nmap[int(p)] if p >= 0 else -1) for i, p in zip(ids, par))
            ctx.oracle(ok, f'round trip of a {n}-node skeleton at precision={prec}: parent links differ under the node map '
                       f'({len(z.root)} roots instead of 1)', case, signature='read_swc/precision/id-exceeds-int-range' if n >= 2 ** (prec - 1) else None)
            want_dt = 'int' + ctx.ask(f'c07.idbits {prec} -1 {n}')
            ctx.corr(str(z.nodes.node_id.dtype), want_dt, f'round trip of a {n}-node skeleton at precision={prec}: dtype of node_id vs idBits', case)
            ctx.count('big_round_trip', f'{prec}:{"ok" if ok else "ids-wrapped"}')


def parallel_batch(ctx):
    """Folder / zip of several neurons read with worker processes: same neurons, same order as the serial read."""
    r = ctx.rng
    for rep in range(2):
        cases = [gen_write_case(r, small=True) for _ in range(6)]
        case = dict(kind='parallel', n=6, seeds=[c['meta'] for c in cases])
        ctx.case(case, nontrivial=True)
        with Tmp() as d:
            sub = os.path.join(d, 'many')
            os.mkdir(sub)
            nl = []
            for k, c in enumerate(cases):
                c['id'] = 100 + k
                c['soma'] = None if isinstance(c.get('soma'), list) else c.get('soma')
                x = build(c)
                nl.append(x)
            nl = navis.NeuronList(nl)
            navis.write_swc(nl, sub)
            zp = os.path.join(d, 'many.zip')
            navis.write_swc(nl, zp)
            for src in (sub, zp):
                a = navis.read_swc(src, fmt='{id:int}.swc', parallel=False, precision=64)
                b = navis.read_swc(src, fmt='{id:int}.swc', parallel=2, precision=64)
                ctx.oracle([n.id for n in a] == [n.id for n in b], f'read_swc({os.path.basename(src)}): order with parallel=2 {[n.id for n in b]} vs serial {[n.id for n in a]}', case)
                ctx.oracle(sorted(n.id for n in a) == [100 + k for k in range(6)], f'read_swc({os.path.basename(src)}): ids {[n.id for n in a]}', case)
                ctx.oracle(all(tables_equal(table_of(u), table_of(v)) for u, v in zip(a, b)), 'parallel read yields different node tables', case)
                if src == zp:
                    ctx.oracle([n.id for n in a] == [100 + k for k in range(6)], f'read_swc(zip): batch order {[n.id for n in a]} is not the archive order', case)
                ctx.count('source', 'parallel-' + ('zip' if src == zp else 'folder'))


def exhaustive_small(ctx):
    """Every forest on ≤ 5 labelled nodes: write, validity iff the model condition, round trip."""
    cnt = 0
    for n in range(1, 6):
        for par in itertools.product(range(-1, n), repeat=n):
            ok = True
            for i in range(n):
                seen, j = 0, i
                while j >= 0 and seen <= n:
                    j = par[j]; seen += 1
                if seen > n:
                    ok = False; break
            if not ok:
                continue
            rows = [dict(id=i + 1, parent=(par[i] + 1 if par[i] >= 0 else -1), x=3 * i, y=i % 2, z=0) for i in range(n)]
            case = dict(kind='write', rows=rows, opts=dict(labels='auto', export=False, meta='default', nodemap=True), read=dict(precision=64),
                        meta=dict(shape='exh'))
            ctx.case(case, nontrivial=n >= 3)
            case_write(ctx, case)
            cnt += 1
    ctx.extra['exhaustive_small_scope'] = f'all forests on ≤5 labelled nodes (ids 1..n, every parent function without cycles): {cnt} skeletons written, parsed by the Lean parser, read back'


case_write, case_fmt, case_parse, case_nanrow, case_many, case_readopt, case_bigid, case_depths = (
    _guard(f_) for f_ in (case_write, case_fmt, case_parse, case_nanrow, case_many, case_readopt, case_bigid, case_depths))

RUNNERS = {'write': case_write, 'fmt': case_fmt, 'parse': case_parse, 'nanrow': case_nanrow, 'parallel': lambda ctx, case: parallel_batch(ctx),
           'many': case_many, 'readopt': case_readopt, 'bigid': case_bigid, 'depths': case_depths, 'bign': lambda ctx, case: big_round_trip(ctx)}


def replay(ctx, rp):
    case = rp['case']
    ctx.case(case)
    RUNNERS[case.get('kind', 'write')](ctx, case)


def shrink(ctx, failure):
    """Greedy shrink of a failing write case: drop leaves / decorations while an oracle still fails with the same message class."""
    case = failure.get('case') or {}
    if case.get('kind', 'write') != 'write':
        return None
    from .common import Ctx

    def fails(c):
        sub = Ctx(ctx.prop, ctx.tier, ctx.seed)
        sub.drv = ctx.drv
        sub.known = []
        try:
            case_write(sub, c)
        except Exception:
            return None
        for f in sub.failures:
            if f['kind'] == 'oracle' and f['what'].split(':')[0][:40] == failure['what'].split(':')[0][:40]:
                return f
        return None

    best, bestf = case, failure
    improved = True
    steps = 0
    while improved and steps < 60:
        improved = False
        steps += 1
        rows = best['rows']
        parents = {r['parent'] for r in rows}
        cands = []
        for k, rw in enumerate(rows):
            if rw['id'] not in parents and len(rows) > 1 and rw['id'] != best.get('reroot'):
                c = json.loads(json.dumps(best))
                gone = rw['id']
                del c['rows'][k]
                for key in ('radius', 'custom'):
                    if c.get(key):
                        del c[key][k]
                if c.get('conn'):
                    c['conn'] = [q for q in c['conn'] if q[0] != gone]
                if isinstance(c.get('soma'), list):
                    c['soma'] = [s for s in c['soma'] if s != gone] or None
                elif c.get('soma') == gone:
                    c['soma'] = None
                if isinstance(c['opts'].get('labels'), list):
                    c['opts']['labels'] = [q for q in c['opts']['labels'] if q[0] < len(c['rows'])]
                cands.append(c)
        for key in ('conn', 'soma', 'f32', 'sources'):
            if best.get(key):
                c = json.loads(json.dumps(best)); c[key] = None
                cands.append(c)
        for c in cands:
            f = fails(c)
            if f:
                best, bestf, improved = c, f, True
                break
    return dict(bestf, case=best)
