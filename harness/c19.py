"""C19 — conversions between representations are geometrically faithful.

Tie (checked on every run; exact unless stated):
 (a) `round`   : numpy's `round` on dyadic rationals (ties included) == Lean `roundHalfEven`.
 (b) `vox`     : `navis.voxelize` on TreeNeurons / Dotprops / MeshNeurons, scalar / per-axis / unit-string pitches, isometric and
                 non-isometric units, default and explicit bounds ((3,2) and (2,3) layouts; enclosing, clipping, disjoint),
                 `counts` True/False, `vectors`/`alphas`: grid shape, offset, units, filled voxels and per-voxel counts are compared
                 with the Lean model (`c19.vox`); all coordinates are multiples of pitch/4, so p/pitch is exact and hits .5 ties.
 (c) `tan`     : `navis.make_dotprops(skeleton, k=0|None)`: points == model midpoints (exact), vector parallel to the model's
                 `child − parent` (cross = 0 against the exact Rat vector; the sign is recorded, not compared), |vect| = 1 (1e-12),
                 length² == exact squared length (1e-12 rel.), zero-length edges dropped.
 (d) `dots`    : `navis.make_dotprops(points, k)` (ndarray / DataFrame / TreeNeuron / MeshNeuron / Dotprops, NaN rows, k > n):
                 `k` == Lean `kClip`; points == finite rows; tangent = principal axis of the exact (Fraction) inertia matrix of the
                 exactly determined k nearest neighbours (eigen-residual and top-eigenvalue test, analytic axis for collinear /
                 planar / reflection-symmetric clouds), alpha == (l1-l2)/(l1+l2+l3) from the exact matrix (1e-8) and Lean
                 `alpha`; `Dotprops.recalculate_tangents`.  TEST (SVD, KD-tree are external numerics).
Oracles (the property itself on navis' output): Lean checkers `coversB`/`insideB` (proved sound in Props/C19) on navis' own voxel
 list; every in-bounds point within one voxel size of a filled voxel *in the VoxelNeuron's own coordinates* (offset/units as navis
 reports them); no filled voxel without a source point; voxel coordinates inside the requested extent; `counts` total == number of
 points whose voxel is in the grid, ≥ points inside the bounds; tangents per non-degenerate edge at the midpoints; unit tangents;
 alpha in [0,1]; one tangent per finite row.
Second pass — Lean-side checkers (proved sound in Props/C19) evaluated on navis' own output instead of Python re-implementations:
 `c19.dots` (exact kNN → centroid → scatter matrix → `judge`: unit tangent, principal axis by eigen-residual + Sylvester test of
 (λ+ε·tr)I − M, alpha by the characteristic-polynomial coefficients), `c19.voxvec` (the same judgement for every voxel of
 `vectors=True`/`alphas=True`), `c19.tancheck` (`tanOKB` on the normalised vectors / lengths of k=0 dotprops), `c19.checkat`
 (`coversAtB`/`sourcedAtB` on the offset / units the VoxelNeuron reports), `c19.mapunits` (unit-string pitches), `c19.vmapidx` /
 `c19.vmapid` / `c19.bbox` / `c19.surf` (vertex maps, bounding boxes, surface hugging + extent in exact dyadic coordinates).
 New streams: default bounds enlarged by connectors, unit strings in a different unit than the neuron's, NeuronList inputs, voxel
 grids built directly (offset ≠ 0, per-axis units, blobs away from index 0) meshed through the single-pass and the chunked path
 (chunk_size, pad_chunks, merge_fragments), skeleton forests / isolated nodes / unsorted tables for tube meshes.
Oracle-only TESTS (external algorithms): tube mesh rings are centred on their nodes and the surface passes within two radii of every
 node (`navis.mesh(skeleton)`, the tube is open-ended, so ray-casting containment is undefined); `navis.mesh(voxelneuron)` surface
 within half a voxel of a filled voxel and within the grid's extent; `navis.skeletonize(mesh)` inside the mesh's bounding box with a
 vertex map onto existing node ids (wavefront and teasar)."""
import math, warnings, copy
from fractions import Fraction as Fr
import numpy as np
import pandas as pd

warnings.filterwarnings('ignore')
import navis
from . import gen as G

navis.config.pbar_hide = True
navis.set_loggers('ERROR')

try:
    import trimesh as tm
except Exception:       # pragma: no cover
    tm = None
try:
    import skimage  # noqa: F401
    HAVE_SKIMAGE = True
except Exception:       # pragma: no cover
    HAVE_SKIMAGE = False
try:
    import skeletor  # noqa: F401
    HAVE_SKELETOR = True
except Exception:       # pragma: no cover
    HAVE_SKELETOR = False

SIG_ISO = 'tree2meshneuron/single-node-fragment/no-geometry'


# ---------------------------------------------------------------------------------------------
# exact helpers
# ---------------------------------------------------------------------------------------------
def fr(x):
    """'n/d' | 'n' | [n, d] | int -> Fraction"""
    if isinstance(x, Fr):
        return x
    if isinstance(x, str):
        return Fr(x)
    if isinstance(x, (list, tuple)):
        return Fr(int(x[0]), int(x[1]))
    return Fr(x)


def tok(f):
    f = Fr(f)
    return str(f.numerator) if f.denominator == 1 else f'{f.numerator}/{f.denominator}'


def fl(x):
    """exact Fraction of a float (numpy scalars included)"""
    return Fr(float(x))


def p3tok(p):
    return ','.join(tok(c) for c in p)


def kv(line):
    out = {}
    for part in line.split('|'):
        k, _, v = part.partition('=')
        out[k] = v
    return out


def vlist(s, width):
    """'a,b,c;a,b,c' -> sorted list of int tuples"""
    return sorted(tuple(int(t) for t in item.split(',')) for item in s.split(';') if item)


def unit_name(x):
    try:
        return str(x.units.units)
    except Exception:
        return '?'


def units_xyz_mag(x):
    return [fl(v) for v in np.asarray(x.units_xyz.magnitude, dtype=float)]


# ---------------------------------------------------------------------------------------------
# (a) rounding
# ---------------------------------------------------------------------------------------------
def case_round(ctx, case):
    qs = [fr(q) for q in case['qs']]
    arr = np.array([float(q) for q in qs], dtype=float)
    impl = [int(v) for v in arr.round().astype(int)]
    model = [int(t) for t in ctx.ask('c19.round ' + ';'.join(tok(q) for q in qs)).split(',') if t]
    ctx.corr(impl, model, 'numpy round vs Lean roundHalfEven on dyadic rationals', case)
    for q in qs:
        ctx.count('round_class', 'tie' if (q * 2).denominator == 1 and q.denominator == 2 else ('int' if q.denominator == 1 else 'other'))
    ctx.oracle(all(abs(Fr(i) - q) <= Fr(1, 2) for i, q in zip(impl, qs)), 'round moves a value by more than 1/2', case)


# ---------------------------------------------------------------------------------------------
# (b) voxelisation
# ---------------------------------------------------------------------------------------------
def build_neuron(ntype, P, units, conn=None):
    n = len(P)
    if ntype == 'tree':
        df = pd.DataFrame({'node_id': np.arange(1, n + 1), 'parent_id': [-1] + list(range(1, n)),
                           'x': P[:, 0], 'y': P[:, 1], 'z': P[:, 2], 'radius': 0.01})
        x = navis.TreeNeuron(df, units=units, id=7, name='t')
        if conn:
            C = np.array([[float(fr(c)) for c in p] for p in conn], dtype=float).reshape(-1, 3)
            x.connectors = pd.DataFrame({'connector_id': np.arange(len(C)), 'node_id': [1] * len(C), 'type': ['pre'] * len(C),
                                         'x': C[:, 0], 'y': C[:, 1], 'z': C[:, 2]})
        return x
    if ntype == 'dotprops':
        return navis.Dotprops(P, k=None, vect=np.tile([1.0, 0.0, 0.0], (n, 1)), units=units, id=7, name='d')
    F = np.array([[i, (i + 1) % n, (i + 2) % n] for i in range(max(n - 2, 1))], dtype=int)
    return navis.MeshNeuron({'vertices': P, 'faces': F}, units=units, process=False, id=7, name='m')


def vox_inputs(case):
    pts = [[fr(c) for c in p] for p in case['pts']]
    P = np.array([[float(c) for c in p] for p in pts], dtype=float).reshape(-1, 3)
    return pts, P


def case_vox(ctx, case):
    pts, P = vox_inputs(case)
    x = build_neuron(case['ntype'], P, case['units'], case.get('conn'))
    u = units_xyz_mag(x)
    pitch_model = [fr(c) for c in case['pitch_exact']]          # what the pitch argument means in neuron units
    parg = case['pitch_arg']
    if parg['kind'] == 'scalar':
        pitch = float(fr(parg['v']))
    elif parg['kind'] == 'string':
        pitch = parg['v']
    else:
        pitch = [(c if isinstance(c, str) and ' ' in c else float(fr(c))) for c in parg['v']]
    b = case['bounds']
    if b is None:
        allp = pts + [[fr(c) for c in p] for p in (case.get('conn') or [])]     # x.bbox includes connectors
        lo = [min(p[k] for p in allp) for k in range(3)]
        hi = [max(p[k] for p in allp) for k in range(3)]
        bounds = None
        ctx.count('vox_default_bounds_enlarged_by_connectors', bool(case.get('conn')))
    else:
        lo, hi = [fr(c) for c in b['lo']], [fr(c) for c in b['hi']]
        arr = np.array([[float(l), float(h)] for l, h in zip(lo, hi)])
        if b['layout'] == '2x3':
            arr = arr.T
        bounds = arr if b.get('as', 'array') == 'array' else arr.tolist()
    counts, vectors, alphas = case['counts'], case.get('vectors', False), case.get('alphas', False)
    # unit strings: the harness only relies on navis mapping them to the exact dyadic number of neuron units
    for k_ax, arg in enumerate(pitch if isinstance(pitch, list) else [pitch] * 3):
        try:
            got = fl(x.map_units(arg))
        except Exception as e:
            ctx.oracle(False, f'map_units({arg!r}) raises {type(e).__name__}: {str(e)[:100]}', case)
            return
        if got != pitch_model[k_ax]:
            ctx.count('vox_pitch_string_inexact', str(arg))
            return
        if isinstance(arg, str) and case.get('pitch_phys') and case['pitch_phys'][k_ax]:
            # unit strings: Lean `mapUnits q factor umag` (theorem voxel_size_physical) vs navis' map_units
            q_, f_ = (fr(t) for t in case['pitch_phys'][k_ax])
            mu = ctx.ask(f'c19.mapunits {tok(q_)} {tok(f_)} {tok(u[k_ax])}').split()
            ctx.corr(tok(got), mu[0], f'map_units({arg!r}) == Lean mapUnits(q, factor, umag)', case)
            ctx.count('vox_pitch_string_unit', 'same-unit' if f_ == 1 else 'other-unit')
    ctx.count('vox_ntype', case['ntype']); ctx.count('vox_pitch_kind', parg['kind'])
    ctx.count('vox_bounds', 'default' if b is None else b['cls'] + '/' + b['layout'])
    ctx.count('vox_opts', f"counts={int(counts)} vectors={int(vectors)} alphas={int(alphas)}")
    ctx.count('vox_units', str(case['units']))

    # ---------------- model
    line = 'c19.vox ' + ' | '.join([p3tok(pitch_model), p3tok(lo), p3tok(hi), p3tok(u), ';'.join(p3tok(p) for p in pts)])
    m = kv(ctx.ask(line))
    m_filled = vlist(m['filled'], 3)
    m_counts = vlist(m['counts'], 4)
    m_ix = [tuple(int(t) for t in item.split(',')) for item in m['ix'].split(';') if item]
    ties = sum(1 for p in pts for k in range(3) if ((p[k] / pitch_model[k]) * 2).denominator == 1 and (p[k] / pitch_model[k]).denominator == 2)
    ctx.count('vox_points_with_tie_coordinate', min(ties, 9))
    n_in, n_inb, n = int(m['inside']), int(m['inb']), len(pts)
    clipped = n_in < n
    ctx.count('vox_clipped', clipped)
    ctx.corr(['1', '1'], [m['cover'], m['insideB']], 'Lean checkers on the model\'s own grid (theorem model_passes_checkers)', case)

    # ---------------- implementation
    try:
        v = navis.voxelize(x, pitch=pitch, bounds=bounds, counts=counts, vectors=vectors, alphas=alphas)
    except Exception as e:
        ctx.count('vox_impl_error', type(e).__name__)
        msg = f'{type(e).__name__}: {str(e)[:120]}'
        ctx.oracle(False, f'voxelize(counts={counts}, vectors={vectors}, alphas={alphas}) raises {msg}'
                          + (f'; {n - n_in} point(s) fall outside the grid, the property demands the clipped grid with total {n_in}'
                             if clipped else ''), case)
        return
    grid = np.asarray(v.grid)
    shape = tuple(int(s) for s in grid.shape)
    i_filled = sorted(tuple(int(t) for t in r) for r in np.argwhere(grid != 0))
    off = [fl(c) for c in np.asarray(v.offset, dtype=float)]
    vu = units_xyz_mag(v)
    # ---------------- correspondence
    ctx.corr(list(shape), [int(t) for t in m['shape'].split(',')], 'grid shape', case)
    ctx.corr(p3tok(off), m['off'], 'VoxelNeuron.offset', case)
    ctx.corr(p3tok(vu), m['units'], 'VoxelNeuron.units (magnitudes)', case)
    ctx.corr(i_filled, m_filled, 'filled voxel indices', case)
    if counts:
        i_counts = sorted(t + (int(grid[t]),) for t in i_filled)
        ctx.corr(i_counts, m_counts, 'per-voxel point counts', case)
        ctx.corr(str(grid.dtype.kind), 'i', 'counts grid is integer typed', case)
    else:
        ctx.corr(str(grid.dtype.kind), 'b', 'occupancy grid is boolean', case)
    ctx.corr(unit_name(v), unit_name(x), 'unit name carried over', case)

    # ---------------- oracle 1: Lean checkers on navis' own voxel list
    chk = ctx.ask('c19.check ' + ' | '.join([p3tok(pitch_model), p3tok(lo), p3tok(hi), p3tok(u), ';'.join(p3tok(p) for p in pts),
                                              ';'.join(','.join(map(str, t)) for t in i_filled)]))
    ctx.oracle(chk == 'cover=1 inside=1', f'Lean coversB/insideB reject navis\' grid: {chk}', case)
    # ---------------- oracle 1b: the same clause in the coordinates the VoxelNeuron itself reports (Lean coversAtB / sourcedAtB)
    chk2 = ctx.ask('c19.checkat ' + ' | '.join([p3tok(pitch_model), p3tok(lo), p3tok(hi), p3tok(u), p3tok(off), p3tok(vu),
                                                ';'.join(p3tok(p) for p in pts), ';'.join(','.join(map(str, t)) for t in i_filled)]))
    ctx.oracle(chk2 == 'cover=1 sourced=1',
               f'with the offset {p3tok(off)} / units {p3tok(vu)} the VoxelNeuron reports, Lean coversAtB/sourcedAtB give {chk2}: a point '
               f'inside the bounds is farther than one voxel size from every filled voxel, or a filled voxel has no source point', case)
    if case.get('pitch_phys') and all(case['pitch_phys']) and all(isinstance(a_, str) for a_ in (pitch if isinstance(pitch, list) else [pitch])):
        want = [fr(t[0]) * fr(t[1]) for t in case['pitch_phys']]
        ctx.oracle(vu == want, f'voxel size reported {p3tok(vu)} != requested physical pitch {p3tok(want)} (in {unit_name(x)})', case)
    # ---------------- oracle 2: alignment in the VoxelNeuron's own coordinates
    coords = [[off[k] + t[k] * vu[k] for k in range(3)] for t in i_filled]
    inb = [p for p in pts if all(lo[k] <= p[k] <= hi[k] for k in range(3))]

    def near(p, c):
        return all(abs(u[k] * p[k] - c[k]) <= vu[k] for k in range(3))
    lost = [p for p in inb if not any(near(p, c) for c in coords)]
    ctx.oracle(not lost, f'{len(lost)} point(s) inside the bounds are farther than one voxel size from every filled voxel '
                         f'(offset {p3tok(off)}, units {p3tok(vu)}), e.g. {p3tok(lost[0]) if lost else ""}', case)
    # ---------------- oracle 3: no filled voxel without a source point; extent
    spurious = [t for t, c in zip(i_filled, coords) if not any(near(p, c) for p in pts)]
    ctx.oracle(not spurious, f'filled voxel(s) {spurious[:4]} have no input point within one voxel size', case)
    outside = [t for t, c in zip(i_filled, coords)
               if not all(u[k] * lo[k] <= c[k] < u[k] * (hi[k] + 2 * pitch_model[k]) for k in range(3))]
    ctx.oracle(not outside, f'filled voxel(s) {outside[:4]} lie outside the requested bounds [lo, hi + 2 pitch)', case)
    # ---------------- oracle 4: counts conserved
    if counts:
        tot = int(grid.sum())
        ctx.oracle(tot == n_in, f'counts=True: grid total {tot} != {n_in} points whose voxel lies inside the grid ({n} points)', case)
        ctx.oracle(len(inb) <= tot <= n, f'counts=True: grid total {tot} not between #points inside bounds {len(inb)} and #points {n}', case)
        if len(inb) == n:
            ctx.oracle(tot == n, f'counts=True with all points inside the bounds: total {tot} != {n}', case)
    ctx.corr(len(inb), n_inb, 'number of points inside the bounds (python vs Lean inBounds)', case)
    # ---------------- oracle 5: vector field
    if vectors:
        vec = getattr(v, 'vectors', None)
        if vec is None or tuple(vec.shape) != shape + (3,):
            ctx.oracle(False, f'vectors=True: no vector field of shape {shape + (3,)}', case)
        else:
            nz = sorted(tuple(int(t) for t in r) for r in np.argwhere(np.abs(vec).sum(axis=3) > 0))
            ctx.corr(nz, vlist(m['vcells'], 3), 'voxels that received a vector (model vectorCells)', case)
            ctx.oracle(nz == i_filled, f'vectors=True: vectors sit in voxels {[t for t in nz if t not in i_filled][:4]} that are not filled '
                                       f'(e.g. index wrap-around of a point outside the bounds) / filled voxels without vector '
                                       f'{[t for t in i_filled if t not in nz][:4]}', case)
            norms = [float(np.linalg.norm(vec[t])) for t in i_filled]
            ctx.oracle(all(abs(nn - 1) < 1e-5 for nn in norms), 'vectors=True: vector of a filled voxel is not a unit vector', case)
            # principal axis / alpha of the points of every voxel, judged by Lean on the exact scatter matrix (float32 fields)
            a_arr = getattr(v, 'alphas', None) if alphas else None
            a_ok = isinstance(a_arr, np.ndarray) and tuple(a_arr.shape) == shape
            if i_filled:
                cells = ';'.join(','.join(map(str, t)) + ',' + ','.join(tok(fl(c)) for c in vec[t]) + ','
                                 + (tok(fl(a_arr[t])) if a_ok else 'x') for t in i_filled)
                if not a_ok:
                    cells = cells.replace(',x', ',0')
                out = kv(ctx.ask('c19.voxvec ' + ' | '.join([p3tok(pitch_model), p3tok(lo), p3tok(hi), p3tok(u), ';'.join(p3tok(p) for p in pts),
                                                              cells, '1/65536 1/4096 1/4096'])))
                verd = out['v'].split(';')
                for w in verd:
                    ctx.count('voxvec_verdict', w if a_ok or not w.startswith('bad-alpha') else 'axis-only')
                bad = [(t, w) for t, w in zip(i_filled, verd) if w in ('bad-unit', 'bad-axis') or (a_ok and w.startswith('bad-alpha'))]
                ctx.oracle(not bad, f'vectors/alphas: Lean judge rejects the vector / alpha of voxel(s) {bad[:3]} against the exact scatter '
                                    f'matrix of the points in that voxel', case)
    if alphas:
        a = getattr(v, 'alphas', None)
        if not isinstance(a, np.ndarray) or tuple(a.shape) != shape:
            ctx.oracle(False, f'alphas=True: `.alphas` is not a grid of shape {shape} (got {type(a).__name__} '
                              f'{getattr(a, "shape", None)})', case)
        else:
            anz = sorted(tuple(int(t) for t in r) for r in np.argwhere(a != 0))
            ctx.oracle(all(t in i_filled for t in anz), f'alphas=True: alpha values in voxels {[t for t in anz if t not in i_filled][:4]} '
                                                        f'that are not filled', case)
            ctx.oracle(bool(np.all(np.isfinite(a)) and np.all(a >= 0) and np.all(a <= 1 + 1e-6)), 'alphas=True: alpha outside [0, 1] / not finite', case)


# ---------------------------------------------------------------------------------------------
# (c) skeleton -> tangents
# ---------------------------------------------------------------------------------------------
def case_tan(ctx, case):
    rows = case['rows']
    df = pd.DataFrame({'node_id': np.array([r['id'] for r in rows], dtype=np.int64),
                       'parent_id': np.array([r['parent'] for r in rows], dtype=np.int64),
                       'x': [float(fr(r['x'])) for r in rows], 'y': [float(fr(r['y'])) for r in rows],
                       'z': [float(fr(r['z'])) for r in rows], 'radius': 0.01})
    x = navis.TreeNeuron(df, units=case.get('units'), id=5, name='s')
    pos = {r['id']: [fr(r['x']), fr(r['y']), fr(r['z'])] for r in rows}
    edges = [(pos[r['id']], pos[r['parent']]) for r in rows if r['parent'] >= 0]
    nondeg = [(c, q) for c, q in edges if c != q]
    ctx.count('tan_edges', min(len(edges), 30) // 5 * 5)
    ctx.count('tan_zero_length_edges', min(len(edges) - len(nondeg), 5))
    try:
        dp = navis.make_dotprops(x, k=case['k'])
    except Exception as e:
        ctx.oracle(False, f'make_dotprops(skeleton, k={case["k"]}) raises {type(e).__name__}: {str(e)[:120]}', case)
        return
    if case.get('resample') and edges:
        # `resample=` glue: the skeleton is resampled first (C13 covers the resampling itself), the tangents are those of the result
        rs = float(fr(case['resample']))
        try:
            x2 = x.resample(rs, inplace=False)
            want = navis.make_dotprops(x2, k=case['k'])
            got = navis.make_dotprops(x, k=case['k'], resample=rs)
            ctx.count('tan_resample', 'ok')
            ctx.oracle(np.array_equal(np.asarray(got.points), np.asarray(want.points)) and np.array_equal(np.asarray(got.vect), np.asarray(want.vect))
                       and np.array_equal(np.asarray(got.length), np.asarray(want.length)) and got.k is None,
                       f'make_dotprops(skeleton, k={case["k"]}, resample={rs}) differs from make_dotprops(resampled skeleton)', case)
            ctx.oracle(x.n_nodes == len(rows), 'make_dotprops(resample=...) modified its input', case)
        except Exception as e:
            ctx.count('tan_resample', f'raises {type(e).__name__}')
    nd = x.nodes
    line = 'c19.tan ' + ';'.join(f'{int(i)},{int(p)},{tok(fl(a))},{tok(fl(b))},{tok(fl(c))}' for i, p, a, b, c in
                                 zip(nd.node_id.values, nd.parent_id.values, nd.x.values, nd.y.values, nd.z.values))
    out = ctx.ask(line)
    model = [[Fr(t) for t in item.split(',')] for item in out.split(';') if item]
    pts_i = [[fl(c) for c in p] for p in np.asarray(dp.points, dtype=float)]
    vect = np.asarray(dp.vect, dtype=float)
    length = np.asarray(dp.length, dtype=float)
    ctx.corr(len(pts_i), len(model), 'number of tangents', case)
    ctx.corr([p3tok(p) for p in pts_i], [p3tok(t[0:3]) for t in model], 'dotprop points == model midpoints (row order)', case)
    ctx.corr([dp.k, unit_name(dp)], [None, unit_name(x)], 'k is None and units carried over', case)
    ok_dir, ok_len = True, True
    if len(pts_i) == len(model) == len(vect) == len(length):
        for v, L, t in zip(vect, length, model):
            w = [float(c) for c in t[3:6]]
            wn = math.sqrt(float(t[6]))
            cr = np.cross(v, w)
            if not np.abs(cr).max() <= 1e-12 * wn:
                ok_dir = False
            ctx.count('tan_orientation', 'child-parent (parent→child)' if float(np.dot(v, w)) > 0 else 'parent-child (child→parent)')
            if not abs(L * L - float(t[6])) <= 1e-12 * float(t[6]):
                ok_len = False
    else:
        ok_dir = ok_len = False
    if len(pts_i) == len(model) == len(vect) == len(length):
        tc = kv(ctx.ask('c19.tancheck 1/1099511627776 | ' + line[len('c19.tan '):] + ' | '
                        + ';'.join(','.join(tok(fl(c)) for c in v_) + ',' + tok(fl(L_)) for v_, L_ in zip(vect, length))))
        oks = [t for t in tc.get('ok', '').split(',') if t]
        ctx.oracle(len(oks) == len(model) and all(t == '1' for t in oks),
                   f'Lean tanOKB rejects navis\' normalised vector / length for tangent(s) {[i for i, t in enumerate(oks) if t != "1"][:4]} '
                   f'(unit length, parallel to child − parent, length² == |child − parent|²)', case)
        for sg in tc.get('sign', '').split(','):
            if sg:
                ctx.count('tan_sign_lean', sg)
    ctx.corr(ok_dir, True, 'vect parallel to the model vector child − parent (cross = 0; the sign is not an observable)', case)
    ctx.corr(ok_len, True, 'length² == exact squared edge length', case)
    # ---------------- oracles (definition computed directly from the table)
    ctx.oracle(len(pts_i) == len(nondeg) == len(vect) == len(length),
               f'{len(pts_i)} tangents / {len(vect)} vectors / {len(length)} lengths for {len(nondeg)} non-degenerate edges '
               f'({len(edges) - len(nondeg)} zero-length)', case)
    want_mid = sorted(p3tok([(c[k] + q[k]) / 2 for k in range(3)]) for c, q in nondeg)
    ctx.oracle(sorted(p3tok(p) for p in pts_i) == want_mid, 'dotprop points are not the midpoints of the non-degenerate edges', case)
    if len(vect):
        ctx.oracle(bool(np.all(np.abs(np.linalg.norm(vect, axis=1) - 1) <= 1e-12)), 'tangent vectors are not unit vectors', case)
        ctx.oracle(bool(np.all(np.isfinite(vect)) and np.all(length > 0)), 'non-finite tangent or non-positive length', case)
    if len(pts_i) == len(nondeg) and [p3tok(p) for p in pts_i] == [p3tok([(c[k] + q[k]) / 2 for k in range(3)]) for c, q in nondeg]:
        par, lens = True, True
        for v, L, (c, q) in zip(vect, length, nondeg):
            d = np.array([float(q[k] - c[k]) for k in range(3)])         # child -> parent
            dn = math.sqrt(float(sum((q[k] - c[k]) ** 2 for k in range(3))))
            if np.abs(np.cross(v, d)).max() > 1e-12 * dn:
                par = False
            if abs(L - dn) > 1e-12 * dn:
                lens = False
        ctx.oracle(par, 'tangent not parallel to its edge', case)
        ctx.oracle(lens, 'length is not the Euclidean child-parent distance', case)


# ---------------------------------------------------------------------------------------------
# (d) point cloud -> dotprops
# ---------------------------------------------------------------------------------------------
def jacobi_eigs(Cf):
    """Eigenvalues (descending) of a symmetric 3x3 float matrix by cyclic Jacobi rotations (independent of LAPACK)."""
    A = [list(map(float, r)) for r in Cf]
    for _ in range(60):
        off = abs(A[0][1]) + abs(A[0][2]) + abs(A[1][2])
        if off <= 1e-300 or off <= 1e-18 * (abs(A[0][0]) + abs(A[1][1]) + abs(A[2][2])):
            break
        for p_, q_ in ((0, 1), (0, 2), (1, 2)):
            if A[p_][q_] == 0.0:
                continue
            theta = (A[q_][q_] - A[p_][p_]) / (2 * A[p_][q_])
            t = (1.0 if theta >= 0 else -1.0) / (abs(theta) + math.sqrt(theta * theta + 1))
            c = 1 / math.sqrt(t * t + 1)
            sn = t * c
            for k_ in range(3):          # A <- A J
                akp, akq = A[k_][p_], A[k_][q_]
                A[k_][p_], A[k_][q_] = c * akp - sn * akq, sn * akp + c * akq
            for k_ in range(3):          # A <- J^T A
                apk, aqk = A[p_][k_], A[q_][k_]
                A[p_][k_], A[q_][k_] = c * apk - sn * aqk, sn * apk + c * aqk
    return sorted((A[0][0], A[1][1], A[2][2]), reverse=True)


def exact_inertia(nb):
    n = len(nb)
    mean = [sum(p[k] for p in nb) / n for k in range(3)]
    cp = [[p[k] - mean[k] for k in range(3)] for p in nb]
    return [[sum(c[a] * c[b] for c in cp) for b in range(3)] for a in range(3)]


def exact_knn(pts, i, k):
    """indices of the k nearest neighbours of point i (self included); None if the k-th / (k+1)-th distances tie
    (the neighbour set is then the KD-tree's free choice)."""
    d = sorted((sum((pts[i][a] - q[a]) ** 2 for a in range(3)), j) for j, q in enumerate(pts))
    if k < len(d) and d[k - 1][0] == d[k][0]:
        # a tie across the boundary is harmless only when the tied points coincide (same inertia either way)
        tied = [j for dist, j in d if dist == d[k][0]]
        if len({tuple(pts[j]) for j in tied}) > 1:
            return None
    return [j for _, j in d[:k]]


def make_dots_input(case, finite):
    P = np.array([[float(c) for c in p] for p in finite], dtype=float).reshape(-1, 3)
    cont = case['container']
    if cont in ('ndarray', 'DataFrame'):
        rows = []
        for p in case['pts']:
            rows.append([np.nan if c == 'nan' else (np.inf if c == 'inf' else (-np.inf if c == '-inf' else float(fr(c)))) for c in p])
        A = np.array(rows, dtype=float).reshape(-1, 3)
        if cont == 'DataFrame':
            return pd.DataFrame({'z': A[:, 2], 'x': A[:, 0], 'extra': 1, 'y': A[:, 1]})
        return A
    return build_neuron({'tree': 'tree', 'mesh': 'mesh', 'dotprops': 'dotprops'}[cont], P, case.get('units'))


def check_tangents(ctx, case, pts, k_used, vect, alpha, what):
    """Property oracle for (points, vect, alpha) against the exact neighbourhoods."""
    n = len(pts)
    bad_axis, bad_alpha, bad_range, nan_alpha, checked, degenerate, ambiguous = [], [], [], [], 0, 0, 0
    ana = case.get('analytic')
    def analytic_check(i, v, a, with_alpha=True):
        if ana['kind'] == 'axis':
            d = np.array(ana['d'], dtype=float)
            if np.abs(np.cross(v, d)).max() > 1e-8 * np.linalg.norm(d):
                bad_axis.append((i, 'analytic axis', ana['d']))
            if with_alpha and 'alpha' in ana and abs(a - float(fr(ana['alpha']))) > 1e-8:
                bad_alpha.append((i, a, ana['alpha']))
        elif ana['kind'] == 'normal':
            nv = np.array(ana['n'], dtype=float)
            if abs(float(np.dot(v, nv))) > 1e-8 * np.linalg.norm(nv):
                bad_axis.append((i, 'not in plane', ana['n']))

    for i in range(n):
        nb = exact_knn(pts, i, k_used)
        if nb is None:
            ambiguous += 1
            if ana and ana.get('any_k') and k_used >= 2:
                # collinear: every neighbourhood of >= 2 distinct points has the line as axis and alpha = 1;
                # planar: every neighbourhood lies in the plane (axis in the plane unless the neighbourhood is degenerate)
                a = float(alpha[i])
                if ana['kind'] == 'axis':
                    analytic_check(i, vect[i], a)
                    if not (0 <= a <= 1 + 1e-12):
                        bad_range.append((i, a))
            continue
        C = exact_inertia([pts[j] for j in nb])
        trf = float(C[0][0] + C[1][1] + C[2][2])
        a = float(alpha[i])
        if trf == 0:
            degenerate += 1
            if not (0 <= a <= 1):
                nan_alpha.append(i)
            elif a != 0:
                bad_alpha.append((i, a, 0.0))
            continue
        Cf = np.array([[float(c) for c in r] for r in C])
        v = vect[i]
        lam = float(v @ Cf @ v) / float(v @ v)
        res = float(np.linalg.norm(Cf @ v - lam * v)) / trf
        e1, e2, e3 = jacobi_eigs(Cf)
        gap = (e1 - e2) / trf
        if not (a == a) or a < -1e-12 or a > 1 + 1e-12:
            bad_range.append((i, a))
        if res > 1e-8 or lam < e1 - 1e-8 * trf:
            bad_axis.append((i, res, gap))
        elif abs(a - (e1 - e2) / (e1 + e2 + e3)) > 1e-8:
            bad_alpha.append((i, a, (e1 - e2) / (e1 + e2 + e3)))
        checked += 1
        if ana and gap > 1e-6:
            analytic_check(i, v, a)
    ctx.count('dots_points_checked', min(checked, 40) // 5 * 5)
    ctx.count('dots_points_ambiguous_knn', min(ambiguous, 5))
    ctx.count('dots_points_degenerate', min(degenerate, 5))
    ctx.oracle(not bad_axis, f'{what}: tangent is not the principal axis of the k nearest neighbours (point, residual/tr, gap/tr): {bad_axis[:3]}', case)
    ctx.oracle(not bad_alpha, f'{what}: alpha != (l1-l2)/(l1+l2+l3) of the exact inertia matrix (point, got, want): {bad_alpha[:3]}', case)
    ctx.oracle(not bad_range, f'{what}: alpha outside [0, 1] for a non-degenerate neighbourhood: {bad_range[:3]}', case)
    ctx.oracle(not nan_alpha, f'{what}: alpha is NaN / outside [0, 1] for {len(nan_alpha)} point(s) whose k nearest neighbours all '
                              f'coincide (0/0; the property demands alpha in [0, 1])', case)
    if len(vect):
        ctx.oracle(bool(np.all(np.abs(np.linalg.norm(vect, axis=1) - 1) <= 1e-12)), f'{what}: tangents are not unit vectors', case)
    # Lean alpha on exact singular values for analytic clouds
    if ana and 'svals' in ana:
        s = [fr(t) for t in ana['svals']]
        out = ctx.ask(f'c19.alpha {tok(s[0])} {tok(s[1])} {tok(s[2])}')
        if len(alpha):
            ctx.corr(all(abs(float(a) - float(Fr(out))) <= 1e-8 for a in alpha), True,
                     f'alpha == Lean alpha({ana["svals"]}) = {out}', case)


EPS_U, EPS_V, EPS_A = '1/1099511627776', '1/67108864', '1/1073741824'      # 2^-40, 2^-26, 2^-30


def lean_judge(ctx, case, pts, k_req, k_used, vect, alpha, what):
    """The property for (points, vect, alpha) decided by the Lean model: exact kNN (ties flagged), centroid, scatter matrix, `judge`."""
    if not len(pts):
        return
    if not (np.all(np.isfinite(vect)) and np.all(np.isfinite(alpha))):
        ctx.oracle(False, f'{what}: non-finite tangent / alpha', case)
        return
    line = (f'c19.dots {k_req} {EPS_U} {EPS_V} {EPS_A} | ' + ';'.join(p3tok(p) for p in pts) + ' | '
            + ';'.join(','.join(tok(fl(c)) for c in v) for v in vect) + ' | ' + ';'.join(tok(fl(a)) for a in alpha))
    out = kv(ctx.ask(line))
    ctx.corr(int(out['k']), int(k_used), f'{what}: k used == Lean kClip(n, k)', case)
    verd = out['v'].split(';')
    for w in verd:
        ctx.count('dots_lean_verdict', w)
    bad = [(i, w) for i, w in enumerate(verd) if w.startswith('bad')]
    ctx.oracle(not bad, f'{what}: Lean judge (exact k nearest neighbours, centroid, scatter matrix; unit tangent / principal axis / alpha '
                        f'from the characteristic polynomial) rejects point(s) {bad[:4]}', case)


def case_dots(ctx, case):
    raw = case['pts']
    has_inf = any(c in ('inf', '-inf') for p in raw for c in p)
    finite_rows = [p for p in raw if not any(c in ('nan', 'inf', '-inf') for c in p)]
    nonnan_rows = [p for p in raw if 'nan' not in p]
    pts = [[fr(c) for c in p] for p in finite_rows]
    k = case['k']
    ctx.count('dots_kind', case['cloud']); ctx.count('dots_container', case['container'])
    ctx.count('dots_k_vs_n', 'k>n' if k > len(pts) else ('k=n' if k == len(pts) else 'k<n'))
    ctx.count('dots_nan_rows', min(len(raw) - len(nonnan_rows), 3)); ctx.count('dots_inf_rows', min(len(nonnan_rows) - len(finite_rows), 3))
    x = make_dots_input(case, pts)
    try:
        dp = navis.make_dotprops(x, k=k)
    except Exception as e:
        msg = f'{type(e).__name__}: {str(e)[:120]}'
        ctx.oracle(False, f'make_dotprops(k={k}) raises {msg}' + ('; the cloud has a row with an infinite coordinate, the property '
                          f'demands one tangent per finite point ({len(pts)} here)' if has_inf else ''), case)
        return
    kc = int(ctx.ask(f'c19.kclip {len(pts)} {k}'))
    ctx.corr(int(dp.k), kc, 'Dotprops.k == min(n_finite_points, k)', case)
    ctx.oracle(int(dp.k) <= len(pts) and int(dp.k) <= k, f'k used ({dp.k}) exceeds the number of points ({len(pts)}) or the requested k ({k})', case)
    P = np.asarray(dp.points, dtype=float)
    ctx.oracle(len(P) == len(pts) and [p3tok([fl(c) for c in p]) for p in P] == [p3tok(p) for p in pts],
               f'{len(P)} dotprop points for {len(pts)} finite input rows (or points differ from the finite rows)', case)
    vect = np.asarray(dp.vect, dtype=float)
    alpha = np.asarray(dp.alpha, dtype=float)
    ctx.oracle(len(vect) == len(pts) == len(alpha), f'{len(vect)} tangents / {len(alpha)} alphas for {len(pts)} finite points', case)
    if len(P) != len(pts) or len(vect) != len(pts) or len(alpha) != len(pts):
        return
    check_tangents(ctx, case, pts, int(dp.k), vect, alpha, f'make_dotprops(k={k})')
    lean_judge(ctx, case, pts, k, int(dp.k), vect, alpha, f'make_dotprops(k={k})')
    # recalculate_tangents on the result (raises when k > n by design)
    k2 = case.get('k2')
    if k2:
        try:
            dp2 = dp.recalculate_tangents(k2, inplace=False)
        except ValueError as e:
            ctx.oracle(k2 > len(pts), f'recalculate_tangents({k2}) raises although {len(pts)} points exist: {str(e)[:100]}', case)
            return
        ctx.oracle(k2 <= len(pts) and dp2.k == k2, f'recalculate_tangents({k2}) on {len(pts)} points did not raise / k={dp2.k}', case)
        if k2 <= len(pts):
            c2 = dict(case)
            if not (case.get('analytic') and case['analytic'].get('any_k')):
                c2.pop('analytic', None)
            check_tangents(ctx, c2, pts, k2, np.asarray(dp2.vect, dtype=float), np.asarray(dp2.alpha, dtype=float),
                           f'recalculate_tangents({k2})')
            lean_judge(ctx, c2, pts, k2, k2, np.asarray(dp2.vect, dtype=float), np.asarray(dp2.alpha, dtype=float),
                       f'recalculate_tangents({k2})')


# ---------------------------------------------------------------------------------------------
# oracle-only tests: meshes
# ---------------------------------------------------------------------------------------------
def tree_from_rows(rows, radii, units=None):
    df = G.rows_to_df(rows)
    df['radius'] = np.array([np.nan if x is None else x for x in radii], dtype=float)
    return navis.TreeNeuron(df, units=units, id=9, name='tube')


def case_tube(ctx, case):
    rows = case['rows']
    x = tree_from_rows(rows, case['radii'])
    kw = dict(tube_points=case['tube_points'], use_normals=case['use_normals'], warn_missing_radii=False)
    try:
        m = navis.mesh(x, **kw) if case['via'] == 'mesh' else navis.conversion.tree2meshneuron(x, **kw)
    except Exception as e:
        ctx.oracle(False, f'navis.mesh(skeleton) raises {type(e).__name__}: {str(e)[:120]}', case)
        return
    V = np.asarray(m.vertices, dtype=float)
    vm = np.asarray(m.vertex_map)
    P = x.nodes[['x', 'y', 'z']].values.astype(float)
    R = np.nan_to_num(x.nodes.radius.values.astype(float), nan=0.0)
    ctx.count('tube_zero_or_missing_radius', bool((R <= 0).any()))
    scale = 1 + np.abs(P).max()
    has_child = {r_['parent'] for r_ in rows}
    iso = [i for i, r_ in enumerate(rows) if r_['parent'] < 0 and r_['id'] not in has_child]
    ctx.count('tube_isolated_nodes', min(len(iso), 3))
    ctx.oracle(len(vm) == len(V) and (len(V) == 0 or (vm.min() >= 0 and vm.max() < len(P))),
               f'vertex_map ({len(vm)} entries) does not map every one of the {len(V)} vertices to a node index', case)
    # exact sub-claims decided by Lean (theorem mesh_checkers_sound): every vertex mapped to a node index in range; every node —
    # single-node fragments included, they are meshed as a sphere of the node's radius — occurs in the map and lies in the (tight)
    # bounding box of the vertices
    need = list(range(len(P)))
    lv = ctx.ask(f'c19.vmapidx {len(V)} {len(P)} | ' + ','.join(str(int(i)) for i in vm) + ' | ' + ','.join(map(str, need)))
    ctx.oracle(lv == 'ok=1 covers=1', f'Lean vmapIndexOKB / vmapCoversB on the tube mesh: {lv} ({len(V)} vertices, {len(vm)} map entries, '
                                      f'{len(P)} nodes, {len(iso)} of them single-node fragments)', case,
               signature=SIG_ISO if (iso and lv == 'ok=1 covers=0' and all((vm == i).any() for i in need if i not in iso)) else None)
    if len(V):
        lb = ctx.ask('c19.bbox 1/1048576 | ' + ';'.join(p3tok([fl(c) for c in q]) for q in V) + ' | '
                     + ';'.join(p3tok([fl(c) for c in P[i]]) for i in need))
        ctx.oracle(lb == 'ok=1', 'Lean bboxContainsB: a node lies outside the bounding box of the tube mesh', case)
    if len(vm) != len(V):
        return
    if iso:
        ctx.oracle(all((vm == i).any() for i in iso), f'single-node fragment(s) (node index {iso[:4]}) get no geometry: the mesh does '
                                                      f'not contain these nodes', case, signature=SIG_ISO)
    if len(V) == 0:
        ctx.oracle(len(P) == 0, 'empty tube mesh for a non-empty skeleton', case)
        return
    tp = case['tube_points']
    missing, off_centre, off_sphere = [], [], []
    for i in range(len(P)):
        ring = V[vm == i]
        if len(ring) == 0:
            if i not in iso:
                missing.append(i)
            continue
        if i in iso:
            # a closed sphere around the node: centred on it, every vertex at the node's radius
            c = ring.mean(axis=0)
            dist = np.linalg.norm(ring - P[i], axis=1)
            if np.abs(c - P[i]).max() > 1e-9 * scale or np.abs(dist - abs(R[i])).max() > 1e-9 * scale:
                off_sphere.append((i, float(np.abs(c - P[i]).max()), float(dist.min()), float(dist.max()), float(R[i])))
            continue
        for j in range(0, len(ring), tp):
            c = ring[j:j + tp].mean(axis=0)
            if np.abs(c - P[i]).max() > 1e-9 * scale:
                off_centre.append((i, float(np.abs(c - P[i]).max())))
    ctx.oracle(not missing, f'nodes {missing[:5]} have no tube cross-section', case)
    ctx.oracle(not off_centre, f'tube cross-sections not centred on their node (node index, deviation): {off_centre[:3]}', case)
    ctx.oracle(not off_sphere, f'geometry of a single-node fragment is not a sphere of the node\'s radius around the node '
                               f'(node index, centre deviation, min / max vertex distance, radius): {off_sphere[:3]}', case)
    if tm is not None and len(m.faces):
        try:
            d = tm.proximity.closest_point(m.trimesh, P)[1]
            far = [(i, float(d[i]), float(R[i])) for i in range(len(P)) if d[i] > 2 * R.max() + 1e-9 * scale]
            ctx.oracle(not far, f'surface farther than twice the largest radius from a node (node index, distance, radius): {far[:3]}', case)
        except Exception as e:     # proximity query needs rtree
            ctx.count('tube_proximity_unavailable', type(e).__name__)
    bb = np.array([V.min(axis=0), V.max(axis=0)])
    ctx.oracle(bool(np.all(P >= bb[0] - 1e-9 * scale) and np.all(P <= bb[1] + 1e-9 * scale)), 'a node lies outside the bounding box of the tube mesh', case)
    ctx.oracle(unit_name(m) == unit_name(x), 'units not carried over to the mesh', case)


def make_voxelneuron(ctx, case):
    """VoxelNeuron for the surface tests: either navis.voxelize of a point cloud (default or explicit enclosing bounds) or a grid
    built directly (boxes of filled voxels away from index 0, per-axis units, non-zero offset)."""
    if case.get('src', 'points') == 'grid':
        grid = np.zeros(tuple(case['shape']), dtype=bool)
        for (a, b) in case['boxes']:
            grid[a[0]:b[0], a[1]:b[1], a[2]:b[2]] = True
        if case.get('counts'):
            grid = grid.astype(int) * 3
        return navis.VoxelNeuron(grid, units=case['vunits'], offset=[float(fr(c)) for c in case['offset']], id=4, name='blob')
    pts, P = vox_inputs(case)
    x = build_neuron('tree', P, case['units'])
    pitch = [float(fr(c)) for c in case['pitch']]
    b = case.get('bounds')
    bounds = None if b is None else np.array([[float(fr(l)), float(fr(h))] for l, h in zip(b['lo'], b['hi'])])
    return navis.voxelize(x, pitch=pitch, counts=case['counts'], bounds=bounds)


def case_vmesh(ctx, case):
    try:
        v = make_voxelneuron(ctx, case)
    except Exception as e:
        ctx.oracle(False, f'building the VoxelNeuron raises {type(e).__name__}: {str(e)[:120]}', case)
        return
    kw = {}
    for k_ in ('chunk_size', 'pad_chunks', 'merge_fragments'):
        if k_ in case and case[k_] is not None:
            kw[k_] = case[k_]
    chunked = bool(kw.get('chunk_size')) and kw.get('chunk_size') != 'auto'
    ctx.count('vmesh_path', ('chunked' if chunked else 'single') + ('/pad_chunks=False' if kw.get('pad_chunks') is False else ''))
    ctx.count('vmesh_src', case.get('src', 'points') + ('/bounds' if case.get('bounds') else ''))
    try:
        m = navis.mesh(v, progress=False, **kw) if case['via'] == 'mesh' else navis.conversion.voxels2mesh(v, progress=False, **kw)
    except Exception as e:
        if chunked and case.get('src', 'points') == 'points' and isinstance(e, ValueError) and 'at least one array' in str(e):
            # the chunked path skips chunks with a single voxel / flat chunks; a sparse grid can leave nothing to mesh
            ctx.count('vmesh_chunked_nothing_to_mesh', True)
            return
        if chunked and kw.get('pad_chunks') is False and isinstance(e, ValueError) and 'Surface level must be within volume data range' in str(e):
            # non-default pad_chunks=False: a chunk that is completely filled (interior of a blob) is handed to marching cubes without
            # padding and skimage refuses it; no surface is produced, so the clause has nothing to say (recorded in the notes)
            ctx.count('vmesh_chunked_unpadded_full_chunk_raises', True)
            return
        ctx.oracle(False, f'navis.mesh(VoxelNeuron, {kw}) raises {type(e).__name__}: {str(e)[:120]}', case)
        return
    V = np.asarray(m.vertices, dtype=float)
    off = np.asarray(v.offset, dtype=float)
    un = np.asarray(v.units_xyz.magnitude, dtype=float)
    vox = np.asarray(v.voxels, dtype=float)
    ctx.count('vmesh_voxels', min(len(vox), 60) // 10 * 10)
    ctx.count('vmesh_first_filled_index>0', bool(len(vox) and vox.min(axis=0).max() > 0))
    ctx.count('vmesh_units', 'unit' if np.all(un == 1) else ('iso' if np.all(un == un[0]) else 'per-axis'))
    if len(V) == 0:
        ctx.oracle(len(vox) <= 1, 'marching cubes returned an empty surface for a non-empty grid', case)
        return
    coords = off + vox * un
    eps = 1e-6 * (1 + np.abs(coords).max())
    lo_ext = off - un / 2 - eps
    hi_ext = off + (np.array(v.shape) - 1) * un + un / 2 + eps
    ctx.oracle(bool(np.all(V >= lo_ext) and np.all(V <= hi_ext)),
               f'surface vertices [{V.min(axis=0)}, {V.max(axis=0)}] leave the grid extent [{lo_ext}, {hi_ext}] (offset {off}, shape {v.shape}, units {un})', case)
    d = np.abs(V[:, None, :] - coords[None, :, :]) / un[None, None, :]
    cheb = d.max(axis=2).min(axis=1)
    ctx.oracle(bool(cheb.max() <= 0.5 + 1e-6), f'a surface vertex is {cheb.max():.3f} voxels (Chebyshev) from the nearest filled voxel (> 0.5)', case)
    # the same two clauses decided by Lean on the exact dyadic coordinates (theorems surface_fast_sound, hugging_surface_stays_in_extent)
    if len(V) <= 6000:
        ls = ctx.ask('c19.surf 1/1024 | ' + p3tok([fl(c) for c in off]) + ' | ' + p3tok([fl(c) for c in un]) + ' | '
                     + ','.join(str(int(t)) for t in v.shape) + ' | ' + ';'.join(p3tok([fl(c) for c in q]) for q in V) + ' | '
                     + ';'.join(','.join(str(int(t)) for t in q) for q in vox))
        ctx.oracle(ls == 'hugs=1 extent=1', f'Lean surfaceHugsB / surfaceInExtentB on the surface in the grid\'s coordinates '
                                            f'(offset {off}, units {un}, shape {v.shape}): {ls}', case)
    if not chunked:
        bb = np.array([V.min(axis=0), V.max(axis=0)])
        ctx.oracle(bool(np.all(coords >= bb[0] - eps) and np.all(coords <= bb[1] + eps)), 'a filled voxel centre lies outside the bounding box of the surface', case)
    ctx.oracle(str(m.units.units) == str(v.units.units) if hasattr(m, 'units') else True, 'unit name not carried over to the surface', case)


def case_skel(ctx, case):
    if tm is None or not HAVE_SKELETOR:
        ctx.count('skel_skipped', 'missing dependency')
        return
    src = case['src']
    if src['kind'] == 'tube':
        x = tree_from_rows(src['rows'], src['radii'])
        mesh = navis.mesh(x, tube_points=8, warn_missing_radii=False)
    else:
        if src['kind'] == 'cylinder':
            t = tm.creation.cylinder(radius=src['r'], height=src['h'], sections=src['sections'])
        elif src['kind'] == 'two':
            a = tm.creation.cylinder(radius=src['r'], height=src['h'], sections=src['sections'])
            b = tm.creation.cylinder(radius=src['r'], height=src['h'], sections=src['sections'])
            b.apply_translation(src['gap'])
            t = tm.util.concatenate([a, b])
        elif src['kind'] == 'capsule':
            t = tm.creation.capsule(radius=src['r'], height=src['h'], count=[8, 8])
        else:
            t = tm.creation.box(extents=src['extents'])
            for _ in range(src.get('subdivide', 1)):
                t = t.subdivide()
        t.apply_translation(src.get('shift', [0, 0, 0]))
        mesh = navis.MeshNeuron(t, units=case.get('units'), id=3, name='prim') if case['wrap'] else t
    kw = {}
    if case['method'] == 'teasar':
        kw = dict(method='teasar', inv_dist=case['inv_dist'])
    for opt in ('shave', 'heal'):
        if case.get(opt) is not None:
            kw[opt] = case[opt]
    ctx.count('skel_options', f"shave={case.get('shave')} heal={case.get('heal')}")
    try:
        s = navis.skeletonize(mesh, **kw) if case['via'] == 'skeletonize' else navis.conversion.mesh2skeleton(mesh, **kw)
    except Exception as e:
        ctx.oracle(False, f'navis.skeletonize(mesh, {kw}) raises {type(e).__name__}: {str(e)[:120]}', case)
        return
    V = np.asarray(mesh.vertices, dtype=float)
    nodes = s.nodes[['x', 'y', 'z']].values.astype(float)
    ids = set(int(i) for i in s.nodes.node_id.values)
    ctx.count('skel_nodes', min(len(nodes), 50) // 10 * 10)
    ctx.count('skel_source', src['kind'] + '/' + case['method'])
    ctx.count('skel_roots', min(int((s.nodes.parent_id.values < 0).sum()), 3))
    ctx.oracle(len(nodes) > 0, 'skeleton has no nodes', case)
    tol = 1e-6 * (1 + np.abs(V).max())
    ctx.oracle(bool(np.all(nodes >= V.min(axis=0) - tol) and np.all(nodes <= V.max(axis=0) + tol)),
               f'skeleton nodes [{nodes.min(axis=0)}, {nodes.max(axis=0)}] leave the mesh bounding box [{V.min(axis=0)}, {V.max(axis=0)}]', case)
    vm = getattr(s, 'vertex_map', None)
    ctx.oracle(vm is not None and len(vm) == len(V), f'vertex_map has {None if vm is None else len(vm)} entries for {len(V)} mesh vertices', case)
    if vm is not None:
        bad = [int(i) for i in np.asarray(vm) if int(i) not in ids]
        ctx.oracle(not bad, f'vertex_map refers to {len(bad)} node id(s) that do not exist, e.g. {bad[:4]}', case)
        lv = ctx.ask(f'c19.vmapid {len(V)} | ' + ','.join(str(int(i)) for i in np.asarray(vm)) + ' | ' + ','.join(str(i) for i in sorted(ids)))
        ctx.oracle(lv == 'ok=1', f'Lean vmapIdOKB: vertex_map does not map every one of the {len(V)} mesh vertices to an existing node id', case)
    if len(nodes):
        tol_l = Fr(1, 1 << 20) * (1 + int(np.abs(V).max()))
        lb = ctx.ask(f'c19.bbox {tok(tol_l)} | ' + ';'.join(p3tok([fl(c) for c in q]) for q in V) + ' | '
                     + ';'.join(p3tok([fl(c) for c in q]) for q in nodes))
        ctx.oracle(lb == 'ok=1', 'Lean bboxContainsB: a skeleton node lies outside the bounding box of the mesh', case)


# ---------------------------------------------------------------------------------------------
# generators
# ---------------------------------------------------------------------------------------------
DYADIC = [Fr(1, 4), Fr(1, 2), Fr(1), Fr(2), Fr(8), Fr(1, 8)]


def gen_round(r):
    qs = []
    for _ in range(24):
        den = r.choice([1, 2, 2, 2, 4, 8])
        qs.append(tok(Fr(r.randint(-41, 41), den)))
    return {'qs': qs}


def unit_string(r, phys, uname):
    """pitch string for a physical length `phys` (in `uname`): either in the neuron's own unit or in the other of nm / um.
    Returns (string, q, factor) with phys = q * factor."""
    other = {'nm': ('um', Fr(1000)), 'um': ('nm', Fr(1, 1000))}[uname]
    if r.random() < 0.3:
        q = phys / other[1]
        txt = repr(float(q))
        if Fr(txt) == q and 'e' not in txt:
            return f'{txt} {other[0]}', q, other[1]
    return f'{float(phys)} {uname}', phys, Fr(1)


def gen_vox(r, big=False):
    phys_spec = None
    ntype = r.choice(['tree', 'tree', 'dotprops', 'mesh'])
    units = r.choice([None, None, '8 nm', '1 um', '2 nm', ['4 nm', '4 nm', '40 nm'], ['2 nm', '8 nm', '1 nm']])
    iso = not isinstance(units, list)
    kind = r.choice(['scalar', 'scalar', 'vector', 'vector', 'string' if (iso and units) else 'scalar',
                     'mixed' if (iso and units) else 'vector'])
    umag = {'8 nm': Fr(8), '1 um': Fr(1), '2 nm': Fr(2)}.get(units if iso else None, Fr(1))
    uname = {'8 nm': 'nm', '1 um': 'um', '2 nm': 'nm'}.get(units if iso else None)
    if kind == 'scalar':
        p = r.choice(DYADIC)
        exact, arg = [p] * 3, {'kind': 'scalar', 'v': tok(p)}
    elif kind == 'vector':
        exact = [r.choice(DYADIC) for _ in range(3)]
        arg = {'kind': 'vector', 'v': [tok(c) for c in exact]}
    elif kind == 'string':
        mult = r.choice([Fr(1, 2), Fr(1), Fr(2), Fr(4)])           # pitch = mult neuron units = mult*umag physical units
        phys = mult * umag
        s_, q_, f_ = unit_string(r, phys, uname)
        exact, arg = [mult] * 3, {'kind': 'string', 'v': s_}
        phys_spec = [[tok(q_), tok(f_)]] * 3
    else:
        exact, v, phys_spec = [], [], []
        for _ in range(3):
            mult = r.choice([Fr(1, 2), Fr(1), Fr(2)])
            exact.append(mult)
            if r.random() < 0.5:
                s_, q_, f_ = unit_string(r, mult * umag, uname)
                v.append(s_); phys_spec.append([tok(q_), tok(f_)])
            else:
                v.append(tok(mult)); phys_spec.append(None)
        arg = {'kind': 'vector', 'v': v}
    vectors = r.random() < 0.25
    n = r.randint(3, 60) if big else r.choice([3, 3, 4, 5, 6, 8, 12])
    base = [r.randint(-12, 12) for _ in range(3)]
    span = r.choice([2, 4, 8, 12, 24])
    if vectors and r.random() < 0.7:            # dense clouds: several distinct points per voxel, so voxels have a principal axis
        n, span = max(n, r.randint(10, 24)), r.choice([3, 5, 7])
    ms = []
    for _ in range(n):
        if ms and r.random() < 0.25:
            ms.append(list(r.choice(ms)))               # exact duplicate -> counts > 1
        elif ms and r.random() < 0.25:
            q = list(r.choice(ms)); q[r.randrange(3)] += r.choice([-1, 1]); ms.append(q)   # same or neighbouring voxel
        else:
            ms.append([base[k] + r.randint(0, span) for k in range(3)])
    if r.random() < 0.5:                                  # force .5 ties: multiplier ≡ 2 (mod 4)
        for q in ms:
            if r.random() < 0.5:
                k = r.randrange(3); q[k] = q[k] - (q[k] % 4) + 2
    pts = [[tok(Fr(q[k], 4) * exact[k]) for k in range(3)] for q in ms]
    mn = [min(q[k] for q in ms) for k in range(3)]
    mx = [max(q[k] for q in ms) for k in range(3)]
    u = r.random()
    if u < 0.35:
        bounds = None
    else:
        cls = r.choice(['enclosing', 'clip', 'clip', 'clip', 'disjoint', 'tight'])
        if cls == 'enclosing':
            lo = [mn[k] - r.randint(0, 9) for k in range(3)]; hi = [mx[k] + r.randint(0, 9) for k in range(3)]
        elif cls == 'tight':
            lo, hi = list(mn), list(mx)
        elif cls == 'disjoint':
            lo = [mx[k] + r.randint(5, 12) for k in range(3)]; hi = [lo[k] + r.randint(0, 9) for k in range(3)]
        else:
            lo = [mn[k] + r.randint(-4, max((mx[k] - mn[k]) // 2, 0)) for k in range(3)]
            hi = [max(lo[k], mx[k] - r.randint(-4, max((mx[k] - mn[k]) // 2, 0))) for k in range(3)]
        bounds = {'lo': [tok(Fr(lo[k], 4) * exact[k]) for k in range(3)], 'hi': [tok(Fr(hi[k], 4) * exact[k]) for k in range(3)],
                  'layout': r.choice(['3x2', '3x2', '2x3']), 'cls': cls, 'as': r.choice(['array', 'list'])}
    alphas = r.random() < (0.6 if vectors else 0.05)
    out = {'ntype': ntype, 'units': units, 'pitch_arg': arg, 'pitch_exact': [tok(c) for c in exact], 'pts': pts, 'bounds': bounds,
           'counts': r.random() < 0.6, 'vectors': vectors, 'alphas': alphas}
    if phys_spec:
        out['pitch_phys'] = phys_spec
    if ntype == 'tree' and bounds is None and r.random() < 0.3:
        # connectors outside the node cloud enlarge x.bbox, i.e. the default bounds
        out['conn'] = [[tok(Fr(r.choice([mn[k] - r.randint(1, 9), mx[k] + r.randint(1, 9), mn[k]]), 4) * exact[k]) for k in range(3)]
                       for _ in range(r.randint(1, 3))]
    return out


def exhaustive_vox():
    """1-D sweep on the x axis: every quarter-pitch position × every quarter-pitch lower bound, both counts settings."""
    for lo4 in range(-4, 5):
        for hi4 in (lo4, lo4 + 3, lo4 + 6):
            pts = [[tok(Fr(m, 4)), '0', '0'] for m in range(-6, 13)]
            yield {'ntype': 'tree', 'units': None, 'pitch_arg': {'kind': 'scalar', 'v': '1'}, 'pitch_exact': ['1', '1', '1'],
                   'pts': pts, 'bounds': {'lo': [tok(Fr(lo4, 4)), '0', '0'], 'hi': [tok(Fr(hi4, 4)), '0', '0'], 'layout': '3x2',
                                          'cls': 'sweep', 'as': 'array'},
                   'counts': False, 'vectors': False, 'alphas': False}


def gen_tan(r, big=False):
    rows, meta = G.rand_forest(r, allow_zero_edges=True, nmax=60 if big else 20,
                               labeling=r.choice(['seq', 'shuffled', 'sparse', 'zero', 'reversed']))
    sc = r.choice([Fr(1), Fr(1), Fr(1, 2), Fr(1, 4), Fr(2)])
    out = [dict(id=int(x['id']), parent=int(x['parent']), x=tok(x['x'] * sc), y=tok(x['y'] * sc), z=tok(x['z'] * sc)) for x in rows]
    c = {'rows': out, 'k': r.choice([0, 0, None]), 'units': r.choice([None, '8 nm', '1 um']), 'shape': meta['shape']}
    if r.random() < 0.15:
        c['resample'] = r.choice(['2', '5', '1/2'])
    return c


def _rot(r, v):
    """signed permutation of the axes"""
    perm = [0, 1, 2]; r.shuffle(perm)
    sg = [r.choice([-1, 1]) for _ in range(3)]
    return [sg[k] * v[perm[k]] for k in range(3)], perm, sg


def gen_dots(r, big=False):
    cloud = r.choice(['collinear', 'collinear', 'planar', 'sym', 'sym', 'random', 'random', 'random', 'dupes', 'degenerate', 'inf'])
    container = r.choice(['ndarray', 'ndarray', 'ndarray', 'DataFrame', 'tree', 'mesh', 'dotprops'])
    sc = r.choice([Fr(1), Fr(1, 2), Fr(1, 4), Fr(2)])
    shift = [Fr(r.randint(-20, 20), 2) for _ in range(3)]
    ana, k = None, None
    if cloud == 'collinear':
        d, _ = G.rand_vec(r)
        n = r.randint(3, 12)
        ts = r.sample(range(-15, 16), n)
        pts = [[shift[a] + sc * t * d[a] for a in range(3)] for t in ts]
        k = r.choice([2, 3, 5, n, n + 1, 20])
        ana = {'kind': 'axis', 'd': [int(c) for c in d], 'alpha': '1', 'any_k': True}
    elif cloud == 'planar':
        nv, _ = G.rand_vec(r)
        # two integer vectors spanning the plane orthogonal to nv
        e1 = [nv[1], -nv[0], 0] if (nv[0] or nv[1]) else [1, 0, 0]
        e2 = [nv[1] * e1[2] - nv[2] * e1[1], nv[2] * e1[0] - nv[0] * e1[2], nv[0] * e1[1] - nv[1] * e1[0]]
        n = r.randint(4, 14)
        co = [(Fr(r.randint(-40, 40), 8), Fr(r.randint(-40, 40), 8)) for _ in range(n)]
        pts = [[shift[a] + sc * (ca * e1[a] + cb * e2[a]) for a in range(3)] for ca, cb in co]
        k = r.choice([3, 4, 5, n, 20])
        ana = {'kind': 'normal', 'n': [int(c) for c in nv], 'any_k': True}
    elif cloud == 'sym':
        # reflection-symmetric cloud (±a, ±b, ±c corners, optionally face centres): diagonal inertia, k >= n uses the whole cloud
        ext = r.sample([1, 2, 3, 5, 7], 3)
        corners = [[sx * ext[0], sy * ext[1], sz * ext[2]] for sx in (-1, 1) for sy in (-1, 1) for sz in (-1, 1)]
        extra = []
        if r.random() < 0.5:
            j = r.randrange(3); m = r.randint(1, 9)
            for s in (-1, 1):
                e = [0, 0, 0]; e[j] = s * m; extra.append(e)
        raw = corners + extra
        diag = [sum(Fr(p[a]) ** 2 for p in raw) for a in range(3)]
        order = sorted(range(3), key=lambda a: -diag[a])
        if diag[order[0]] == diag[order[1]]:
            ana = None
        else:
            axis = [0, 0, 0]; axis[order[0]] = 1
            sv = [diag[a] * sc * sc for a in order]
            ana = {'kind': 'axis', 'd': axis, 'svals': [tok(s) for s in sv], 'alpha': tok((sv[0] - sv[1]) / sum(sv))}
        perm = [0, 1, 2]; r.shuffle(perm)
        pts = [[shift[a] + sc * p[perm[a]] for a in range(3)] for p in raw]
        if ana:
            ana['d'] = [ana['d'][perm[a]] for a in range(3)]
        r.shuffle(pts)
        k = r.choice([len(pts), len(pts) + 1, 20, 50])
    elif cloud in ('random', 'inf'):
        n = r.randint(2, 40 if big else 16)
        pts = [[shift[a] + sc * Fr(r.randint(-64, 64), r.choice([1, 2, 4])) for a in range(3)] for _ in range(n)]
        k = r.choice([2, 3, 4, 5, 8, 20, n, n + 3])
    elif cloud == 'dupes':
        n = r.randint(3, 10)
        base = [[shift[a] + sc * r.randint(-9, 9) for a in range(3)] for _ in range(n)]
        pts = base + [list(r.choice(base)) for _ in range(r.randint(1, n))]
        r.shuffle(pts)
        k = r.choice([3, 4, 5, 8, 20])
    else:   # degenerate: some point's k nearest neighbours all coincide
        kind = r.choice(['all_same', 'single', 'k1', 'cluster'])
        if kind == 'all_same':
            pts = [list(shift)] * r.randint(2, 6); k = r.choice([2, 3, 20])
        elif kind == 'single':
            pts = [list(shift)]; k = r.choice([1, 5, 20])
        elif kind == 'k1':
            pts = [[shift[a] + r.randint(-5, 5) for a in range(3)] for _ in range(r.randint(2, 6))]; k = 1
        else:
            m = r.randint(3, 5)
            pts = [list(shift)] * m + [[shift[a] + 10 + r.randint(0, 5) * (a + 1) for a in range(3)] for _ in range(4)]
            k = r.choice([2, m])
    rows = [[tok(c) for c in p] for p in pts]
    if container in ('ndarray', 'DataFrame') and cloud not in ('sym',) and r.random() < 0.35:
        for _ in range(r.randint(1, 3)):
            bad = ['0', '0', '0']; bad[r.randrange(3)] = 'nan'
            rows.insert(r.randrange(len(rows) + 1), bad)
    if cloud == 'inf':
        container = r.choice(['ndarray', 'DataFrame'])
        bad = ['1', '2', '3']; bad[r.randrange(3)] = r.choice(['inf', '-inf'])
        rows.insert(r.randrange(len(rows) + 1), bad)
    if container == 'mesh' and len(pts) < 3:
        container = 'ndarray'
    case = {'cloud': cloud, 'container': container, 'pts': rows, 'k': int(k), 'units': r.choice([None, '8 nm'])}
    if ana:
        case['analytic'] = ana
    if r.random() < 0.4:
        case['k2'] = max(2, r.choice([2, 3, 5, len(pts), len(pts) + 2]))
    return case


def _no_isolated(rows):
    has_child = {x['parent'] for x in rows}
    return all(x['parent'] >= 0 or x['id'] in has_child for x in rows)


def gen_tube(r):
    while True:
        rows, meta = G.rand_forest(r, n=r.randint(2, 14), allow_zero_edges=False, labeling=r.choice(['seq', 'shuffled', 'sparse', 'zero', 'reversed', 'large']),
                                   shape=r.choice(['chain', 'star', 'caterpillar', 'broom', 'balanced', 'random', 'forest', 'broot']))
        if _no_isolated(rows) or r.random() < 0.5:
            break
    rows = [dict(id=int(x['id']), parent=int(x['parent']), x=int(x['x']), y=int(x['y']), z=int(x['z'])) for x in rows]
    if r.random() < 0.25:                       # extra single-node fragments (isolated roots), anywhere in the table
        for _ in range(r.randint(1, 2)):
            nid = max(x['id'] for x in rows) + r.randint(1, 5)
            rows.insert(r.randrange(len(rows) + 1), dict(id=nid, parent=-1, x=r.randint(0, 200), y=r.randint(0, 200), z=r.randint(0, 200)))
    radii = [r.choice([0.125, 0.25, 0.5, 0.5]) for _ in rows]
    if r.random() < 0.15:                       # missing / zero radii are documented to be treated as 0 (the ring collapses onto the node)
        radii[r.randrange(len(radii))] = r.choice([0.0, None])
    return {'rows': rows, 'radii': radii, 'tube_points': r.choice([4, 6, 8, 8]), 'use_normals': r.random() < 0.7,
            'via': r.choice(['mesh', 'tree2meshneuron'])}


def gen_vmesh(r):
    kind = r.choice(['points', 'points', 'points/bounds', 'grid', 'grid', 'grid'])
    chunk = r.choice(['auto', 0, None, 2, 3, 4, 8, 200])
    opts = {'via': r.choice(['mesh', 'mesh', 'voxels2mesh']), 'chunk_size': chunk,
            'pad_chunks': r.choice([None, True, False]) if chunk not in ('auto', 0, None) else None,
            'merge_fragments': r.choice([None, True, False]) if chunk not in ('auto', 0, None) else None}
    if kind == 'grid':
        shape = [r.randint(6, 14) for _ in range(3)]
        boxes = []
        for _ in range(r.choice([1, 1, 2, 3])):
            a = [r.randint(1 if r.random() < 0.85 else 0, shape[k] - 3) for k in range(3)]
            b = [min(shape[k], a[k] + r.randint(2, 5)) for k in range(3)]
            boxes.append((a, b))
        un = r.choice([['1 micron'] * 3, ['0.5 micron'] * 3, ['2 nm'] * 3, ['0.5 micron', '0.25 micron', '2 micron'], ['4 nm', '4 nm', '40 nm'],
                       ['0.125 um', '1 um', '8 um']])
        return dict(opts, src='grid', shape=shape, boxes=boxes, vunits=un, offset=[tok(Fr(r.randint(-80, 80), r.choice([1, 2, 4]))) for _ in range(3)],
                    counts=r.random() < 0.2)
    c = gen_vox(r, big=r.random() < 0.5)
    ex = [fr(t) for t in c['pitch_exact']]
    out = dict(opts, src='points', pts=c['pts'], units=c['units'], pitch=[tok(t) for t in ex], counts=r.random() < 0.3)
    if kind == 'points/bounds':
        P = [[fr(t) for t in p] for p in c['pts']]
        lo = [min(p[k] for p in P) - ex[k] * r.randint(1, 6) for k in range(3)]
        hi = [max(p[k] for p in P) + ex[k] * r.randint(0, 3) for k in range(3)]
        out['bounds'] = {'lo': [tok(t) for t in lo], 'hi': [tok(t) for t in hi]}
    return out


def gen_nlist(r):
    return {'vox': [gen_vox(r) for _ in range(r.randint(2, 3))], 'tan': [gen_tan(r) for _ in range(r.randint(2, 3))],
            'k': r.choice([0, 3, 5, 20]), 'pitch': r.choice(['8', '16', '32'])}


def case_nlist(ctx, case):
    """`@map_neuronlist`: a NeuronList goes element by element through the same code (results must equal the single-neuron results)."""
    xs = []
    for i, c in enumerate(case['tan']):
        rows = c['rows']
        df = pd.DataFrame({'node_id': np.array([r_['id'] for r_ in rows], dtype=np.int64),
                           'parent_id': np.array([r_['parent'] for r_ in rows], dtype=np.int64),
                           'x': [float(fr(r_['x'])) for r_ in rows], 'y': [float(fr(r_['y'])) for r_ in rows],
                           'z': [float(fr(r_['z'])) for r_ in rows], 'radius': 0.01})
        xs.append(navis.TreeNeuron(df, units=c.get('units'), id=100 + i, name=f's{i}'))
    nl = navis.NeuronList(xs)
    k = case['k']
    try:
        dl = navis.make_dotprops(nl, k=k)
        single = [navis.make_dotprops(x, k=k) for x in xs]
    except Exception as e:
        ctx.oracle(False, f'make_dotprops(NeuronList, k={k}) raises {type(e).__name__}: {str(e)[:120]}', case)
        return
    ctx.oracle(isinstance(dl, navis.NeuronList) and len(dl) == len(xs), f'make_dotprops(NeuronList) returned {type(dl).__name__} of length '
                                                                        f'{len(dl) if hasattr(dl, "__len__") else "?"} for {len(xs)} neurons', case)
    if isinstance(dl, navis.NeuronList) and len(dl) == len(xs):
        same = all(np.array_equal(np.asarray(a.points), np.asarray(b.points)) and np.array_equal(np.asarray(a.vect), np.asarray(b.vect))
                   and a.k == b.k and str(a.id) == str(b.id) for a, b in zip(dl, single))
        ctx.oracle(same, 'make_dotprops(NeuronList)[i] differs from make_dotprops(NeuronList[i]) (points / vect / k / id)', case)
    p = float(fr(case['pitch']))
    try:
        vl = navis.voxelize(nl, pitch=p, counts=True)
        vs = [navis.voxelize(x, pitch=p, counts=True) for x in xs]
    except Exception as e:
        ctx.oracle(False, f'voxelize(NeuronList) raises {type(e).__name__}: {str(e)[:120]}', case)
        return
    ok = isinstance(vl, navis.NeuronList) and len(vl) == len(xs) and all(
        np.array_equal(np.asarray(a.grid), np.asarray(b.grid)) and np.array_equal(np.asarray(a.offset, dtype=float), np.asarray(b.offset, dtype=float))
        and np.array_equal(np.asarray(a.units_xyz.magnitude, dtype=float), np.asarray(b.units_xyz.magnitude, dtype=float)) for a, b in zip(vl, vs))
    ctx.oracle(ok, 'voxelize(NeuronList)[i] differs from voxelize(NeuronList[i]) (grid / offset / units)', case)
    if ok:
        for a, x in zip(vl, xs):
            ctx.oracle(int(np.asarray(a.grid).sum()) == x.n_nodes, 'voxelize(NeuronList, counts=True): total != number of nodes (default bounds)', case)


def gen_voxdots(r):
    shape = [r.randint(3, 8) for _ in range(3)]
    vox = sorted({tuple(r.randrange(shape[k]) for k in range(3)) for _ in range(r.randint(2, 24))})
    return {'shape': shape, 'vox': [list(v) for v in vox], 'vunits': r.choice([['1 micron'] * 3, ['0.5 micron'] * 3, ['8 nm'] * 3]),
            'offset': [r.choice([0, 0, 4, -12]) for _ in range(3)], 'k': r.choice([2, 3, 5, 20])}


def case_voxdots(ctx, case):
    """make_dotprops(VoxelNeuron, k): points are the filled voxels scaled by the voxel size; tangents / alpha judged by Lean."""
    grid = np.zeros(tuple(case['shape']), dtype=bool)
    for v in case['vox']:
        grid[tuple(v)] = True
    vx = navis.VoxelNeuron(grid, units=case['vunits'], offset=case['offset'], id=2, name='vd')
    try:
        dp = navis.make_dotprops(vx, k=case['k'])
    except Exception as e:
        ctx.oracle(False, f'make_dotprops(VoxelNeuron, k={case["k"]}) raises {type(e).__name__}: {str(e)[:120]}', case)
        return
    un = [fl(c) for c in np.asarray(vx.units_xyz.magnitude, dtype=float)]
    want = sorted(p3tok([Fr(v[k]) * un[k] for k in range(3)]) for v in case['vox'])
    P = [[fl(c) for c in p] for p in np.asarray(dp.points, dtype=float)]
    shifted = sorted(p3tok([Fr(v[k]) * un[k] + Fr(case['offset'][k]) for k in range(3)]) for v in case['vox'])
    got = sorted(p3tok(p) for p in P)
    ctx.count('voxdots_points', 'voxels*units (offset dropped)' if got == want and want != shifted else
              ('voxels*units+offset' if got == shifted else ('voxels*units' if got == want else 'other')))
    ctx.oracle(got == want or got == shifted, f'make_dotprops(VoxelNeuron): the {len(P)} points are not the {len(want)} filled voxels scaled by the voxel size', case)
    ctx.corr(int(dp.k), int(ctx.ask(f'c19.kclip {len(P)} {case["k"]}')), 'make_dotprops(VoxelNeuron): k == kClip', case)
    if len(P) == len(want):
        lean_judge(ctx, case, P, case['k'], int(dp.k), np.asarray(dp.vect, dtype=float), np.asarray(dp.alpha, dtype=float),
                   f'make_dotprops(VoxelNeuron, k={case["k"]})')


def gen_dense(r):
    """Few distinct locations with large multiplicities: single voxels receive > 255 and > 65535 points."""
    pitch = r.choice([Fr(1), Fr(2), Fr(8), Fr(1, 2)])
    nloc = r.randint(2, 8)
    locs = [[tok(Fr(r.randint(-24, 24), 4) * pitch) for _ in range(3)] for _ in range(nloc)]
    big = r.choice([[300], [256], [255, 257], [65536], [70000], [65535, 300], [1000, 66000]])
    mult = [r.choice([1, 2, 5, 40]) for _ in range(nloc)]
    for b in big:
        mult[r.randrange(nloc)] = b
    P = [[fr(c) for c in p] for p in locs]
    bounds = None
    if r.random() < 0.4:
        k = r.randrange(3)
        lo = [min(p[a] for p in P) - pitch * r.randint(0, 2) for a in range(3)]
        hi = [max(p[a] for p in P) + pitch * r.randint(0, 2) for a in range(3)]
        hi[k] = max(lo[k], hi[k] - pitch * r.randint(1, 4))            # clips some locations
        bounds = {'lo': [tok(c) for c in lo], 'hi': [tok(c) for c in hi]}
    return {'locs': locs, 'mult': mult, 'pitch': tok(pitch), 'bounds': bounds, 'ntype': r.choice(['dotprops', 'dotprops', 'mesh', 'tree']),
            'units': r.choice([None, '8 nm'])}


def case_dense(ctx, case):
    """`counts=True` on dense clouds: the count of a voxel may exceed 255 / 65535; the grid must hold it and the total must be conserved."""
    locs = [[fr(c) for c in p] for p in case['locs']]
    mult = [int(m) for m in case['mult']]
    pitch = fr(case['pitch'])
    P = np.array([[float(c) for c in p] for p in locs], dtype=float).repeat(mult, axis=0)
    x = build_neuron(case['ntype'], P, case['units'])
    u = units_xyz_mag(x)
    b = case['bounds']
    if b is None:
        lo = [min(p[k] for p in locs) for k in range(3)]; hi = [max(p[k] for p in locs) for k in range(3)]
        bounds = None
    else:
        lo, hi = [fr(c) for c in b['lo']], [fr(c) for c in b['hi']]
        bounds = np.array([[float(l), float(h)] for l, h in zip(lo, hi)])
    # model: voxel index of every distinct location (Lean), multiplicities added up per voxel
    m = kv(ctx.ask('c19.vox ' + ' | '.join([p3tok([pitch] * 3), p3tok(lo), p3tok(hi), p3tok(u), ';'.join(p3tok(p) for p in locs + [lo])])))
    ix = [tuple(int(t) for t in item.split(',')) for item in m['ix'].split(';') if item]
    shape = tuple(int(t) for t in m['shape'].split(','))
    want = {}
    for i_, mu in zip(ix[:-1], mult):
        idx = tuple(i_[k] - ix[-1][k] for k in range(3))
        if all(0 <= idx[k] < shape[k] for k in range(3)):
            want[idx] = want.get(idx, 0) + mu
    n_in, top = sum(want.values()), max(want.values(), default=0)
    ctx.count('dense_max_points_per_voxel', '>65535' if top > 65535 else ('>255' if top > 255 else '<=255'))
    ctx.count('dense_clipped', n_in < sum(mult))
    try:
        v = navis.voxelize(x, pitch=float(pitch), bounds=bounds, counts=True)
    except Exception as e:
        ctx.oracle(False, f'voxelize(counts=True) on a dense cloud raises {type(e).__name__}: {str(e)[:120]}', case)
        return
    grid = np.asarray(v.grid)
    ctx.corr(list(grid.shape), list(shape), 'dense cloud: grid shape', case)
    tot = int(grid.astype(object).sum()) if grid.size < 4096 else int(grid.sum(dtype=np.int64))
    ctx.oracle(tot == n_in, f'counts=True: grid total {tot} != {n_in} points whose voxel lies inside the grid ({sum(mult)} points; the fullest '
                            f'voxel receives {top} points, grid dtype {grid.dtype})', case)
    got = {tuple(int(t) for t in r_): int(grid[tuple(r_)]) for r_ in np.argwhere(grid != 0)}
    wrong = [(k_, got.get(k_, 0), w_) for k_, w_ in sorted(want.items()) if got.get(k_, 0) != w_] + \
            [(k_, g_, 0) for k_, g_ in sorted(got.items()) if k_ not in want]
    ctx.oracle(not wrong, f'counts=True: per-voxel counts differ from the number of points in the voxel (voxel, stored, points): {wrong[:3]} '
                          f'(grid dtype {grid.dtype})', case)
    ok_dtype = grid.dtype.kind in 'iu' and np.iinfo(grid.dtype).max >= top
    ctx.oracle(ok_dtype, f'counts=True: grid dtype {grid.dtype} cannot hold the largest per-voxel count {top}', case)


def gen_dphist(r):
    """History on ONE Dotprops object: make_dotprops(A, k) → touch the KD-tree → `dp.points = B` (same shape) → tangents again."""
    n = r.randint(4, 14)
    sc = r.choice([Fr(1), Fr(1, 2), Fr(1, 4), Fr(2)])

    def cloud():
        sh = [Fr(r.randint(-20, 20), 2) for _ in range(3)]
        return [[sh[a] + sc * Fr(r.randint(-64, 64), r.choice([1, 2, 4])) for a in range(3)] for _ in range(n)]
    A = cloud()
    kindB = r.choice(['fresh', 'fresh', 'permuted', 'stretched'])
    if kindB == 'permuted':
        B = list(A); r.shuffle(B)
        if B == A:
            B = B[1:] + B[:1]
    elif kindB == 'stretched':                       # same points, one axis stretched: neighbourhoods and axes change
        f = r.choice([Fr(8), Fr(1, 8)]); ax = r.randrange(3)
        B = [[c * (f if a == ax else 1) for a, c in enumerate(p)] for p in A]
    else:
        B = cloud()
    return {'A': [[tok(c) for c in p] for p in A], 'B': [[tok(c) for c in p] for p in B], 'kindB': kindB,
            'k': r.choice([2, 3, 4, 5, n]), 'touch': r.choice(['sampling_resolution', 'snap', 'recalculate_tangents', 'kdtree', 'none']),
            'path': r.choice(['recalc_inplace', 'recalc_inplace', 'recalc_copy', 'lazy_vect', 'lazy_alpha']),
            'units': r.choice([None, '8 nm'])}


def case_dphist(ctx, case):
    A = [[fr(c) for c in p] for p in case['A']]
    B = [[fr(c) for c in p] for p in case['B']]
    fa = np.array([[float(c) for c in p] for p in A], dtype=float)
    fb = np.array([[float(c) for c in p] for p in B], dtype=float)
    k = int(case['k'])
    ctx.count('dphist_touch', case['touch']); ctx.count('dphist_path', case['path']); ctx.count('dphist_B', case['kindB'])
    try:
        dp = navis.make_dotprops(fa, k=k)
        if case.get('units'):
            dp.units = case['units']
        t = case['touch']
        if t == 'sampling_resolution':
            _ = dp.sampling_resolution
        elif t == 'snap':
            _ = dp.snap(fa[0])
        elif t == 'recalculate_tangents':
            dp.recalculate_tangents(min(k, len(A)), inplace=True)
        elif t == 'kdtree':
            _ = dp.kdtree
        dp.points = fb                                   # same shape as before (what align / transforms do with `n.points = new_co`)
        kk = min(k, len(B))
        pth = case['path']
        if pth == 'recalc_inplace':
            dp.recalculate_tangents(kk, inplace=True); res = dp
        elif pth == 'recalc_copy':
            res = dp.recalculate_tangents(kk, inplace=False)
        else:
            dp._vect = None; dp._alpha = None            # lazy re-computation through the properties
            if pth == 'lazy_vect':
                _ = dp.vect
            else:
                _ = dp.alpha
            res = dp
        vect = np.asarray(res.vect, dtype=float); alpha = np.asarray(res.alpha, dtype=float)
        P = np.asarray(res.points, dtype=float)
        fresh = navis.make_dotprops(fb, k=k)
        sr, sr_fresh = float(dp.sampling_resolution), float(fresh.sampling_resolution)
        snap_ix, snap_d = dp.snap(fb[-1])
    except Exception as e:
        ctx.oracle(False, f'Dotprops history (make_dotprops → {case["touch"]} → points = B → {case["path"]}) raises {type(e).__name__}: {str(e)[:120]}', case)
        return
    what = f'make_dotprops(A, k={k}) → {case["touch"]} → dp.points = B → {case["path"]}'
    ctx.oracle(np.array_equal(P, fb), f'{what}: the object does not hold the points B', case)
    if len(vect) != len(B) or len(alpha) != len(B):
        ctx.oracle(False, f'{what}: {len(vect)} tangents / {len(alpha)} alphas for {len(B)} points', case)
        return
    # the property on (B, tangents, alpha): Lean judge against the exact k nearest neighbours *of B*
    lean_judge(ctx, case, B, k, int(res.k), vect, alpha, what)
    # and agreement (up to sign) with a fresh make_dotprops(B, k) wherever the leading eigenvalue is simple
    fv, fal = np.asarray(fresh.vect, dtype=float), np.asarray(fresh.alpha, dtype=float)
    simple = fal > 1e-6
    dots = np.abs(np.einsum('ij,ij->i', vect, fv))
    ctx.oracle(bool(np.all(np.abs(alpha - fal) <= 1e-9)) and bool(np.all(dots[simple] >= 1 - 1e-9)),
               f'{what}: tangents / alpha differ from a fresh make_dotprops(B, k={k}) (max |Δalpha| {float(np.abs(alpha - fal).max()):.3g}, '
               f'min |cos| {float(dots[simple].min()) if simple.any() else 1.0:.6f}): the KD-tree searched is not a tree of the current points', case)
    # (not a clause of the statement, hence a correspondence check: the other consumers of the cached tree)
    ctx.corr(bool(abs(sr - sr_fresh) <= 1e-12 * (1 + abs(sr_fresh)) and float(snap_d) == 0.0 and np.array_equal(fb[int(snap_ix)], fb[-1])), True,
               f'{what}: sampling_resolution {sr} (fresh {sr_fresh}) / snap(B[-1]) → index {snap_ix}, distance {snap_d}: queries do not see the current points', case)


def gen_skel(r):
    kind = r.choice(['tube', 'tube', 'cylinder', 'capsule', 'box', 'two'])
    if kind == 'tube':
        rows, _ = G.rand_forest(r, n=r.randint(2, 10), allow_zero_edges=False, labeling='seq',
                                shape=r.choice(['chain', 'caterpillar', 'random', 'broom']), order='parent_first')
        rows = [dict(id=int(x['id']), parent=int(x['parent']), x=int(x['x']), y=int(x['y']), z=int(x['z'])) for x in rows]
        src = {'kind': 'tube', 'rows': rows, 'radii': [r.choice([0.25, 0.5]) for _ in rows]}
    elif kind == 'cylinder':
        src = {'kind': 'cylinder', 'r': r.choice([0.5, 1.0, 2.0]), 'h': r.choice([6.0, 10.0, 20.0]), 'sections': r.choice([8, 12, 16])}
    elif kind == 'capsule':
        src = {'kind': 'capsule', 'r': r.choice([0.5, 1.0]), 'h': r.choice([6.0, 12.0])}
    elif kind == 'two':
        src = {'kind': 'two', 'r': r.choice([0.5, 1.0]), 'h': r.choice([6.0, 10.0]), 'sections': 8, 'gap': [float(r.randint(20, 40)), 0.0, float(r.randint(-9, 9))]}
    else:
        src = {'kind': 'box', 'extents': [r.choice([1.0, 2.0]), r.choice([1.0, 2.0]), r.choice([6.0, 12.0])], 'subdivide': r.choice([1, 2])}
    if kind != 'tube':
        src['shift'] = [float(r.randint(-50, 50)) for _ in range(3)]
    method = r.choice(['wavefront', 'wavefront', 'teasar'])
    return {'src': src, 'method': method, 'inv_dist': r.choice([1.0, 2.0, 5.0]), 'wrap': r.random() < 0.7,
            'shave': r.choice([None, None, False, True]), 'heal': r.choice([None, None, None, True]),
            'units': r.choice([None, '8 nm']), 'via': r.choice(['skeletonize', 'mesh2skeleton'])}


def gen_cases(ctx):
    r = ctx.rng
    for _ in range(ctx.budget(6, 60)):
        yield 'round', gen_round(r)
    ex = list(exhaustive_vox())
    if ctx.quick():
        ex = ex[::3]
    for c in ex:
        yield 'vox', c
        yield 'vox', dict(c, counts=True, bounds=dict(c['bounds'], cls='sweep-counts'))
    for i in range(ctx.budget(380, 9000)):
        yield 'vox', gen_vox(r, big=(i % 10 == 9))
    for i in range(ctx.budget(160, 4000)):
        yield 'tan', gen_tan(r, big=(i % 10 == 9))
    for i in range(ctx.budget(320, 7000)):
        yield 'dots', gen_dots(r, big=(i % 10 == 9))
    for _ in range(ctx.budget(80, 1000)):
        yield 'tube', gen_tube(r)
    for _ in range(ctx.budget(8, 200)):
        yield 'nlist', gen_nlist(r)
    for _ in range(ctx.budget(12, 300)):
        yield 'voxdots', gen_voxdots(r)
    for _ in range(ctx.budget(10, 120)):
        yield 'dense', gen_dense(r)
    for _ in range(ctx.budget(60, 1200)):
        yield 'dphist', gen_dphist(r)
    if HAVE_SKIMAGE:
        for _ in range(ctx.budget(100, 1500)):
            yield 'vmesh', gen_vmesh(r)
    if HAVE_SKELETOR and tm is not None:
        for _ in range(ctx.budget(40, 600)):
            yield 'skel', gen_skel(r)


RUNNERS = {'round': case_round, 'vox': case_vox, 'tan': case_tan, 'dots': case_dots, 'tube': case_tube, 'vmesh': case_vmesh,
           'skel': case_skel, 'nlist': case_nlist, 'voxdots': case_voxdots, 'dense': case_dense, 'dphist': case_dphist}


def nontrivial(kind, case):
    if kind == 'vox':
        return len(case['pts']) >= 2
    if kind == 'tan':
        return any(x['parent'] >= 0 for x in case['rows'])
    if kind == 'dots':
        return len(case['pts']) >= 2
    if kind == 'vmesh' and case.get('src') == 'points':
        return len(case['pts']) >= 2
    return True


def run(ctx):
    ctx.extra['rule'] = (
        'round: 24 dyadic rationals per case (ties, integers, negatives). vox: neuron type × units × pitch kind (scalar / per-axis / '
        'unit string / mixed) × bounds (default, enclosing, tight, clipping, disjoint; (3,2)/(2,3); array/list) × counts × vectors × '
        'alphas, points are multiples of pitch/4 with duplicates, neighbours and forced .5 ties; plus a 1-D sweep of every quarter-pitch '
        'position against every quarter-pitch lower bound. tan: shared forest generator (all shapes, labelings, row orders, zero-length '
        'edges, Pythagorean edge vectors) scaled by a dyadic factor, k=0/None. dots: collinear / planar / reflection-symmetric / random / '
        'duplicated / fully degenerate / inf-row clouds in ndarray / DataFrame / TreeNeuron / MeshNeuron / Dotprops containers, NaN rows, '
        'k from 1 to > n, optional recalculate_tangents; voxdots: make_dotprops on VoxelNeurons; nlist: NeuronList inputs of make_dotprops / '
        'voxelize. tube / vmesh / skel: random skeletons (forests, isolated nodes, all labelings and row orders), voxel grids (from point clouds '
        'with default / enclosing bounds and built directly with offset, per-axis units and blobs away from index 0; single-pass and chunked '
        'marching cubes) and meshes (tube meshes, trimesh primitives, two-component meshes; wavefront and teasar), with the exact sub-claims '
        '(vertex maps, bounding boxes, surface hugging / extent) decided by Lean checkers. Non-trivial = at least 2 points / one edge; '
        'distinct = distinct JSON digest')
    ctx.extra['assumptions'] = [
        'voxel inputs are dyadic (multiples of pitch/4, |multiplier| < 2^10), so p/pitch, lo/pitch, offsets and units are exact doubles',
        'node ids are unique (pandas .loc on a duplicated index is not modelled); TreeNeuron / Dotprops / MeshNeuron carry no connectors '
        '(the default bounds are the bounding box of the points)',
        'k nearest neighbours are recomputed exactly (Fractions); points whose k-th and (k+1)-th neighbour distances tie between distinct '
        'locations are skipped (free choice of the KD-tree); principal axis / alpha compared with tolerance 1e-8 relative to the trace',
        'mesh tests: tube containment is tested as "cross-section rings centred on the node and surface within two radii", because the '
        'tube mesh is open-ended (not watertight) and ray-casting containment is undefined for it; single-node fragments must be a closed '
        'sphere of the node\'s radius centred on the node',
        'Lean judge tolerances: unit length 2^-40, eigen-residual / Rayleigh excess 2^-26·trace, characteristic-polynomial coefficients '
        '2^-30·trace^2 (trace^3) for float64 dotprops; 2^-16 / 2^-12 / 2^-12 for the float32 vector / alpha fields of voxel grids; tangents of '
        'skeletons 2^-40; surfaces: half a voxel + 2^-10 voxel; bounding boxes 2^-20·(1 + max |coordinate|)',
        'unit-string pitches are used only when navis maps them to the exact dyadic number of neuron units (inexact pint conversions are '
        'counted in `vox_pitch_string_inexact` and skipped)',
    ]
    missing = [n for n, ok in (('skimage', HAVE_SKIMAGE), ('skeletor', HAVE_SKELETOR), ('trimesh', tm is not None)) if not ok]
    if missing:
        ctx.notes.append(f'optional dependencies missing, streams skipped: {missing}')
    ctx.notes.append('observation (outside the statement): make_dotprops(VoxelNeuron) returns points = voxels * units without the neuron\'s '
                     '`offset` (histogram voxdots_points); tangents and alpha are unaffected (theorem scatter_invariances), the statement does '
                     'not fix the position of these points, so this is recorded, not reported')
    ctx.notes.append('not counted (no surface is produced, the clause is silent): voxels2mesh(chunk_size=n, pad_chunks=False) raises `Surface level '
                     'must be within volume data range` when a chunk is completely filled; the chunked path raises `need at least one array` '
                     'when every chunk holds a single voxel')
    ctx.notes.append('not counted as defects: navis.mesh(ndarray) / navis.skeletonize(ndarray) raise AttributeError (`x.ndims`, `x.points`); '
                     'make_dotprops on an empty / all-NaN cloud raises ValueError; recalculate_tangents(k=1) fails a reshape. '
                     'neuron2tangents returns child − parent (pointing parent→child) although its docstring says child→parent: tangents are '
                     'unoriented (NBLAST uses |dot|, the k>0 path has an arbitrary sign), so the sign is not treated as an observable')
    for kind, case in gen_cases(ctx):
        c = dict(case, kind=kind)
        ctx.case(c, nontrivial=nontrivial(kind, case), sample_every=97)
        ctx.count('stream', kind)
        RUNNERS[kind](ctx, c)


def replay(ctx, rp):
    case = rp['case']
    ctx.case(case)
    RUNNERS[case['kind']](ctx, case)


# ---------------------------------------------------------------------------------------------
# shrinking: drop points / rows while an oracle still fails
# ---------------------------------------------------------------------------------------------
class _Probe:
    def __init__(self, ctx):
        self.ctx, self.fails = ctx, []
        self.search_mode = False

    def count(self, *a, **k):
        pass

    def ask(self, line):
        return self.ctx.ask(line)

    def corr(self, *a, **k):
        return True

    def oracle(self, ok, what, case, signature=None, **k):
        if not ok and not (signature and self.ctx.match_known(signature)):
            self.fails.append(what)
        return ok


def _still_fails(ctx, kind, case):
    p = _Probe(ctx)
    try:
        RUNNERS[kind](p, case)
    except Exception:
        return None
    return p.fails[0] if p.fails else None


def shrink(ctx, failure):
    case = copy.deepcopy(failure['case'])
    kind = case.get('kind')
    if kind not in ('vox', 'dots', 'tan') or _still_fails(ctx, kind, case) is None:
        return None
    changed, rounds = True, 0
    while changed and rounds < 60:
        changed, rounds = False, rounds + 1
        cands = []
        if kind in ('vox', 'dots'):
            for i in range(len(case['pts'])):
                if len(case['pts']) > (3 if kind == 'vox' and case.get('ntype') == 'mesh' else 1):
                    cands.append(dict(case, pts=case['pts'][:i] + case['pts'][i + 1:]))
            if kind == 'vox':
                for opt in ('vectors', 'alphas'):
                    if case.get(opt):
                        cands.append(dict(case, **{opt: False}))
        else:
            ids_with_children = {x['parent'] for x in case['rows']}
            for i, x in enumerate(case['rows']):
                if x['id'] not in ids_with_children:
                    cands.append(dict(case, rows=case['rows'][:i] + case['rows'][i + 1:]))
        for c in cands:
            c = copy.deepcopy(c)
            if kind == 'dots':
                c.pop('analytic', None) if c.get('cloud') == 'sym' else None
            if _still_fails(ctx, kind, c) is not None:
                case, changed = c, True
                break
    what = _still_fails(ctx, kind, case)
    if what is None:
        return None
    return dict(failure, case=case, what=what)
