"""C01 — every operation that yields a skeleton yields a well-formed skeleton.

Operation histories on real TreeNeurons.  After every step
 (a) for operations the Lean model covers, the implementation's node table is compared with the model
     (`applyOp`, `insertNodes`, `cutMany`, `resampleSkip`, `fromEdges`) evaluated on the implementation's
     own pre-state;
 (b) for every operation (modelled or only watched) the Lean checkers `wfB` / `labelsOKB` / `somaOKB` —
     proved sound in Props/C01.lean — are evaluated on the implementation's table and reported soma, plus a
     no-NaN clause;
 (c) the soma the skeleton reports is compared with the Lean soma bookkeeping model (`stepSoma`).

Streams: `hist` (generated forests × mixed histories, three back-ends), `resample` (every interpolation
kind × skip_errors × coincident nodes × row orders), `soma` (several thick nodes; detected / fixed / pinned
somas through resampling and every node-dropping operation), `construct` (tables with alias columns and
odd dtypes, networkx graphs, vertex/edge lists, SWC text, re-initialisation, mesh → skeleton)."""
import io, os, pickle, warnings, random, tempfile
import numpy as np
import pandas as pd
import networkx as nx

warnings.filterwarnings('ignore')
import navis
from . import gen as G
from . import backends as B

navis.config.pbar_hide = True
navis.set_loggers('ERROR')

MODELLED = ['subset', 'reroot', 'cutd', 'cutp', 'remove', 'ds', 'classify']
# diffed against a Lean model other than `applyOp` (see run_history)
# operations that leave ids, parents and labels alone (the model's `touch`)
TOUCH_OPS = {'mul', 'div', 'add', 'sub', 'copy', 'pickle', 'smooth', 'despike', 'guess_radius', 'reinit', 'setsoma', 'average'}
MODELLED_EXT = ['insert', 'cutmany', 'resample', 'setnodes', 'construct (tables, graphs, edges, SWC)'] + sorted(TOUCH_OPS)
WATCHED = ['prune_twigs', 'prune_strahler', 'prune_depth', 'longest', 'heal', 'resample', 'insert',
           'mul', 'div', 'add', 'sub', 'copy', 'pickle', 'smooth', 'despike', 'guess_radius', 'stitch', 'combine',
           'fragments', 'rewire', 'reinit', 'cbf', 'drop_fluff', 'merge_dups', 'raa', 'average', 'split_frag',
           'split_ad', 'cutmany', 'setnodes', 'setsoma', 'nx_roundtrip', 'edges_roundtrip', 'swc_roundtrip',
           'rerootmany', 'subset_opts', 'nl_map']
METHODS = ['linear', 'nearest', 'nearest-up', 'zero', 'slinear', 'quadratic', 'cubic', 'previous', 'next']
# operations that map over a NeuronList (exercised through `nl_map`)
NL_OPS = ['prune_twigs', 'prune_strahler', 'ds', 'resample', 'smooth', 'despike', 'heal', 'drop_fluff', 'longest', 'prune_depth']


# ------------------------------------------------------------------------------------------------
# neurons
# ------------------------------------------------------------------------------------------------
def to_neuron(rows, units='1 nm', radius_col=True, connectors=None):
    df = pd.DataFrame({'node_id': np.array([r['id'] for r in rows], dtype=np.int64),
                       'parent_id': np.array([r['parent'] for r in rows], dtype=np.int64),
                       'x': np.array([r['x'] for r in rows], dtype=float),
                       'y': np.array([r['y'] for r in rows], dtype=float),
                       'z': np.array([r['z'] for r in rows], dtype=float)})
    if radius_col:
        df['radius'] = np.array([r.get('r', 0.01) if r.get('r', 0.01) is not None else np.nan for r in rows], dtype=float)
    x = navis.TreeNeuron(df, units=units)
    if connectors:
        x.connectors = pd.DataFrame(connectors, columns=['connector_id', 'node_id', 'x', 'y', 'z', 'type'])
    return x


def rand_connectors(r, rows, p=0.3):
    out = []
    for k, rw in enumerate(rows):
        if r.random() < p:
            out.append([1000 + k, rw['id'], rw['x'], rw['y'], rw['z'], r.choice(['pre', 'post'])])
    if out and len({c[5] for c in out}) == 1 and len(out) > 1:
        out[0][5] = 'pre' if out[0][5] == 'post' else 'post'
    return out


def state(x):
    nd = x.nodes
    return dict(ids=[int(i) for i in nd.node_id.values], pm={int(i): int(p) for i, p in zip(nd.node_id.values, nd.parent_id.values)})


def soma_list(x):
    s = x.soma
    return None if s is None else sorted(int(v) for v in np.atleast_1d(s))


def soma_spec(x):
    """How the soma is stored: D = detection function, N = none, O:<id> = one fixed id, M:<ids> = several fixed ids."""
    s = x._soma
    if callable(s):
        return 'D'
    if s is None:
        return 'N'
    if navis.utils.is_iterable(s):
        return 'M:' + ','.join(str(int(v)) for v in s)
    return f'O:{int(s)}'


def thick_ids(x):
    """Node ids whose radius passes the default soma detection (radius × units ≥ 1 µm; no label column here)."""
    nd = x.nodes
    if 'radius' not in nd.columns:
        return []
    rad = nd.radius.values.astype(float)
    u = x.units
    try:
        if u.dimensionless or isinstance(u.magnitude, np.ndarray):
            big = rad >= 1
        else:
            big = rad * u.to('um').magnitude >= 1
    except Exception:
        big = rad >= 1
    big = big & ~np.isnan(rad)
    lab = getattr(x, 'soma_detection_label', None)
    if lab is not None and 'label' in nd.columns:      # SWC input: the label must match as well
        big = big & (np.asarray(nd.label.values).astype(str) == str(lab))
    return [int(i) for i in nd.node_id.values[big]]


# ------------------------------------------------------------------------------------------------
# operations
# ------------------------------------------------------------------------------------------------
def pick_op(r, x, stream='hist'):
    st = state(x)
    ids, pm = st['ids'], st['pm']
    nroots = sum(1 for p in pm.values() if p < 0)
    nonroot = [i for i in ids if pm[i] >= 0]
    soma = soma_list(x) or []
    if stream == 'soma':
        kinds = (['remove', 'prune_strahler', 'subset', 'setnodes', 'raa', 'resample', 'ds', 'cutd', 'cutp', 'prune_twigs'] * 3
                 + ['longest', 'cbf', 'reroot', 'heal', 'copy', 'pickle', 'mul', 'div', 'merge_dups', 'stitch', 'reinit', 'setsoma',
                    'split_frag', 'fragments', 'drop_fluff', 'prune_depth', 'smooth', 'insert', 'nl_map', 'cutmany'])
    elif stream == 'resample':
        kinds = ['resample'] * 6 + ['reroot', 'remove', 'subset', 'insert', 'ds', 'cutd', 'stitch', 'heal', 'merge_dups']
    else:
        kinds = list(MODELLED) * 2 + WATCHED
    k = r.choice(kinds)
    if k == 'subset':
        keep = [i for i in ids if r.random() < r.choice([0.5, 0.8, 0.95])]
        if stream == 'soma' and len(soma) > 1 and r.random() < 0.7:   # drop one soma node but not all
            d = r.choice(soma)
            keep = [i for i in ids if i != d and (i in soma or r.random() < 0.9)]
        return dict(op=k, keep=keep or ids[:1])
    if k == 'subset_opts':
        keep = [i for i in ids if r.random() < 0.8] or ids[:1]
        return dict(op=k, keep=keep, how=r.choice(['mask', 'graph', 'array', 'set']), prevent_fragments=r.random() < 0.3,
                    keep_disc_cn=r.random() < 0.5)
    if k == 'reroot':
        if soma and r.random() < 0.4:
            return dict(op=k, r=r.choice(soma))
        return dict(op=k, r=r.choice(ids))
    if k == 'rerootmany':
        return dict(op=k, rs=[r.choice(ids) for _ in range(r.randint(2, 4))])
    if k in ('cutd', 'cutp'):
        if nroots != 1 or not nonroot:
            return dict(op='reroot', r=r.choice(ids))
        return dict(op=k, c=r.choice(nonroot))
    if k == 'cutmany':
        if not nonroot:
            return dict(op='classify')
        return dict(op=k, cs=r.sample(nonroot, min(len(nonroot), r.randint(1, 3))), pick=r.randrange(10 ** 6))
    if k == 'remove':
        if len(ids) <= 1:
            return dict(op='classify')
        w = [i for i in ids if r.random() < 0.2]
        if stream == 'soma' and len(soma) > 1 and r.random() < 0.8:
            w = [r.choice(soma)] + [i for i in ids if i not in soma and r.random() < 0.1]
        r.shuffle(w)
        if len(w) >= len(ids):
            w = w[:-1]
        return dict(op=k, which=w or ids[-1:])
    if k == 'setnodes':
        keep = [i for i in ids if r.random() < 0.85]
        if len(soma) > 1 and r.random() < 0.8:
            d = r.choice(soma)
            keep = [i for i in ids if i != d and (i in soma or r.random() < 0.9)]
        return dict(op=k, keep=keep or ids[:1], shuffle=r.randrange(10 ** 6))
    if k == 'setsoma':
        return dict(op=k, v=r.choice(ids + [None]))
    if k == 'ds':
        return dict(op=k, f=r.choice([2, 2, 3, 5, 1.5, 'inf']), pres=[i for i in ids if r.random() < 0.15])
    if k == 'prune_twigs':
        return dict(op=k, size=r.choice([1, 3, 5, 9, 20, '4 nm']), recursive=r.choice([False, True, 2]), exact=r.random() < 0.3,
                    mask=([i for i in ids if r.random() < 0.5] if r.random() < 0.25 else None))
    if k == 'prune_strahler':
        return dict(op=k, to_prune=r.choice([1, [1, 2], -1, 2, [3, 4], 'range12', 'slice1']), reroot_soma=r.random() < 0.5,
                    relocate=r.random() < 0.3, force=r.random() < 0.3)
    if k == 'prune_depth':
        return dict(op=k, depth=r.choice([2, 5, 9, 20, '6 nm']), source=r.choice(ids + [None]))
    if k == 'longest':
        return dict(op=k, n=r.choice([1, 2, 3, 'slice1']), inverse=r.random() < 0.3, reroot_soma=r.random() < 0.4,
                    from_root=r.random() < 0.7)
    if k == 'heal':
        return dict(op=k, method=r.choice(['ALL', 'LEAFS']), max_dist=r.choice([None, None, 6, 30, '10 nm']),
                    min_size=r.choice([None, None, 2, 4]), drop_disc=r.random() < 0.25,
                    mask=([i for i in ids if r.random() < 0.7] if r.random() < 0.2 else None))
    if k == 'resample':
        res = r.choice([1, 2, 4, 7, '3 nm'])
        try:    # keep the result small: at most ~300 new nodes
            cable, num = float(x.cable_length), float(x.map_units(res, on_error='raise'))
            if not (cable / num <= 300):
                res = max(1, int(cable / 200))
        except Exception:
            res = 4
        o = dict(op=k, res=res)
        if stream == 'resample' or r.random() < 0.5:
            o.update(method=r.choice(METHODS), skip_errors=r.random() < 0.8)
        return o
    if k == 'raa':
        return dict(op=k, interval=r.choice([2, 4, 8]), axis=r.choice([0, 1, 2]), old_nodes=r.choice(['remove', 'keep', 'snap']))
    if k == 'insert':
        if not nonroot:
            return dict(op='classify')
        ch = r.sample(nonroot, min(len(nonroot), r.randint(1, 3)))
        return dict(op=k, where=[[pm[c], c] if r.random() < 0.8 else [c, pm[c]] for c in ch], coords=r.random() < 0.3)
    if k in ('mul', 'div'):
        return dict(op=k, k=r.choice([2, 0.5, 4, [2, 2, 2, 2], [1, 2, 4, 1]]))
    if k in ('add', 'sub'):
        return dict(op=k, k=r.choice([1, -3, 16, [1, 2, 3]]))
    if k in ('stitch', 'combine'):
        return dict(op=k, seed=r.randrange(10 ** 6), method=r.choice(['LEAFS', 'ALL', 'NONE']))
    if k == 'rewire':
        return dict(op=k, drop=r.choice(nonroot) if nonroot else None, root=r.choice([None, None] + ids))
    if k == 'smooth':
        return dict(op=k, window=r.choice([2, 3, 5]), to_smooth=r.choice([['x', 'y', 'z'], ['radius'], ['x', 'radius']]))
    if k == 'despike':
        return dict(op=k, sigma=r.choice([1, 3, 5]), max_spike_length=r.choice([1, 2, 3]), reverse=r.random() < 0.3)
    if k == 'guess_radius':
        return dict(op=k, method=r.choice(['linear', 'nearest', 'cubic']), limit=r.choice([None, 2]), smooth=r.random() < 0.5)
    if k == 'cbf':
        return dict(op=k, method=r.choice(['betweenness', 'longest_neurite']), reroot_soma=r.random() < 0.5, heal=r.random() < 0.5,
                    inverse=r.random() < 0.3)
    if k == 'drop_fluff':
        return dict(op=k, keep_size=r.choice([None, None, 2, 5]), n_largest=r.choice([None, None, 1, 2]))
    if k == 'merge_dups':
        return dict(op=k, round=r.choice([False, False, 1]))
    if k == 'average':
        return dict(op=k, seed=r.randrange(10 ** 6), limit=r.choice([10, 50, '20 nm']))
    if k == 'split_frag':
        return dict(op=k, n=r.choice([2, 3, 4]), min_size=r.choice([None, None, 3]), reroot_soma=r.random() < 0.3, pick=r.randrange(10 ** 6))
    if k == 'split_ad':
        return dict(op=k, metric=r.choice(['synapse_flow_centrality', 'bending_flow', 'segregation_index', 'flow_centrality']),
                    split=r.choice(['prepost', 'distance']), cellbodyfiber=r.choice([False, 'soma', 'root']),
                    reroot_soma=r.random() < 0.5, pick=r.randrange(10 ** 6))
    if k == 'fragments':
        return dict(op=k, seed=r.randrange(10 ** 6), min_size=r.choice([None, None, 2]))
    if k == 'nl_map':
        inner = pick_op(r, x, stream='hist')
        for _ in range(20):
            if inner['op'] in NL_OPS:
                break
            inner = pick_op(r, x, stream='hist')
        else:
            inner = dict(op='ds', f=2, pres=[])
        return dict(op=k, inner=inner, seed=r.randrange(10 ** 6))
    return dict(op=k, seed=r.randrange(10 ** 6))


_LAST = {}


def _strahler_arg(v):
    return range(1, 3) if v == 'range12' else slice(1, None) if v == 'slice1' else v


def _partner(rr, nmax=8):
    rows, _m = G.rand_forest(rr, nmax=nmax, labeling=rr.choice(['seq', 'seq', 'shuffled', 'zero']))
    return G.to_neuron(rows)


def apply_impl(x, op, inplace):
    """Apply `op` with the real navis. Returns the resulting neuron (x itself when inplace)."""
    k = op['op']
    kw = dict(inplace=inplace)

    def ret(y):
        return x if inplace else y
    if k == 'subset':
        return ret(navis.subset_neuron(x, op['keep'], **kw))
    if k == 'subset_opts':
        keep = op['keep']
        if op['how'] == 'mask':
            sub = x.nodes.node_id.isin(keep).values
        elif op['how'] == 'graph':
            sub = x.graph.subgraph(keep)
        elif op['how'] == 'array':
            sub = np.array(keep)
        else:
            sub = set(keep)
        return ret(navis.subset_neuron(x, sub, prevent_fragments=op['prevent_fragments'], keep_disc_cn=op['keep_disc_cn'], **kw))
    if k == 'reroot':
        return ret(navis.reroot_skeleton(x, op['r'], **kw))
    if k == 'rerootmany':
        return ret(navis.reroot_skeleton(x, op['rs'], **kw))
    if k == 'cutd':
        return ret(x.prune_proximal_to(op['c'], **kw))
    if k == 'cutp':
        return ret(x.prune_distal_to(op['c'], **kw))
    if k == 'cutmany':
        return navis.cut_skeleton(x, op['cs'])      # NeuronList; the caller checks every piece and picks one
    if k == 'remove':
        return ret(navis.remove_nodes(x, op['which'], **kw))
    if k == 'setnodes':
        df = navis.subset_neuron(x, op['keep']).nodes.copy()
        df = df.sample(frac=1, random_state=op['shuffle'] % (2 ** 31)).reset_index(drop=True)
        y = x if inplace else x.copy()
        _LAST['assigned'] = ' '.join(f'{int(i)}:{int(p)}:0:0:0' for i, p in zip(df.node_id.values, df.parent_id.values))
        y.nodes = df
        return y
    if k == 'setsoma':
        y = x if inplace else x.copy()
        y.soma = op['v']
        return y
    if k == 'ds':
        f = float('inf') if op['f'] == 'inf' else op['f']
        return ret(navis.downsample_neuron(x, f, preserve_nodes=op['pres'] or None, **kw))
    if k == 'classify':
        return ret(navis.graph.classify_nodes(x, **kw))
    if k == 'prune_twigs':
        return ret(navis.prune_twigs(x, size=op['size'], recursive=op['recursive'], exact=op['exact'],
                                     mask=(np.asarray(op['mask']) if op.get('mask') is not None else None), **kw))
    if k == 'prune_strahler':
        return ret(navis.prune_by_strahler(x, to_prune=_strahler_arg(op['to_prune']), reroot_soma=op.get('reroot_soma', True),
                                           relocate_connectors=op.get('relocate', False), force_strahler_update=op.get('force', False), **kw))
    if k == 'prune_depth':
        return ret(navis.prune_at_depth(x, depth=op['depth'], source=op['source'], **kw))
    if k == 'longest':
        n = slice(1, None) if op['n'] == 'slice1' else op['n']
        return ret(navis.longest_neurite(x, n=n, inverse=op['inverse'], reroot_soma=op.get('reroot_soma', False),
                                         from_root=op.get('from_root', True), **kw))
    if k == 'heal':
        return ret(navis.heal_skeleton(x, method=op['method'], max_dist=op['max_dist'], min_size=op.get('min_size'),
                                       drop_disc=op.get('drop_disc', False), mask=op.get('mask'), **kw))
    if k == 'resample':
        o = {kk: op[kk] for kk in ('method', 'skip_errors') if kk in op}
        return ret(navis.resample_skeleton(x, op['res'], **o, **kw))
    if k == 'raa':
        return ret(navis.resample_along_axis(x, op['interval'], axis=op['axis'], old_nodes=op['old_nodes'], **kw))
    if k == 'insert':
        coords = None
        if op.get('coords'):
            loc = x.nodes.set_index('node_id')[['x', 'y', 'z']]
            coords = [((loc.loc[a].values + loc.loc[b].values) / 2 + 1).tolist() for a, b in op['where']]
        return ret(navis.insert_nodes(x, op['where'], coords=coords, **kw))
    if k in ('mul', 'div', 'add', 'sub'):
        v = op['k']
        if inplace:
            if k == 'mul':
                x *= v
            elif k == 'div':
                x /= v
            elif k == 'add':
                x += v
            else:
                x -= v
            return x
        return x * v if k == 'mul' else x / v if k == 'div' else x + v if k == 'add' else x - v
    if k == 'copy':
        return x.copy(deepcopy=bool(op.get('seed', 0) % 2))
    if k == 'pickle':
        return pickle.loads(pickle.dumps(x))
    if k == 'smooth':
        return ret(navis.smooth_skeleton(x, window=op.get('window', 3), to_smooth=op.get('to_smooth', ['x', 'y', 'z']), **kw))
    if k == 'despike':
        return ret(navis.despike_skeleton(x, sigma=op.get('sigma', 3), max_spike_length=op.get('max_spike_length', 1),
                                          reverse=op.get('reverse', False), **kw))
    if k == 'guess_radius':
        if not x.has_connectors:
            return x
        return ret(navis.guess_radius(x, method=op['method'], limit=op['limit'], smooth=op['smooth'], **kw))
    if k in ('stitch', 'combine'):
        rr = random.Random(op['seed'])
        # 1–3 partners; labelings that clash with x and with each other (several neurons need fresh ids)
        others = [_partner(rr) for _ in range(rr.choice([1, 2, 2, 3]))]
        master = rr.choice(['SOMA', 'LARGEST', 'FIRST'])
        if k == 'combine':
            return navis.combine_neurons(x, *others)
        return navis.stitch_skeletons(x, *others, method=op['method'], master=master)
    if k == 'fragments':
        fr = navis.break_fragments(x, min_size=op.get('min_size'))
        return fr[random.Random(op['seed']).randrange(len(fr))] if len(fr) else x
    if k == 'rewire':
        g = x.graph.copy()
        if op.get('drop') is not None:
            par = next(g.successors(op['drop']), None)
            if par is not None:
                g.remove_edge(op['drop'], par)
        return ret(navis.rewire_skeleton(x, g, root=op.get('root'), **kw))
    if k == 'reinit':
        return navis.TreeNeuron(x)
    if k == 'cbf':
        if x.soma is None:
            return x
        return ret(navis.cell_body_fiber(x, method=op.get('method', 'betweenness'), reroot_soma=op.get('reroot_soma', False),
                                         heal=op.get('heal', True), inverse=op.get('inverse', False), **kw))
    if k == 'drop_fluff':
        return ret(navis.drop_fluff(x, keep_size=op.get('keep_size'), n_largest=op.get('n_largest'), **kw))
    if k == 'merge_dups':
        return ret(navis.graph.clinic.merge_duplicate_nodes(x, round=op['round'], **kw))
    if k == 'average':
        rr = random.Random(op['seed'])
        others = [x.copy() + rr.choice([1, 2, 4]) for _ in range(rr.choice([1, 2]))] + [_partner(rr, nmax=12)]
        return navis.average_skeletons(navis.NeuronList([x] + others), limit=op['limit'], base_neuron=0)
    if k == 'split_frag':
        return navis.split_into_fragments(x if inplace else x.copy(), n=op['n'], min_size=op['min_size'], reroot_soma=op['reroot_soma'])
    if k == 'split_ad':
        if not x.has_connectors:
            return x
        return navis.split_axon_dendrite(x, metric=op['metric'], split=op['split'], cellbodyfiber=op['cellbodyfiber'],
                                         reroot_soma=op['reroot_soma'])
    if k == 'nx_roundtrip':
        g = navis.neuron2nx(x)
        if op['seed'] % 3 == 0:
            g = g.to_undirected()
        if op['seed'] % 2:
            return navis.TreeNeuron(g, units=x.units)
        return navis.nx2neuron(g, root=int(x.nodes.node_id.values[op['seed'] % len(x.nodes)]) if op['seed'] % 5 else None, units=x.units)
    if k == 'edges_roundtrip':
        nd = x.nodes
        ix = {int(i): j for j, i in enumerate(nd.node_id.values)}
        edges = np.array([[ix[int(i)], ix[int(p)]] for i, p in zip(nd.node_id.values, nd.parent_id.values) if p >= 0], dtype=int).reshape(-1, 2)
        if len(edges) == 0:
            return x
        if op['seed'] % 2:
            return navis.TreeNeuron((nd[['x', 'y', 'z']].values, edges), units=x.units)
        return navis.edges2neuron(edges, nd[['x', 'y', 'z']].values, units=x.units)
    if k == 'swc_roundtrip':
        with tempfile.TemporaryDirectory() as d:
            p = os.path.join(d, 'n.swc')
            navis.write_swc(x, p)
            if op['seed'] % 2:
                return navis.TreeNeuron(p, units=x.units)
            return navis.read_swc(p)
    if k == 'nl_map':
        rr = random.Random(op['seed'])
        nl = navis.NeuronList([x, _partner(rr, nmax=10)])
        out = apply_impl(nl, dict(op['inner']), inplace)
        if inplace:
            return x
        return out[0] if isinstance(out, navis.NeuronList) else out
    raise KeyError(k)


def op_wire(op):
    k = op['op']
    if k == 'subset':
        return 'subset=' + ','.join(map(str, op['keep']))
    if k == 'reroot':
        return f"reroot={op['r']}"
    if k == 'cutd':
        return f"cutd={op['c']}"
    if k == 'cutp':
        return f"cutp={op['c']}"
    if k == 'remove':
        return 'remove=' + ','.join(map(str, op['which']))
    if k == 'ds':
        f = op['f'] if op['f'] == 'inf' else op['f'] // 1     # a finite fractional factor is rounded down before the walk (navis fix for C13)
        return f"ds={f if f == 'inf' else int(f)}=" + ','.join(map(str, op['pres']))
    if k == 'classify':
        return 'classify'


SIG_PRUNE_NAN = 'prune_twigs/exact=True+mask/new-tip-on-zero-length-edge/exact-tie/NaN-coordinates'
SIG_SWC32 = 'read_swc/default-precision=32/node-ids>=2**31/ids-wrap-negative'


def signature(op, pre=None, err=None):
    """Signatures of the recorded genuine defects (known_findings/C01.json): call site / failure kind / input class.  All three
    are repaired in navis (status `fixed`: nothing is suppressed); a failure carrying one of them means the defect is back."""
    k = op['op']
    inner = op.get('inner', {}) if k == 'nl_map' else op
    if inner.get('op') == 'prune_twigs' and inner.get('exact') and inner.get('mask') is not None and pre and pre.get('zero_edge'):
        return SIG_PRUNE_NAN
    if k.startswith('construct:swc') and pre and pre.get('big_ids') and pre.get('precision', 32) == 32:
        return SIG_SWC32
    return None


def has_zero_edge(x):
    nd = x.nodes
    loc = {int(i): (a, b, c) for i, a, b, c in zip(nd.node_id.values, nd.x.values, nd.y.values, nd.z.values)}
    return any(p >= 0 and loc.get(int(p)) == loc[int(i)] for i, p in zip(nd.node_id.values, nd.parent_id.values))


# ------------------------------------------------------------------------------------------------
# oracle
# ------------------------------------------------------------------------------------------------
def check_state(ctx, y, case, step, op, pre=None):
    """Property oracle on the implementation's table after `op` (never raises: a table that cannot even be read is a failure)."""
    try:
        return _check_state(ctx, y, case, step, op, pre)
    except Exception as e:
        if isinstance(e, (RuntimeError, AssertionError)) and 'driver' in str(e):
            raise
        ctx.oracle(False, f"after step {step} ({op['op']}): the node table left behind cannot be read "
                          f"({type(e).__name__}: {str(e)[:120]}; columns {list(getattr(y, '_nodes', pd.DataFrame()).columns)[:8]})", case,
                   signature=signature_unreadable(op, y))
        return False


SIG_REROOT_DTYPE = 'reroot_skeleton/inplace/node_id-int64+parent_id-int32/TypeError-leaves-node_id-as-index'


def signature_unreadable(op, y):
    """reroot_skeleton raised half-way (pandas 3 refuses int64 node ids in an int32 parent column) and left `node_id` as the index."""
    try:
        nd = y._nodes
        if ('node_id' not in nd.columns and nd.index.name == 'node_id' and str(nd.index.dtype) == 'int64'
                and str(nd.parent_id.dtype) == 'int32'):
            return SIG_REROOT_DTYPE
    except Exception:
        pass
    return None


def _check_state(ctx, y, case, step, op, pre=None):
    nd = y.nodes
    what = f"after step {step} ({op['op']})"
    sig = signature(op, pre)
    cols = [c for c in ('node_id', 'parent_id', 'x', 'y', 'z') if c in nd.columns]
    nan = bool(nd[cols].isnull().any().any()) or not bool(np.isfinite(nd[['x', 'y', 'z']].values.astype(float)).all())
    ctx.oracle(not nan, f'{what}: NaN in ids/parents/coordinates', case, signature=sig if sig == SIG_PRUNE_NAN else None)
    if nan:
        return False
    if sig == SIG_PRUNE_NAN:
        sig = None
    if len(nd) == 0:
        return True
    notype = 'type' not in nd.columns or bool(nd['type'].isnull().any())
    wire = G.wire_neuron(y)
    w = ctx.ask('f.wf ' + wire)
    ok1 = ctx.oracle(w.split()[0] == '1', f'{what}: node table is not a well-formed forest (duplicate id / dangling parent / cycle)', case, signature=sig)
    ok2 = ctx.oracle(w.split()[1] == '1' and not notype, f'{what}: root/end/branch/slab labels do not match the topology', case,
                     signature=sig or 'labels')
    # soma exists: the Lean checker `somaOKB` on the reported soma and the implementation's table
    try:
        s = y.soma
    except Exception as e:
        ctx.oracle(False, f'{what}: reading .soma raises {type(e).__name__}: {str(e)[:80]}', case, signature='soma-getter-raises')
        s = None
    if s is not None:
        ss = [int(v) for v in np.atleast_1d(s)]
        ans = ctx.ask('c01x.somaok ' + ','.join(map(str, ss)) + ' | ' + wire)
        ctx.oracle(ans == '1', f'{what}: reported soma {ss} is not a node of the skeleton', case, signature='soma-missing')
        ctx.count('soma_reported', 'one' if len(ss) == 1 else 'several')
    # roots / n_trees consistent
    nroots = int((nd.parent_id < 0).sum())
    ctx.oracle(y.n_trees == nroots, f'{what}: n_trees={y.n_trees} but {nroots} roots in the table', case)
    return ok1 and ok2


SOMA_FOREIGN = {'stitch', 'combine', 'average', 'nx_roundtrip', 'edges_roundtrip', 'swc_roundtrip', 'nl_map', 'setsoma', 'split_ad'}


def check_soma_model(ctx, pre_spec, pre_wire, pre_thick, y, case, step, op):
    """The reported soma vs the Lean soma bookkeeping (`stepSoma`) on the implementation's pre-state."""
    k = op['op']
    if k in SOMA_FOREIGN or len(y.nodes) == 0:
        return
    act = 'heal_drop' if k == 'heal' and op.get('drop_disc') else k     # the Lean side maps the name to the operation's soma treatment
    if k == 'cbf':
        # "If no branches, just return the neuron": decided after the optional healing, which can create but not remove branch points
        has_branch = ':b' in pre_wire
        several = sum(1 for tok in pre_wire.split() if int(tok.split(':')[1]) < 0) > 1
        if has_branch:
            act = 'cbf'
        elif not (several and op.get('heal', True)):
            act = 'classify'      # returned early: nothing but the copy
        else:
            return
    got = soma_list(y)
    post_thick = thick_ids(y)
    line = (f"c01x.soma {act} | {pre_spec} | {','.join(map(str, pre_thick))} | {','.join(map(str, post_thick))} | {pre_wire} | "
            f"{G.wire_neuron(y)}")
    model = ctx.ask(line)
    if k == 'resample':
        impl = 'N' if got is None else f'K:{len(np.atleast_1d(y.soma))}'
    else:
        impl = 'N' if got is None else ','.join(map(str, got))
    ctx.corr(impl, model, f"step {step} {k}: reported soma vs Lean stepSoma ({act}) on the implementation's pre-state (stored soma {pre_spec})", case)
    ctx.count('soma_model', f'{act}:{pre_spec[0]}')
    if model.startswith('ERR'):
        raise RuntimeError(f'soma model: {model} for {k}')


def check_piece_list(ctx, pieces, case, step, op, pre=None):
    ok = True
    for p in pieces:
        if len(p.nodes):
            ok = check_state(ctx, p, case, step, op, pre) and ok
    return ok


def run_history(ctx, case, x0=None):
    rows, ops_seed, nops = case['rows'], case['seed'], case['nops']
    stream = case.get('stream', 'hist')
    r = random.Random(ops_seed)
    with B.backend(case.get('backend', 'fastcore')):
        x = x0 if x0 is not None else to_neuron(rows, units=case.get('units', '1 nm'), radius_col=case.get('radius_col', True),
                                                connectors=case.get('connectors'))
        if case.get('soma'):
            x.soma = r.choice([rw['id'] for rw in rows])
        if case.get('soma_none'):
            x.soma = None
        if x0 is None and len(x.nodes) and not check_state(ctx, x, case, -1, dict(op='construct')):
            return
        _history(ctx, case, x, r, nops, stream)


def _history(ctx, case, x, r, nops, stream):
    ops_done = []
    given = case.get('ops')
    for step in range(nops if given is None else len(given)):
        if len(x.nodes) == 0:
            break
        if len(x.nodes) > 600:
            ctx.count('history_truncated', 'more than 600 nodes')
            break
        if given is not None:
            op = _resolve(given[step], x)
        elif step == 0 and case.get('first'):
            op = dict(case['first'])
        else:
            op = pick_op(r, x, stream)
        inplace = op.get('inplace', r.random() < 0.5)
        op = dict(op, inplace=inplace)
        pre_wire = G.wire_neuron(x)
        pre_soma = [] if x.soma is None else [int(v) for v in np.atleast_1d(x.soma)]
        pre_spec, pre_thick = soma_spec(x), thick_ids(x)
        pre = dict(zero_edge=has_zero_edge(x))
        pre_segs = None
        if op['op'] == 'resample':
            pre_segs = [[int(i) for i in s] for s in x.small_segments]
            pre_max = int(x.nodes.node_id.max())
        try:
            y = apply_impl(x, op, inplace)
            err = None
        except Exception as e:
            err = e
        ops_done.append(op)
        case['ops_done'] = ops_done
        ctx.count('op', op['op'])
        if op['op'] == 'nl_map':
            ctx.count('nl_map_inner', op['inner']['op'])
        if err is not None:
            ctx.count('op_error', f"{op['op']}:{type(err).__name__}")
            # an operation may refuse (raise); the neuron left behind must still be well-formed
            if len(x.nodes) and not check_state(ctx, x, case, step, op, pre):
                break       # the neuron left behind is broken (possibly a recorded defect): nothing more to learn from this history
            if ctx.has_new_failure():
                break
            continue
        if y is None:
            y = x
        if isinstance(y, navis.NeuronList):
            # several pieces: every piece must be well-formed; continue with one of them
            pieces = list(y)
            if op['op'] == 'cutmany' and pieces:
                model = ctx.ask(f"f.cutmany {','.join(map(str, op['cs']))} | {pre_wire}")
                ctx.corr(sorted(G.topo_neuron(p) for p in pieces), sorted(model.split(' || ')),
                         f"step {step} cut_skeleton at several nodes: pieces vs Lean cutMany on the implementation's pre-state", case)
            if not check_piece_list(ctx, pieces, case, step, op, pre):
                break
            pieces = [p for p in pieces if len(p.nodes)]
            if not pieces:
                break
            y = pieces[op.get('pick', 0) % len(pieces)]
            for p in pieces:
                if p is not y:
                    check_soma_model(ctx, pre_spec, pre_wire, pre_thick, p, case, step, op)
        if op['op'] == 'insert' and len(y.nodes):
            where = [(p, c) if _is_edge(pre_wire, c, p) else (c, p) for p, c in op['where']]   # navis flips (child, parent) pairs
            model = ctx.ask('f.insert ' + ','.join(f'{p}:{c}' for p, c in where) + f' | {pre_wire}')
            ctx.corr(G.topo_neuron(y), model, f"step {step} insert_nodes: node table vs Lean insertNodes on the implementation's pre-state", case)
        if op['op'] in MODELLED and len(y.nodes):
            mop = dict(op, pres=list(op['pres']) + pre_soma) if op['op'] == 'ds' else op
            model = ctx.ask(f"f.ops {op_wire(mop)} | {pre_wire}")
            ctx.corr(G.topo_neuron(y), model, f"step {step} {op['op']}: node table vs Lean applyOp on the implementation's pre-state", case)
        if op['op'] in TOUCH_OPS and len(y.nodes):
            model = ctx.ask(f'c01x.applyx touch | {pre_wire}')
            ctx.corr(G.topo_neuron(y), model, f"step {step} {op['op']}: ids / parents / labels vs Lean applyX touch (unchanged) on the "
                     "implementation's pre-state", case)
        if op['op'] == 'setnodes' and len(y.nodes):
            model = ctx.ask(f"c01x.applyx setnodes | {pre_wire} | {_LAST.get('assigned', '')}")
            ctx.corr(G.topo_neuron(y), model, f"step {step} x.nodes = df: node table vs Lean applyX setNodes (classify of the assigned table)", case)
        if op['op'] == 'resample' and len(y.nodes):
            check_resample_model(ctx, pre_wire, pre_segs, pre_max, y, case, step, op)
        if len(y.nodes):
            if not check_state(ctx, y, case, step, op, pre):
                break   # a (possibly known) defect corrupts the rest of this history
            check_soma_model(ctx, pre_spec, pre_wire, pre_thick, y, case, step, op)
        x = y
        if ctx.has_new_failure():
            break


def _resolve(op, x):
    """corpus placeholders: 'SOMA0' = a reported soma node that is not a branch point / root, 'ALLBUT_SOMA0' = every other id"""
    if op.get('which') == ['SOMA0'] or op.get('keep') == 'ALLBUT_SOMA0':
        soma = soma_list(x) or []
        types = dict(zip(x.nodes.node_id.values.tolist(), x.nodes['type'].astype(str).values))
        cand = [s for s in soma if types.get(s) in ('slab', 'end')] or soma or x.nodes.node_id.values.tolist()[:1]
        s0 = int(cand[0])
        if 'which' in op:
            return dict(op, which=[s0])
        return dict(op, keep=[int(i) for i in x.nodes.node_id.values if int(i) != s0])
    return op


def _is_edge(wire, child, parent):
    return any(tok.startswith(f'{child}:{parent}:') for tok in wire.split())


def check_resample_model(ctx, pre_wire, pre_segs, pre_max, y, case, step, op):
    """Structure of the resampled table vs Lean `resampleSkip`: per segment of the pre-state the implementation's
    outcome (collapsed / resampled with k fresh nodes / kept because interpolation failed) is read off the result,
    the Lean model rebuilds the whole table from those outcomes and the implementation's segment order."""
    nd = y.nodes
    pm = {int(i): int(p) for i, p in zip(nd.node_id.values, nd.parent_id.values)}
    acts = []
    for s in pre_segs:
        if len(s) < 2:
            acts.append((s, 'c'))
            continue
        first, last = s[0], s[-1]
        p = pm.get(first)
        if p == last and len(s) == 2:
            acts.append((s, 'c'))      # indistinguishable from keep / resample-to-2 for a single edge
        elif p == last:
            acts.append((s, 'c'))
        elif p is not None and p > pre_max:
            # count the fresh chain
            n, q = 0, p
            while q > pre_max and q in pm:
                n += 1
                q = pm[q]
            acts.append((s, f'r{n}'))
        elif p == s[1]:
            acts.append((s, 'k'))
        else:
            acts.append((s, '?'))
    if any(a == '?' for _, a in acts):
        ctx.corr('unreadable', 'readable', f"step {step} resample_skeleton: a segment's outcome cannot be read off the result "
                 "(first node's parent is neither the last node, nor a fresh id, nor its old parent)", case)
        return
    # a segment resampled to ≤ 2 positions leaves the same row as a collapsed one but advances the id counter by 2: infer
    # how many of the undetermined segments before each fresh chain did so from the first fresh id of that chain
    base, pending = pre_max + 1, []
    for ix, (s, a) in enumerate(acts):
        if a == 'c':
            pending.append(ix)
        elif a.startswith('r'):
            first_fresh = pm[s[0]]
            gap = first_fresh - base
            if gap < 0 or gap % 2 or gap // 2 > len(pending):
                ctx.corr(f'first fresh id {first_fresh}', f'counter {base} + 2·j, j ≤ {len(pending)}',
                         f"step {step} resample_skeleton: fresh ids are not handed out consecutively from max(node_id) + 1", case)
                return
            for jx in pending[:gap // 2]:
                acts[jx] = (acts[jx][0], 'r0')
            pending = []
            base = first_fresh + int(a[1:]) + 2
    payload = ';'.join(','.join(map(str, s)) + '=' + a for s, a in acts)
    model = ctx.ask(f'c01x.resample {payload} | {pre_wire}')
    ctx.corr(G.topo_neuron(y), model, f"step {step} resample_skeleton({op.get('method', 'linear')}): node table vs Lean resampleSkip "
             "on the implementation's pre-state and segment order", case)
    for _, a in acts:
        ctx.count('resample_segment', a[0])


# ------------------------------------------------------------------------------------------------
# streams
# ------------------------------------------------------------------------------------------------
def y_shape(r, zero_p=0.25):
    """A trunk and 2–3 arms, each ≥ 4 nodes, with coincident consecutive nodes inside the chains."""
    rows = []
    nid = [0]

    def chain(parent, origin, n):
        pos = list(origin)
        last = parent
        for _ in range(n):
            nid[0] += 1
            if r.random() >= zero_p:
                v, _l = G.rand_vec(r)
                pos = [pos[k] + v[k] for k in range(3)]
            rows.append(dict(id=nid[0], parent=last, x=pos[0], y=pos[1], z=pos[2]))
            last = nid[0]
        return last, pos
    tip, pos = chain(-1, [r.randint(0, 40) * 4 for _ in range(3)], r.randint(3, 7))
    forks = [(tip, pos)]
    for _ in range(r.randint(2, 4)):
        b, bp = r.choice(forks)
        t2, p2 = chain(b, bp, r.randint(2, 7))
        if r.random() < 0.4:
            forks.append((t2, p2))
    return rows


def relabel(r, rows, labeling, order):
    ids = [rw['id'] for rw in rows]
    n = len(ids)
    if labeling == 'seq':
        new = list(range(1, n + 1))
    elif labeling == 'shuffled':
        new = list(range(1, n + 1)); r.shuffle(new)
    elif labeling == 'sparse':
        new = r.sample(range(1, 20 * n + 10), n)
    elif labeling == 'zero':
        new = list(range(0, n)); r.shuffle(new)
    elif labeling == 'large':
        base = r.choice([2 ** 31 - n - 5, 2 ** 31 + 7, 2 ** 32 + 11, 2 ** 40])
        new = [base + i for i in range(n)]; r.shuffle(new)
    else:
        new = list(range(n, 0, -1))
    m = dict(zip(ids, new))
    out = [dict(rw, id=m[rw['id']], parent=m.get(rw['parent'], -1)) for rw in rows]
    if order == 'reversed':
        out = out[::-1]
    elif order == 'shuffled':
        r.shuffle(out)
    return out


def corpus():
    """Hand-written cases run first on every run: the inputs of the three repaired defects (regression guard) and the inputs two seeded
    changes needed (so that their detection does not depend on the PRNG seed)."""
    def chain(coords, ids=None, r=None):
        ids = ids or list(range(1, len(coords) + 1))
        return [dict(id=i, parent=(ids[k - 1] if k else -1), x=c[0], y=c[1], z=c[2], **({'r': r[k]} if r else {}))
                for k, (i, c) in enumerate(zip(ids, coords))]
    meta = dict(shape='corpus', labeling='seq', order='parent_first')
    # 1. prune_twigs(exact, mask): new tip on a zero-length edge, exact tie -> NaN coordinates (repaired)
    yield dict(stream='hist', rows=chain([(0, 0, 0), (10, 0, 0), (10, 0, 0), (12, 0, 0), (15, 0, 0)]), seed=1, nops=1, meta=dict(meta, n=5),
               ops=[dict(op='prune_twigs', size=5, recursive=False, exact=True, mask=[3, 4, 5], inplace=False)])
    # 2. read_swc, default precision, ids >= 2**31 (ids were wrapped to int32; repaired: widened)
    big = 2 ** 31 + 7
    yield dict(stream='construct', rows=chain([(0, 0, 0), (1, 0, 0), (2, 0, 0)], ids=[big, big + 1, big + 2]), how='swc_text', seed=3, nops=0,
               meta=dict(meta, n=3, labeling='large'), precision_force=32)
    # 3. read_swc (int32 ids) -> smooth_skeleton (node_id becomes int64) -> reroot in place (raised half-way; repaired)
    yield dict(stream='hist', rows=chain([(0, 0, 0), (3, 0, 0), (6, 0, 0), (6, 4, 0)]), seed=2, nops=3, meta=dict(meta, n=4),
               ops=[dict(op='swc_roundtrip', seed=2, inplace=False), dict(op='smooth', window=3, to_smooth=['x', 'y', 'z'], inplace=False),
                    dict(op='reroot', r=3, inplace=True)])
    # 4. a trunk and two arms, children listed before parents, one coincident node pair inside an arm; every spline kind
    rows = []
    for i in range(1, 7):
        rows.append(dict(id=i, parent=i - 1 if i > 1 else -1, x=i * 10, y=0, z=0))
    for j, i in enumerate(range(7, 13)):
        rows.append(dict(id=i, parent=i - 1 if i > 7 else 6, x=60 + (j + 1) * 10, y=(j + 1) * 10, z=0))
    for j, i in enumerate(range(13, 19)):
        rows.append(dict(id=i, parent=i - 1 if i > 13 else 6, x=60 + (j + 1) * 10, y=-(j + 1) * 10, z=0))
    rows[14] = dict(rows[14], x=rows[13]['x'], y=rows[13]['y'])      # node 15 sits on node 14
    for method in ('cubic', 'quadratic', 'slinear', 'zero'):
        for order in (rows[::-1], rows):
            yield dict(stream='resample', rows=[dict(rw) for rw in order], seed=4, nops=1,
                       meta=dict(meta, n=18, shape='corpus-y', order='reversed' if order is not rows else 'parent_first'),
                       ops=[dict(op='resample', res=4, method=method, skip_errors=True, inplace=False)])
    # 4b. ids that do not fit a float64 (odd ids above 2**53) through the operations that rebuild the parent column from a
    #     graph (heal / rewire go through rewire_skeleton): a detour through a float column loses the low bits of the parents
    for off in (2 ** 53, 2 ** 60):
        ids = [off + 2 * k + 1 for k in range(9)]
        two = [dict(id=ids[k], parent=(ids[k - 1] if k not in (0, 5) else -1), x=(k if k < 5 else k), y=0, z=0) for k in range(9)]
        yield dict(stream='hist', rows=two, seed=6, nops=1, meta=dict(meta, n=9, labeling='huge', shape='corpus-two-chains'),
                   ops=[dict(op='heal', method='ALL', max_dist=None, min_size=None, drop_disc=False, mask=None, inplace=False)])
    # 5. two thick nodes -> resample (pins the somas) -> every node-dropping operation that does not go through subset_neuron
    base = [dict(id=i, parent=i + 1 if i < 20 else -1, x=i * 10, y=0, z=0, r=0.1) for i in range(1, 21)]
    base += [dict(id=i, parent=(i - 1 if i > 21 else 8), x=80, y=(j + 1) * 10, z=0, r=0.1) for j, i in enumerate(range(21, 27))]
    for rw in base:
        if rw['id'] in (7, 8):
            rw['r'] = 5.0
    drops = [dict(op='remove', which=['SOMA0']), dict(op='prune_strahler', to_prune=1, reroot_soma=False, relocate=False, force=False),
             dict(op='setnodes', keep='ALLBUT_SOMA0', shuffle=5), dict(op='subset', keep='ALLBUT_SOMA0'),
             dict(op='raa', interval=7, axis=0, old_nodes='remove')]
    for d in drops:
        yield dict(stream='soma', rows=[dict(rw) for rw in base], units='1 micron', seed=5, nops=2, meta=dict(meta, n=26, shape='corpus-soma'),
                   ops=[dict(op='resample', res=5, inplace=False), dict(d, inplace=False)])


def gen_cases(ctx):
    r = ctx.rng
    q = ctx.quick()
    yield from corpus()
    # 1. mixed histories over the shared generator, three back-ends
    for k in range(ctx.budget(110, 900)):
        rows, meta = G.rand_forest(r, nmax=12 if k % 2 else 30, allow_zero_edges=(k % 5 == 0))
        if k % 7 == 3:
            for rw in rows:
                if r.random() < 0.3:
                    rw['r'] = r.choice([None, -1, 0])
        c = dict(stream='hist', rows=rows, seed=r.randrange(10 ** 9), nops=r.randint(3, 12 if q else 30), soma=(k % 4 == 0), meta=meta,
                 backend=['fastcore', 'fastcore', 'igraph', 'networkx'][k % 4] if k % 3 == 0 else 'fastcore',
                 radius_col=(k % 11 != 5))
        if k % 3 == 1:
            c['connectors'] = rand_connectors(r, rows)
        yield c
    # 2. resampling: every interpolation kind, coincident nodes, every row order
    for k in range(ctx.budget(70, 450)):
        lab, order = G.LABELINGS[k % len(G.LABELINGS)], G.ORDERS[(k // 2) % 3]
        if k % 3:
            rows = relabel(r, y_shape(r, zero_p=r.choice([0.1, 0.25, 0.4])), lab, order)
            meta = dict(shape='y', n=len(rows), labeling=lab, order=order)
        else:
            rows, meta = G.rand_forest(r, nmax=24, allow_zero_edges=True, labeling=lab, order=order)
        yield dict(stream='resample', rows=rows, seed=r.randrange(10 ** 9), nops=r.randint(1, 5), meta=meta,
                   backend=['fastcore', 'fastcore', 'igraph', 'networkx'][k % 4] if k % 5 == 0 else 'fastcore')
    # 3. several thick nodes: detected / fixed / pinned somas through resampling and node-dropping operations
    for k in range(ctx.budget(70, 450)):
        lab, order = G.LABELINGS[(k // 3) % len(G.LABELINGS)], G.ORDERS[k % 3]
        rows, meta = G.rand_forest(r, n=r.randint(6, 26), shape=r.choice(['random', 'caterpillar', 'broom', 'balanced', 'forest', 'broot', 'chain']),
                                   labeling=lab, order=order)
        units, thick = r.choice([('1 micron', 5.0), ('1 nm', 2000.0), ('8 nm', 500.0), ('1 dimensionless', 3.0)])
        for rw in r.sample(rows, min(len(rows), r.choice([2, 2, 3, 4]))):
            rw['r'] = thick
        first = r.choice([None, dict(op='resample', res=r.choice([2, 4, 7])), dict(op='resample', res=r.choice([2, 4, 7])),
                          dict(op='resample', res=3, method=r.choice(METHODS))])
        yield dict(stream='soma', rows=rows, units=units, seed=r.randrange(10 ** 9), nops=r.randint(2, 7), meta=meta, first=first,
                   soma=(k % 5 == 0), soma_none=(k % 11 == 7),
                   backend=['fastcore', 'igraph', 'networkx'][k % 3] if k % 4 == 0 else 'fastcore')
    # 4. construction
    for k in range(ctx.budget(50, 300)):
        rows, meta = G.rand_forest(r, nmax=20, allow_zero_edges=(k % 4 == 0))
        yield dict(stream='construct', rows=rows, how=CONSTRUCT[k % len(CONSTRUCT)], seed=r.randrange(10 ** 9), nops=r.randint(0, 4), meta=meta)
    # 5. mesh → skeleton
    for k in range(ctx.budget(3, 12)):
        rows, meta = G.rand_forest(r, n=r.randint(4, 10), shape=r.choice(['chain', 'random', 'broom']), labeling='seq', order='parent_first')
        yield dict(stream='construct', rows=rows, how='mesh', seed=r.randrange(10 ** 9), nops=2, meta=meta)


CONSTRUCT = ['df_alias', 'df_dtypes', 'nx_digraph', 'nx_graph', 'nx_root', 'edges', 'tuple', 'swc_text', 'swc_file', 'series', 'reinit', 'nx_handmade']


def construct(case):
    """Build a TreeNeuron from `rows` through one of navis' construction paths.  Returns (neuron, expectation) where the
    expectation says what the constructed topology must be: ('same', wire) = this parent map; ('edges', n, uedges) = this
    undirected edge set on n nodes (orientation chosen by navis); None = only the oracle applies."""
    rows, how = case['rows'], case['how']
    rr = random.Random(case['seed'])
    df = G.rows_to_df(rows)
    ids = [rw['id'] for rw in rows]
    und = sorted(tuple(sorted((rw['id'], rw['parent']))) for rw in rows if rw['parent'] >= 0)
    if how == 'df_alias':
        alias = rr.choice([dict(node_id='treenode_id', parent_id='parent', x='X', y='Y', z='Z', radius='W'),
                           dict(node_id='PointNo', parent_id='Parent'), dict(node_id='rowId', parent_id='link'), dict(node_id='node')])
        d2 = df.rename(columns=alias)
        if rr.random() < 0.4:
            d2 = d2.drop(columns=[c for c in ('radius', 'W') if c in d2.columns])
        return navis.TreeNeuron(d2, units='1 nm'), ('same', G.wire_rows(rows))
    if how == 'df_dtypes':
        d2 = df.copy()
        kind = rr.choice(['int32', 'object', 'uint64', 'float_xyz32', 'index'])
        big = max(ids) >= 2 ** 31 - 1
        if kind == 'int32' and not big:
            d2['node_id'] = d2.node_id.astype(np.int32); d2['parent_id'] = d2.parent_id.astype(np.int32)
        elif kind == 'object':
            d2['node_id'] = d2.node_id.astype(object); d2['parent_id'] = d2.parent_id.astype(object)
        elif kind == 'float_xyz32':
            for c in 'xyz':
                d2[c] = d2[c].astype(np.float32)
        elif kind == 'index':
            d2.index = np.arange(len(d2))[::-1] * 3 + 7
        return navis.TreeNeuron(d2, units='1 nm'), ('same', G.wire_rows(rows))
    if how in ('nx_digraph', 'nx_graph', 'nx_root', 'nx_handmade'):
        g = nx.DiGraph() if how != 'nx_graph' else nx.Graph()
        order = list(rows)
        rr.shuffle(order)
        for rw in order:
            g.add_node(rw['id'], x=float(rw['x']), y=float(rw['y']), z=float(rw['z']), radius=0.01)
        for rw in order:
            if rw['parent'] >= 0:
                if how == 'nx_handmade' and rr.random() < 0.5:
                    g.add_edge(rw['parent'], rw['id'])      # edges pointing away from the root
                else:
                    g.add_edge(rw['id'], rw['parent'])
        root = None
        if how == 'nx_root':
            root = rr.choice(ids)
            x = navis.nx2neuron(g, root=root, units='1 nm')
        elif rr.random() < 0.5:
            x = navis.TreeNeuron(g, units='1 nm')
        else:
            x = navis.nx2neuron(g, units='1 nm')
        return x, ('edges', [rw['id'] for rw in order], und, root)
    if how in ('edges', 'tuple'):
        ix = {rw['id']: j for j, rw in enumerate(rows)}
        edges = [[ix[rw['id']], ix[rw['parent']]] if rr.random() < 0.5 else [ix[rw['parent']], ix[rw['id']]] for rw in rows if rw['parent'] >= 0]
        rr.shuffle(edges)
        verts = np.array([[rw['x'], rw['y'], rw['z']] for rw in rows], dtype=float)
        if not edges:
            return None, None
        e = np.array(edges, dtype=int)
        x = navis.TreeNeuron((verts, e), units='1 nm') if how == 'tuple' else navis.edges2neuron(e, verts, units='1 nm')
        und2 = sorted(tuple(sorted(p)) for p in edges)
        return x, ('edges', list(range(len(rows))), und2, None)
    if how in ('swc_text', 'swc_file'):
        # hand-written SWC text in the table's own row order (ids as they are, parents possibly after children)
        lines = ['# generated'] + [f"{rw['id']} 0 {rw['x']} {rw['y']} {rw['z']} 0.5 {rw['parent']}" for rw in rows]
        txt = '\n'.join(lines) + '\n'
        prec = case.get('precision_force', rr.choice([32, 64, None]))
        case['precision'] = prec
        if how == 'swc_text':
            x = navis.read_swc(txt, precision=prec)
        else:
            with tempfile.TemporaryDirectory() as d:
                p = os.path.join(d, 'n.swc')
                open(p, 'w').write(txt)
                if prec == 32 and rr.random() < 0.5:
                    x = navis.TreeNeuron(p)
                else:
                    x = navis.read_swc(p, precision=prec)
        return x, ('same', G.wire_rows(rows))
    if how == 'series':
        return navis.TreeNeuron(pd.Series(dict(nodes=df, name='s')), units='1 nm'), ('same', G.wire_rows(rows))
    if how == 'reinit':
        return navis.TreeNeuron(G.to_neuron(rows)), ('same', G.wire_rows(rows))
    if how == 'mesh':
        x = G.to_neuron(rows) * 50
        m = navis.conversion.tree2meshneuron(x, tube_points=6, radius_scale_factor=300)
        method = rr.choice(['wavefront', 'vertex_clusters'])
        kw = dict(waves=1) if method == 'wavefront' else dict(sampling_dist=40)
        return navis.skeletonize(m, method=method, **kw), None
    raise KeyError(how)


def run_construct(ctx, case):
    ctx.count('construct', case['how'])
    try:
        x, exp = construct(case)
    except Exception as e:
        ctx.count('op_error', f"construct/{case['how']}:{type(e).__name__}")
        return
    if x is None or len(x.nodes) == 0:
        return
    if isinstance(x, navis.NeuronList):
        x = x[0]
    step0 = dict(op='construct:' + case['how'])
    pre = dict(big_ids=max(rw['id'] for rw in case['rows']) >= 2 ** 31 - 1, precision=case.get('precision', 32))
    if exp is not None and exp[0] == 'same':
        model = ctx.ask('f.classify ' + exp[1])
        ctx.corr(G.topo_neuron(x), model, f"construction ({case['how']}): node table vs Lean classify of the input table", case)
    elif exp is not None and exp[0] == 'edges':
        _, order, und, root = exp
        pm = state(x)['pm']
        got = sorted(tuple(sorted((i, p))) for i, p in pm.items() if p >= 0)
        # navis is free to pick the root of each tree unless `root` is given: the model re-derives the parents from the edge
        # list by traversal (`fromEdges`), rooted where navis rooted each tree
        roots = [i for i in x.nodes.node_id.values.tolist() if pm[int(i)] < 0]
        if root is not None and len(roots) == 1:
            # (nx2neuron ignores `root=0`: `if not root` — not a matter of well-formedness, only counted)
            ctx.count('nx2neuron_root_honoured', str(roots == [root]) + ('/root=0' if root == 0 else ''))
        model = ctx.ask(f"c01x.fromedges {','.join(map(str, order))} | {';'.join(f'{a},{b}' for a, b in und)} | {','.join(map(str, roots))}")
        ctx.corr(G.topo_neuron(x), model, f"construction ({case['how']}): node table vs Lean fromEdges (edge list + the roots navis chose)", case)
        ctx.corr(got, [tuple(e) for e in und], f"construction ({case['how']}): undirected edges differ from the input's", case)
    if not check_state(ctx, x, case, -1, step0, pre):
        return
    r = random.Random(case['seed'] + 1)
    _history(ctx, case, x, r, case['nops'], 'hist')


def run_soma_case(ctx, case):
    """thick nodes → (optional resample, `first`) → node-dropping operations; one history, one op list."""
    r = random.Random(case['seed'])
    with B.backend(case.get('backend', 'fastcore')):
        x = to_neuron(case['rows'], units=case.get('units', '1 nm'))
        if case.get('soma'):
            x.soma = r.choice(thick_ids(x) or [case['rows'][0]['id']])
        if case.get('soma_none'):
            x.soma = None
        ctx.count('soma_initial', soma_spec(x)[0] + str(min(len(soma_list(x) or []), 3)))
        if not check_state(ctx, x, case, -1, dict(op='construct')):
            return
        _history(ctx, case, x, r, case['nops'] + (1 if case.get('first') else 0), 'soma')


def run(ctx):
    ctx.extra['rule'] = ('a case = (generated forest or construction input, seeded operation history of 1–12 (quick) / 1–30 (thorough) steps '
                         f'drawn from {len(MODELLED)} + {len(MODELLED_EXT)} modelled and {len(WATCHED)} watched operations with their options, '
                         'in place or on copies, on one of three back-ends); non-trivial when ≥ 3 nodes')
    ctx.extra['ops_modelled'] = MODELLED + MODELLED_EXT
    ctx.extra['ops_watched_by_oracle_only'] = [w for w in WATCHED if w not in MODELLED_EXT]
    ctx.extra['streams'] = ['hist', 'resample', 'soma', 'construct']
    for case in gen_cases(ctx):
        ctx.case({k: v for k, v in case.items()}, nontrivial=len(case['rows']) >= 3)
        m = case['meta']
        ctx.count('stream', case['stream'])
        ctx.count('shape', m['shape']); ctx.count('labeling', m['labeling']); ctx.count('order', m['order'])
        ctx.count('backend', case.get('backend', 'fastcore'))
        dispatch(ctx, case)


def dispatch(ctx, case):
    s = case.get('stream', 'hist')
    if s == 'construct':
        run_construct(ctx, case)
    elif s == 'soma':
        run_soma_case(ctx, case)
    else:
        run_history(ctx, case)


def replay(ctx, rp):
    case = rp['case']
    c = dict(case)
    if 'ops_done' in c:
        c['ops'] = c.pop('ops_done')
        c.pop('first', None)
    ctx.case(case)
    dispatch(ctx, c)


def shrink(ctx, f):
    """Drop operations from the front/back while the same failure persists."""
    case = dict(f['case'])
    ops = case.get('ops_done')
    if not ops or case.get('stream') == 'construct':
        return f
    best = f
    sub = C_sub(ctx)
    i = 0
    while i < len(ops) - 1:
        trial = ops[:i] + ops[i + 1:]
        c2 = dict(case, ops=trial)
        c2.pop('ops_done', None)
        c2.pop('first', None)
        sub.failures = []
        try:
            dispatch(sub, c2)
        except Exception:
            sub.failures = []
        same = [x for x in sub.failures if x['kind'] == f['kind'] and x['what'].split(':')[-1] == f['what'].split(':')[-1]]
        if same:
            ops = trial
            best = dict(same[0])
            best['case'] = dict(c2, ops_done=trial)
        else:
            i += 1
    return best


def C_sub(ctx):
    from .common import Ctx
    s = Ctx(ctx.prop, ctx.tier, ctx.seed)
    s.drv = ctx.drv
    s.known = []
    return s
