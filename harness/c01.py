"""C01 — every operation that yields a skeleton yields a well-formed skeleton.

Random operation histories on real TreeNeurons.  After every step (a) for operations the Lean model
covers, the implementation's node table is compared with `applyOp` evaluated on the implementation's
own pre-state; (b) for every operation (modelled or only watched) the Lean checkers `wfB` and
`labelsOKB` — proved sound in Props/C01.lean — are evaluated on the implementation's table, plus
no-NaN and soma-exists clauses."""
import pickle, warnings, random
import numpy as np
import pandas as pd

warnings.filterwarnings('ignore')
import navis
from . import gen as G

navis.config.pbar_hide = True
navis.set_loggers('ERROR')

MODELLED = ['subset', 'reroot', 'cutd', 'cutp', 'remove', 'ds', 'classify']
WATCHED = ['prune_twigs', 'prune_strahler', 'prune_depth', 'longest', 'heal', 'resample', 'insert',  # insert: also diffed against insertNodes
           'mul', 'add', 'copy', 'pickle',
           'smooth', 'despike', 'stitch', 'fragments', 'rewire', 'reinit', 'cbf', 'drop_fluff']


def state(x):
    nd = x.nodes
    return dict(ids=[int(i) for i in nd.node_id.values], pm={int(i): int(p) for i, p in zip(nd.node_id.values, nd.parent_id.values)})


def pick_op(r, x):
    st = state(x)
    ids, pm = st['ids'], st['pm']
    nroots = sum(1 for p in pm.values() if p < 0)
    nonroot = [i for i in ids if pm[i] >= 0]
    kinds = list(MODELLED) * 2 + WATCHED
    k = r.choice(kinds)
    if k == 'subset':
        keep = [i for i in ids if r.random() < r.choice([0.5, 0.8, 0.95])]
        return dict(op=k, keep=keep or ids[:1])
    if k == 'reroot':
        return dict(op=k, r=r.choice(ids))
    if k in ('cutd', 'cutp'):
        if nroots != 1 or not nonroot:
            return dict(op='reroot', r=r.choice(ids))
        return dict(op=k, c=r.choice(nonroot))
    if k == 'remove':
        w = [i for i in ids if r.random() < 0.2]
        if len(w) >= len(ids):
            w = w[:-1]
        return dict(op=k, which=w or ids[-1:]) if len(ids) > 1 else dict(op='classify')
    if k == 'ds':
        return dict(op=k, f=r.choice([1, 2, 2, 3, 5, 'inf']), pres=[i for i in ids if r.random() < 0.15])
    if k == 'prune_twigs':
        return dict(op=k, size=r.choice([1, 3, 5, 9, 20]), recursive=r.choice([False, True, 2]), exact=r.random() < 0.3)
    if k == 'prune_strahler':
        return dict(op=k, to_prune=r.choice([1, [1, 2], -1, 2, [3, 4]]))
    if k == 'prune_depth':
        return dict(op=k, depth=r.choice([2, 5, 9, 20]), source=r.choice(ids + [None]))
    if k == 'longest':
        return dict(op=k, n=r.choice([1, 2, 3]), inverse=r.random() < 0.3, reroot_soma=False)
    if k == 'heal':
        return dict(op=k, method=r.choice(['ALL', 'LEAFS']), max_dist=r.choice([None, None, 6, 30]))
    if k == 'resample':
        return dict(op=k, res=r.choice([1, 2, 4, 7]))
    if k == 'insert':
        if not nonroot:
            return dict(op='classify')
        ch = r.sample(nonroot, min(len(nonroot), r.randint(1, 3)))
        return dict(op=k, where=[[pm[c], c] for c in ch])
    if k == 'mul':
        return dict(op=k, k=r.choice([2, 0.5, 4]))
    if k == 'add':
        return dict(op=k, k=r.choice([1, -3, 16]))
    if k == 'stitch':
        return dict(op=k, seed=r.randrange(10 ** 6), method=r.choice(['LEAFS', 'ALL', 'NONE']))
    if k == 'rewire':
        return dict(op=k, drop=r.choice(nonroot) if nonroot else None)
    return dict(op=k, seed=r.randrange(10 ** 6))


def apply_impl(x, op, inplace):
    """Apply `op` with the real navis. Returns the resulting neuron (x itself when inplace)."""
    k = op['op']
    kw = dict(inplace=inplace)

    def ret(y):
        return x if inplace else y
    if k == 'subset':
        return ret(navis.subset_neuron(x, op['keep'], **kw))
    if k == 'reroot':
        return ret(navis.reroot_skeleton(x, op['r'], **kw))
    if k == 'cutd':
        return ret(x.prune_proximal_to(op['c'], **kw))
    if k == 'cutp':
        return ret(x.prune_distal_to(op['c'], **kw))
    if k == 'remove':
        return ret(navis.remove_nodes(x, op['which'], **kw))
    if k == 'ds':
        f = float('inf') if op['f'] == 'inf' else op['f']
        return ret(navis.downsample_neuron(x, f, preserve_nodes=op['pres'] or None, **kw))
    if k == 'classify':
        return ret(navis.graph.classify_nodes(x, **kw))
    if k == 'prune_twigs':
        return ret(navis.prune_twigs(x, size=op['size'], recursive=op['recursive'], exact=op['exact'], **kw))
    if k == 'prune_strahler':
        return ret(navis.prune_by_strahler(x, to_prune=op['to_prune'], **kw))
    if k == 'prune_depth':
        return ret(navis.prune_at_depth(x, depth=op['depth'], source=op['source'], **kw))
    if k == 'longest':
        return ret(navis.longest_neurite(x, n=op['n'], inverse=op['inverse'], reroot_soma=False, **kw))
    if k == 'heal':
        return ret(navis.heal_skeleton(x, method=op['method'], max_dist=op['max_dist'], **kw))
    if k == 'resample':
        return ret(navis.resample_skeleton(x, op['res'], **kw))
    if k == 'insert':
        return ret(navis.insert_nodes(x, op['where'], **kw))
    if k == 'mul':
        if inplace:
            x *= op['k']; return x
        return x * op['k']
    if k == 'add':
        if inplace:
            x += op['k']; return x
        return x + op['k']
    if k == 'copy':
        return x.copy()
    if k == 'pickle':
        return pickle.loads(pickle.dumps(x))
    if k == 'smooth':
        return ret(navis.smooth_skeleton(x, window=3, **kw))
    if k == 'despike':
        return ret(navis.despike_skeleton(x, sigma=3, **kw))
    if k == 'stitch':
        rr = random.Random(op['seed'])
        # 1–3 partners; labelings that clash with x and with each other (several neurons need fresh ids)
        others = []
        for _ in range(rr.choice([1, 2, 2, 3])):
            rows, _m = G.rand_forest(rr, nmax=8, labeling=rr.choice(['seq', 'seq', 'shuffled', 'zero']))
            others.append(G.to_neuron(rows))
        return navis.stitch_skeletons(x, *others, method=op['method'], master=rr.choice(['SOMA', 'LARGEST', 'FIRST']))
    if k == 'fragments':
        fr = navis.break_fragments(x)
        return fr[random.Random(op['seed']).randrange(len(fr))]
    if k == 'rewire':
        g = x.graph.copy()
        if op.get('drop') is not None:
            par = next(g.successors(op['drop']), None)
            if par is not None:
                g.remove_edge(op['drop'], par)
        return ret(navis.rewire_skeleton(x, g, **kw))
    if k == 'reinit':
        return navis.TreeNeuron(x)
    if k == 'cbf':
        return ret(navis.cell_body_fiber(x, reroot_soma=False, **kw)) if x.soma is not None else x
    if k == 'drop_fluff':
        return ret(navis.drop_fluff(x, **kw))
    raise KeyError(k)


def op_wire(op):
    k = op['op']
    if k == 'subset':
        return 'subset=' + ','.join(map(str, op['keep']))
    if k == 'reroot':
        return f"reroot={op['r']}"
    if k == 'cutd':
        return f"cutd={op['c']}"
    if k == 'cutp':
        return f"cutp={op['c']}"
    if k == 'remove':
        return 'remove=' + ','.join(map(str, op['which']))
    if k == 'ds':
        return f"ds={op['f']}=" + ','.join(map(str, op['pres']))
    if k == 'classify':
        return 'classify'


def signature(op, be, err=None):
    k = op['op']
    if k == 'insert':
        return 'insert_nodes/new-node-type-nan'
    return None


def check_state(ctx, y, case, step, op):
    """Property oracle on the implementation's table after `op`."""
    nd = y.nodes
    what = f"after step {step} ({op['op']})"
    sig = signature(op, None)
    cols = [c for c in ('node_id', 'parent_id', 'x', 'y', 'z') if c in nd.columns]
    nan = bool(nd[cols].isnull().any().any())
    ctx.oracle(not nan, f'{what}: NaN in ids/parents/coordinates', case, signature=sig)
    if nan:
        return False
    if len(nd) == 0:
        return True
    notype = 'type' not in nd.columns or bool(nd['type'].isnull().any())
    w = ctx.ask('f.wf ' + G.wire_neuron(y))
    ok1 = ctx.oracle(w.split()[0] == '1', f'{what}: node table is not a well-formed forest (duplicate id / dangling parent / cycle)', case, signature=sig)
    ok2 = ctx.oracle(w.split()[1] == '1' and not notype, f'{what}: root/end/branch/slab labels do not match the topology', case,
                     signature=sig or 'labels')
    # soma exists
    try:
        s = y.soma
    except Exception as e:
        ctx.oracle(False, f'{what}: reading .soma raises {type(e).__name__}: {str(e)[:80]}', case, signature='soma-getter-raises')
        s = None
    if s is not None:
        ss = [int(v) for v in np.atleast_1d(s)]
        ctx.oracle(all(v in set(nd.node_id.values.tolist()) for v in ss), f'{what}: reported soma {ss} is not a node of the skeleton', case,
                   signature='soma-missing')
    # roots / n_trees consistent
    nroots = int((nd.parent_id < 0).sum())
    ctx.oracle(y.n_trees == nroots, f'{what}: n_trees={y.n_trees} but {nroots} roots in the table', case)
    return ok1 and ok2


def run_history(ctx, case):
    rows, ops_seed, nops = case['rows'], case['seed'], case['nops']
    r = random.Random(ops_seed)
    x = G.to_neuron(rows)
    if case.get('soma'):
        x.soma = r.choice([rw['id'] for rw in rows])
    ops_done = []
    given = case.get('ops')
    for step in range(nops if given is None else len(given)):
        if len(x.nodes) == 0:
            break
        op = given[step] if given is not None else pick_op(r, x)
        inplace = op.get('inplace', r.random() < 0.5)
        op = dict(op, inplace=inplace)
        pre_wire = G.wire_neuron(x)
        pre_soma = [] if x.soma is None else [int(v) for v in np.atleast_1d(x.soma)]
        try:
            y = apply_impl(x, op, inplace)
            err = None
        except Exception as e:
            err = e
        ops_done.append(op)
        case['ops_done'] = ops_done
        ctx.count('op', op['op'])
        if err is not None:
            ctx.count('op_error', f"{op['op']}:{type(err).__name__}")
            # an operation may refuse (raise); the neuron left behind must still be well-formed
            if len(x.nodes):
                check_state(ctx, x, case, step, op)
            continue
        if y is None:
            y = x
        if op['op'] == 'insert' and len(y.nodes):
            model = ctx.ask('f.insert ' + ','.join(f'{p}:{c}' for p, c in op['where']) + f' | {pre_wire}')
            ctx.corr(G.topo_neuron(y), model, f"step {step} insert_nodes: node table vs Lean insertNodes on the implementation's pre-state", case)
        if op['op'] in MODELLED and len(y.nodes):
            mop = dict(op, pres=list(op['pres']) + pre_soma) if op['op'] == 'ds' else op
            model = ctx.ask(f"f.ops {op_wire(mop)} | {pre_wire}")
            ctx.corr(G.topo_neuron(y), model, f"step {step} {op['op']}: node table vs Lean applyOp on the implementation's pre-state", case)
        if len(y.nodes):
            if not check_state(ctx, y, case, step, op):
                break   # a (possibly known) defect corrupts the rest of this history
        x = y
        if ctx.has_new_failure():
            break


def gen_cases(ctx):
    r = ctx.rng
    for k in range(ctx.budget(150, 2500)):
        rows, meta = G.rand_forest(r, nmax=12 if k % 2 else 30, allow_zero_edges=(k % 5 == 0))
        yield dict(rows=rows, seed=r.randrange(10 ** 9), nops=r.randint(3, 12 if ctx.quick() else 30), soma=(k % 4 == 0), meta=meta)


def run(ctx):
    ctx.extra['rule'] = ('a case = (generated forest, seeded operation history of 3–12 (quick) / 3–30 (thorough) steps drawn from '
                         f'{len(MODELLED)} modelled + {len(WATCHED)} watched operations, in place or on copies); non-trivial when ≥ 3 nodes')
    ctx.extra['ops_modelled'] = MODELLED
    ctx.extra['ops_watched_by_oracle_only'] = WATCHED
    for case in gen_cases(ctx):
        ctx.case({k: v for k, v in case.items()}, nontrivial=len(case['rows']) >= 3)
        m = case['meta']
        ctx.count('shape', m['shape']); ctx.count('labeling', m['labeling']); ctx.count('order', m['order'])
        nfail = len(ctx.failures)
        run_history(ctx, case)


def replay(ctx, rp):
    case = rp['case']
    c = dict(case)
    if 'ops_done' in c:
        c['ops'] = c.pop('ops_done')
    ctx.case(case)
    run_history(ctx, c)


def shrink(ctx, f):
    """Drop operations from the front/back while the same failure persists."""
    case = dict(f['case'])
    ops = case.get('ops_done')
    if not ops:
        return f
    best = f
    sub = C_sub(ctx)
    i = 0
    while i < len(ops) - 1:
        trial = ops[:i] + ops[i + 1:]
        c2 = dict(case, ops=trial)
        c2.pop('ops_done', None)
        sub.failures = []
        try:
            run_history(sub, c2)
        except Exception:
            sub.failures = []
        if any(x['what'].split(':')[-1] == f['what'].split(':')[-1] for x in sub.failures):
            ops = trial
            best = dict(sub.failures[0])
            best['case'] = dict(c2, ops_done=trial)
        else:
            i += 1
    return best


def C_sub(ctx):
    from .common import Ctx
    s = Ctx(ctx.prop, ctx.tier, ctx.seed)
    s.drv = ctx.drv
    s.known = []
    return s
