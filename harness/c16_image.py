"""C16, image path: `navis.xform` / `navis.xform_brain` on VoxelNeurons (`xfm_funcs._xform_image`,
`_get_coordinates_map`, `TransformSequence.__neg__`).

Exact stream.  A VoxelNeuron with a few bright blocks (dyadic values) on a dyadic grid (offset, per-axis voxel
size) is pushed through ONE map given three ways:
  (a) a single `AffineTransform` holding the composed matrix,
  (b) a `TransformSequence` (or list) of 2–4 members that do not commute (power-of-two scalings and flips,
      dyadic translations, axis permutations, one power-of-two shear),
  (c) `navis.xform_brain` through a bridging path of >= 2 registrations (forward and inverse edges, a registration
      that is itself a TransformSequence, an alias edge, decoy templates).
Every inverse numpy computes (`np.linalg.inv` of each member, of the composed matrix, of inverse-registered
members) is checked to be bit-exact against exact rational arithmetic at generation time, so every quantity navis
computes is an exact double and the comparison is `==`.
Decided by the Lean driver (model `Model/XformImage.lean`, theorems in `Props/C16.lean` §8):
  * `c16.imgcheck` (`imageOK`): offset / voxel size are those of the forward-transformed box and EVERY voxel of
    navis' result is the tri-linear sample of the source at the position pulled back through the reversed
    inverses — hence (a) = (b) = (c) voxel for voxel (`image_depends_only_on_map`);
  * `c16.imgland` (`landsOK`, uses no inverse at all): every bright source voxel whose forward image lands on a
    voxel of the result grid is found there with its value (the signal is where the transform sends it);
  * `c16.image` (correspondence): the model's whole image equals navis';
  * `c16.pullback`: `(-TransformSequence).xform(points)` equals `seqApply (negSeq ts)`.
Controls: sequences whose composition is the identity (commuting pairs, and non-commuting quadruples
`[S, T, S⁻¹, T']`) must return the input image, offset and voxel size.
Tolerance stream (`mode = tol`): non-dyadic scalings (3, 10, 1000, 1/1000, 1.5 …), borders of the grid dark,
relative tolerance 2^-20 in exact rational arithmetic.
Regression cases for defects found by this stream and fixed in navis (known_findings/C16.json, status "fixed"; no
signature, so a regression is a VIOLATION): the unit of length of the voxel size is kept; connectors of a VoxelNeuron
are transformed as points and do not influence the resampling grid (nor does the way the neuron was built: from a
grid or from voxel coordinates); the cached coordinate map is not re-used after `TransformSequence.append`.
"""
import copy
import itertools
from fractions import Fraction
import numpy as np
import pandas as pd

import navis
from navis.transforms import AffineTransform
from navis.transforms.base import TransformSequence, AliasTransform
from navis.transforms.templates import registry
from navis.transforms import xfm_funcs

import harness.c16 as B

EPS_TOL = Fraction(1, 2 ** 20)
EPS_TOL_TOK = f'1/{2 ** 20}'


# ---------------------------------------------------------------------------------------------
# exact affine arithmetic on 12-lists (row-major 3x4 [A|t]) of Fractions
# ---------------------------------------------------------------------------------------------
ID12 = [Fraction(v) for v in (1, 0, 0, 0, 0, 1, 0, 0, 0, 0, 1, 0)]


def F12(a):
    return [Fraction(float(v)) for v in a]


def compose(a, b):
    """first `a`, then `b`"""
    ra, rb = [a[0:4], a[4:8], a[8:12]], [b[0:4], b[4:8], b[8:12]]
    out = []
    for i in range(3):
        for j in range(3):
            out.append(sum(rb[i][k] * ra[k][j] for k in range(3)))
        out.append(sum(rb[i][k] * ra[k][3] for k in range(3)) + rb[i][3])
    return out


def det12(a):
    return (a[0] * (a[5] * a[10] - a[6] * a[9]) - a[1] * (a[4] * a[10] - a[6] * a[8]) + a[2] * (a[4] * a[9] - a[5] * a[8]))


def inv12(a):
    d = det12(a)
    i = [(a[5] * a[10] - a[6] * a[9]) / d, (a[2] * a[9] - a[1] * a[10]) / d, (a[1] * a[6] - a[2] * a[5]) / d,
         (a[6] * a[8] - a[4] * a[10]) / d, (a[0] * a[10] - a[2] * a[8]) / d, (a[2] * a[4] - a[0] * a[6]) / d,
         (a[4] * a[9] - a[5] * a[8]) / d, (a[1] * a[8] - a[0] * a[9]) / d, (a[0] * a[5] - a[1] * a[4]) / d]
    t = [a[3], a[7], a[11]]
    out = []
    for r in range(3):
        out += i[3 * r:3 * r + 3] + [-(i[3 * r] * t[0] + i[3 * r + 1] * t[1] + i[3 * r + 2] * t[2])]
    return out


def compose_all(mats):
    m = list(ID12)
    for a in mats:
        m = compose(m, a)
    return m


def is_exact(fr12):
    try:
        return all(Fraction(float(v)) == v for v in fr12)
    except OverflowError:
        return False


def mat4(a12):
    m = np.eye(4)
    m[:3, :] = np.array([float(v) for v in a12], dtype=float).reshape(3, 4)
    return m


def np_inv_is_exact(a12):
    """is numpy's inverse of the float matrix bit-identical to the exact rational inverse?"""
    fr = F12(a12)
    if det12(fr) == 0:
        return False
    want = inv12(fr)
    if not is_exact(want):
        return False
    got = np.linalg.inv(mat4(a12))
    return [Fraction(float(v)) for v in got[:3, :].reshape(-1)] == want and list(got[3]) == [0, 0, 0, 1]


# ---------------------------------------------------------------------------------------------
# tokens
# ---------------------------------------------------------------------------------------------
def v3_tok(v):
    return ','.join(B.rt(B.fr(x)) for x in v)


def pitch_of(n):
    m = np.atleast_1d(np.asarray(n.units_xyz.magnitude, dtype=float))
    return np.repeat(m, 3) if m.size == 1 else m


def vox_tok(grid):
    idx = np.argwhere(grid != 0)
    return ';'.join(f'{i},{j},{k},{B.rt(B.fr(grid[i, j, k]))}' for i, j, k in idx)


def grid_payload(n):
    return (f"{','.join(map(str, n.grid.shape))} | {v3_tok(np.asarray(n.offset, dtype=float))} | "
            f"{v3_tok(pitch_of(n))} | {vox_tok(np.asarray(n.grid))}")


def fa_payload(steps):
    out = []
    for st in steps:
        if st[0] in ('A', 'I'):
            out.append(f'{st[0]}:' + ','.join(B.rt(B.fr(v)) for v in st[1]))
        elif st[0] == 'M':
            out.append(f'M:{st[1]},{B.rt(B.fr(st[2]))}')
        elif st[0] == '=':      # alias: the identity, not a step
            continue
        else:
            raise ValueError(st)
    return ';'.join(out)


def parse_img(s):
    d = {}
    for w in s.split(' '):
        k, _, v = w.partition('=')
        d[k] = v
    return d


def unit_dim(n):
    try:
        return str(n.units_xyz.units)
    except Exception as e:
        return f'ERR {type(e).__name__}'


# ---------------------------------------------------------------------------------------------
# registry helper for (c)
# ---------------------------------------------------------------------------------------------
_BR = [0]


class Bridge:
    """Registers bridging registrations under throw-away template names and removes them again.
    `edges`: dicts {s, t, tr: transform object, w}."""

    def __init__(self, edges, templates=()):
        self.edges, self.templates = edges, templates

    def __enter__(self):
        _BR[0] += 1
        self.pre = f'VC16B{_BR[0]}_'
        for e in self.edges:
            registry.register_transform(e['tr'], source=self.pre + e['s'], target=self.pre + e['t'],
                                        transform_type='bridging', weight=e.get('w', 1), skip_existing=False)
        self.tbs = []
        for t in self.templates:
            tb = navis.transforms.templates.TemplateBrain(**dict(t, label=self.pre + t['label'], name=self.pre + t['label'] + 'name'))
            registry.register_templatebrain(tb)
            self.tbs.append(tb)
        return self

    def name(self, s):
        return self.pre + s

    def __exit__(self, *a):
        registry._transforms[:] = [t for t in registry._transforms
                                   if not (str(t.source).startswith(self.pre) or str(t.target).startswith(self.pre))]
        registry._templates[:] = [t for t in registry._templates if not any(t is tb for tb in self.tbs)]
        registry.clear_caches()


def bridge_plan(case):
    """edges to register for the members of `case` and the model steps along the (unique) path T0 … Tn."""
    plan = case['bridge']
    edges, steps = [], []
    i = 0
    node = 0
    for seg in plan['segments']:
        # one registration covering `seg['n']` consecutive members, forward or inverse, maybe an alias in front
        ms = case['members'][i:i + seg['n']]
        i += seg['n']
        if seg.get('alias_before'):
            edges.append({'s': f'T{node}', 't': f'T{node}a', 'tr': AliasTransform()})
            src = f'T{node}a'
        else:
            src = f'T{node}'
        tgt = f'T{node + 1}'
        if seg['dir'] == 'fwd':
            trs = [AffineTransform(mat4(m[1])) for m in ms]
            tr = trs[0] if len(trs) == 1 and not seg.get('as_seq') else TransformSequence(*trs)
            edges.append({'s': src, 't': tgt, 'tr': tr, 'w': seg.get('w', 1)})
            steps += [['A', m[1]] for m in ms]
        else:
            # registered the other way round: target -> source with the inverse map (members inverted, reversed)
            invs = [[float(v) for v in inv12(F12(m[1]))] for m in ms][::-1]
            trs = [AffineTransform(mat4(a)) for a in invs]
            tr = trs[0] if len(trs) == 1 and not seg.get('as_seq') else TransformSequence(*trs)
            edges.append({'s': tgt, 't': src, 'tr': tr, 'w': seg.get('w', 1)})
            # navis walks the inverse edge: `-tr` = reversed inverses of the registered matrices
            steps += [['I', a] for a in invs[::-1]]
        node += 1
    for d in plan.get('decoys', []):
        edges.append({'s': f"T{d[0]}", 't': f"X{d[1]}", 'tr': AffineTransform(mat4([2, 0, 0, 1, 0, 2, 0, 0, 0, 0, 2, 0]))})
    return edges, steps, 'T0', f'T{node}'


# ---------------------------------------------------------------------------------------------
# one result against the model
# ---------------------------------------------------------------------------------------------
def com_world(off, pitch, grid):
    g = np.asarray(grid, dtype=float)
    s = g.sum()
    if s == 0:
        return None
    idx = np.indices(g.shape).reshape(3, -1).T
    w = g.reshape(-1)
    return tuple(float(v) for v in ((idx * np.asarray(pitch)) + np.asarray(off)).T @ w / s)


def check_image(ctx, case, x, G, steps, out, tag, eps_tok, exact):
    if not isinstance(out, navis.VoxelNeuron):
        ctx.oracle(False, f'{tag}: xform(VoxelNeuron) returned {type(out).__name__}', case)
        return None
    ok_shape = tuple(out.grid.shape) == tuple(x.grid.shape) and out.grid.dtype == x.grid.dtype
    ctx.oracle(ok_shape and out.name == x.name and str(out.id) == str(x.id),
               f'{tag}: xform(VoxelNeuron) changed grid shape / dtype / name / id '
               f'({x.grid.shape} {x.grid.dtype} -> {out.grid.shape} {out.grid.dtype})', case)
    if not ok_shape:
        return None
    ctx.oracle(not np.shares_memory(out.grid, x.grid), f'{tag}: result grid shares memory with the input grid', case)
    FA = fa_payload(steps)
    off_t, pitch_t, vox_t = v3_tok(np.asarray(out.offset, dtype=float)), v3_tok(pitch_of(out)), vox_tok(np.asarray(out.grid))
    res = ctx.ask(f'c16.imgcheck {FA} | {eps_tok} | {G} | {off_t} | {pitch_t} | {vox_t}')
    model = ctx.ask(f'c16.image {FA} | {G}')
    mo = parse_img(model) if model not in ('RAISES', 'BAD-OP') else {}
    if res != 'ok=1':
        why = []
        if mo:
            if exact and mo.get('off') != off_t:
                why.append(f"offset {off_t} is not the min corner {mo.get('off')} of the forward-transformed box")
            if exact and mo.get('pitch') != pitch_t:
                why.append(f"voxel size {pitch_t} is not extent/shape {mo.get('pitch')}")
            if mo.get('vox') != vox_t:
                mg = np.zeros(x.grid.shape)
                for r in (mo.get('vox') or '').split(';'):
                    if r:
                        i, j, k, v = r.split(',')
                        mg[int(i), int(j), int(k)] = float(Fraction(v))
                try:
                    moff = [float(Fraction(v)) for v in mo['off'].split(',')]
                    mpit = [float(Fraction(v)) for v in mo['pitch'].split(',')]
                    cw, ch = com_world(moff, mpit, mg), com_world(out.offset, pitch_of(out), out.grid)
                except Exception:
                    cw = ch = None
                why.append(f'the signal is not where the transform sends it: {int((np.asarray(out.grid) != mg).sum())} of '
                           f'{mg.size} voxels differ from the source resampled at the pulled-back positions; centre of '
                           f'mass (world) is {ch}, the forward transform puts it at {cw}; total signal '
                           f'{float(np.asarray(out.grid, dtype=float).sum())} vs {float(mg.sum())}')
        ctx.oracle(False, f'{tag}: Lean imageOK rejects navis\' transformed image: ' + ('; '.join(why) or res), case)
    else:
        ctx.oracle(True, '', case)
    # forward check: no inverse involved.  In tolerance mode use the model's (exact) grid geometry.
    lo_t, lp_t = (off_t, pitch_t) if exact or not mo else (mo['off'], mo['pitch'])
    land = ctx.ask(f'c16.imgland {FA} | {eps_tok} | {G} | {lo_t} | {lp_t} | {vox_t}')
    ok, _, n = land.partition(' n=')
    ctx.count('image_landed_voxels', 'some' if n not in ('', '0') else 'none')
    ctx.oracle(ok == 'ok=1', f'{tag}: a bright source voxel whose forward image lands exactly on a voxel of the result '
                             f'grid is not found there with its value (Lean landsOK, {n} landing voxels)', case)
    if exact and mo:
        ctx.corr(f'off={off_t} pitch={pitch_t} vox={vox_t}', model, f'{tag}: transformed image (navis vs Lean imageSparse)', case)
    # connectors of a VoxelNeuron are points: moved by the forward transform, every other column kept (Lean `checkTable`)
    if getattr(x, 'has_connectors', False):
        if not getattr(out, 'has_connectors', False):
            ctx.oracle(False, f'{tag}: xform(VoxelNeuron) dropped the connector table', case)
        else:
            rin, rout = B.table_rows(x.connectors), B.table_rows(out.connectors)
            ok = ctx.ask(f'c16.checkt {FA} | {B.rows_tok(rin)} | {B.rows_tok(rout)}') == 'ok=1' if exact else \
                all(B.close_list(','.join(B.rt(v) for v in a[:3]), ','.join(B.rt(v) for v in B.apply_steps_exact(steps, b[:3])))
                    and a[3] == b[3] for a, b in zip(rout, rin)) and len(rin) == len(rout)
            ctx.oracle(ok and list(out.connectors.columns) == list(x.connectors.columns),
                       f'{tag}: connectors of a VoxelNeuron are not moved by the transform (or other connector columns changed): '
                       f'in {[tuple(map(float, q[:3])) for q in rin[:2]]} out {[tuple(map(float, q[:3])) for q in rout[:2]]}', case)
    # the unit of length survives (the magnitude = voxel size is checked above); fixed in navis (3bf45bf): a regression
    # is a VIOLATION
    du, dx = unit_dim(out), unit_dim(x)
    ctx.oracle(du == dx, f'{tag}: xform(VoxelNeuron) turned units `{x.units}` into `{out.units}`: the unit of length '
                         f'`{dx}` is not kept', case)
    return {'off': off_t, 'pitch': pitch_t, 'vox': vox_t}


# ---------------------------------------------------------------------------------------------
# the (a) = (b) = (c) case
# ---------------------------------------------------------------------------------------------
def run_image(ctx, case):
    spec, members = case['obj'], case['members']
    exact = case.get('mode', 'exact') == 'exact'
    eps_tok = '0' if exact else EPS_TOL_TOK
    x = B.make_obj(spec)
    before = B.snap(x)
    G = grid_payload(x)
    ctx.count('image_members', '+'.join(m[2] if len(m) > 2 else 'A' for m in members))
    ctx.count('image_mode', case.get('mode', 'exact') + ('/control' if case.get('control') else ''))
    ctx.count('voxel', 'x'.join(map(str, spec['shape'])) + '/' + spec.get('dtype', 'float32'))
    ctx.count('voxel_built_from', 'voxel coordinates' if spec.get('from_voxels') else 'grid')
    mats = [['A', m[1]] for m in members]
    comp = [float(v) for v in compose_all([F12(m[1]) for m in members])]
    results = {}

    def attempt(tag, fn, steps):
        try:
            out = fn()
        except Exception as e:
            ctx.count('impl_error', type(e).__name__)
            ctx.oracle(False, f'{tag}: raises {type(e).__name__}: {str(e)[:160]} on a valid VoxelNeuron', case)
            return
        r = check_image(ctx, case, x, G, steps, out, tag, eps_tok, exact)
        if r is not None:
            results[tag] = r

    # (b) the sequence itself
    wrap = case.get('wrap', 'seq')
    trs = [AffineTransform(mat4(m[1])) for m in members]
    seq = trs if wrap == 'list' else TransformSequence(*trs)
    attempt('xform(sequence)', lambda: navis.xform(x, seq), mats)
    # (a) the same map as one affine transform
    if exact or case.get('single_ok', True):
        attempt('xform(single composed affine)', lambda: navis.xform(x, AffineTransform(mat4(comp))), [['A', comp]])
    # (c) bridging path
    if case.get('bridge'):
        edges, steps, src, tgt = bridge_plan(case)
        with Bridge(edges) as br:
            kw = {}
            if case['bridge'].get('via') is not None:
                kw['via'] = br.name(case['bridge']['via'])
            attempt('xform_brain(bridging path)',
                    lambda: navis.xform_brain(x, source=br.name(src), target=br.name(tgt), verbose=False, **kw), steps)
        ctx.count('image_bridge', '/'.join(s['dir'] + ('*' if s.get('as_seq') else '') + str(s['n']) for s in case['bridge']['segments']))
    ctx.oracle(before == B.snap(x), 'navis.xform / xform_brain modified its input (VoxelNeuron)', case)
    # (a) = (b) = (c), voxel for voxel (exact mode; a consequence of the three imgchecks, cross-checked here)
    if exact and len(results) > 1:
        keys = list(results)
        same = all(results[k] == results[keys[0]] for k in keys[1:])
        ctx.oracle(same, 'the same map given as ' + ' / '.join(keys) + ' does not give the same image: '
                   + '; '.join(f"{k}: off={results[k]['off']} pitch={results[k]['pitch']} #vox={results[k]['vox'].count(';') + 1}" for k in keys), case)
    # identity controls
    if case.get('control'):
        want = {'off': v3_tok(np.asarray(x.offset, dtype=float)), 'pitch': v3_tok(pitch_of(x)), 'vox': vox_tok(np.asarray(x.grid))}
        for k, r in results.items():
            if exact:
                ok = r == want
            else:
                ok = (B.close_list(r['off'], want['off']) and B.close_list(r['pitch'], want['pitch'])
                      and r['vox'].count(';') == want['vox'].count(';'))
            ctx.oracle(ok, f'{k}: the members compose to the identity but the image / offset / voxel size changed '
                           f"(off {r['off']} vs {want['off']}, pitch {r['pitch']} vs {want['pitch']})", case)
    # `-sequence` on raw points against the model's reversed inverses
    pts = case.get('points') or [[0, 0, 0], [1, 2, 3], [-4.5, 8, 0.25]]
    try:
        back = (-TransformSequence(*trs)).xform(np.array(pts, dtype=float))
        mb = ctx.ask(f'c16.pullback {fa_payload(mats)} | {B.pts_tok(B.arr_rows(np.array(pts, dtype=float)))}')
        if exact:
            ctx.corr(B.pts_tok(B.arr_rows(back)), mb, '(-TransformSequence).xform(points) vs Lean negSeq (reversed inverses)', case)
        else:
            ctx.corr(all(B.close_list(a, b) for a, b in zip(B.pts_tok(B.arr_rows(back)).split(';'), mb.split(';'))), True,
                     '(-TransformSequence).xform(points) vs Lean negSeq (reversed inverses), tolerance', case)
    except Exception as e:
        ctx.corr(f'raises {type(e).__name__}', 'returns', '(-TransformSequence).xform(points)', case)


# ---------------------------------------------------------------------------------------------
# lists of VoxelNeurons (coordinate-map cache shared / cleared)
# ---------------------------------------------------------------------------------------------
def run_imagelist(ctx, case):
    members = case['members']
    xs = [B.make_obj(s) for s in case['items']]
    nl = navis.NeuronList(xs)
    before = B.snap(nl)
    trs = [AffineTransform(mat4(m[1])) for m in members]
    seq = TransformSequence(*trs)
    ctx.count('image_list', f"{len(xs)}/caching={case.get('caching', True)}")
    try:
        out = navis.xform(nl, seq, caching=case.get('caching', True), affine_fallback=case.get('affine_fallback', True))
    except Exception as e:
        ctx.count('impl_error', type(e).__name__)
        ctx.oracle(False, f'xform(NeuronList of VoxelNeurons) raises {type(e).__name__}: {str(e)[:160]}', case)
        return
    ctx.oracle(before == B.snap(nl), 'navis.xform modified its input (NeuronList of VoxelNeurons)', case)
    outs = list(out) if isinstance(out, navis.NeuronList) else [out]
    if len(outs) != len(xs):
        ctx.oracle(False, f'xform(NeuronList of {len(xs)} VoxelNeurons) returned {len(outs)} neurons', case)
        return
    for i, (x, o) in enumerate(zip(xs, outs)):
        if isinstance(x, navis.VoxelNeuron):
            check_image(ctx, case, x, grid_payload(x), [['A', m[1]] for m in members], o, f'list[{i}]', '0', True)
        else:
            ctx.oracle(type(o) is type(x), f'list[{i}]: xform returned {type(o).__name__} for {type(x).__name__}', case)
    ctx.count('coordinate_map_cache_after_list', xfm_funcs._get_coordinates_map.cache_info().currsize)
    # the same TransformSequence object, extended, on the same list: `xform(NeuronList)` clears the coordinate-map
    # cache when it is done, so the extended sequence must be honoured
    if case.get('extend'):
        ext = case['extend']
        for m in ext:
            seq.append(AffineTransform(mat4(m[1])))
        try:
            out2 = navis.xform(nl, seq, caching=case.get('caching', True))
        except Exception as e:
            ctx.oracle(False, f'xform(NeuronList of VoxelNeurons) raises {type(e).__name__}: {str(e)[:160]}', case)
            return
        finally:
            xfm_funcs._get_coordinates_map.cache_clear()
        outs2 = list(out2) if isinstance(out2, navis.NeuronList) else [out2]
        steps2 = [['A', m[1]] for m in members + ext]
        for i, (x, o) in enumerate(zip(xs, outs2)):
            if isinstance(x, navis.VoxelNeuron):
                check_image(ctx, case, x, grid_payload(x), steps2, o, f'list[{i}] after seq.append', '0', True)


# ---------------------------------------------------------------------------------------------
# regression cases for fixed defects (stream name kept: `image-known-findings`)
# ---------------------------------------------------------------------------------------------
def run_imagekf(ctx, case):
    which = case['which']
    ctx.count('image_known_finding_stream', which)
    spec, members = case['obj'], case['members']
    x = B.make_obj(spec)
    trs = [AffineTransform(mat4(m[1])) for m in members]
    mats = [['A', m[1]] for m in members]
    if which == 'stale-cache':
        # same TransformSequence OBJECT: used, extended, used again on the same neuron
        seq = TransformSequence(trs[0])
        try:
            first = navis.xform(x, seq)
            for t in trs[1:]:
                seq.append(t)
            second = navis.xform(x, seq)
            fresh = navis.xform(x, TransformSequence(*trs))
        except Exception as e:
            ctx.oracle(False, f'xform(VoxelNeuron) raises {type(e).__name__}: {str(e)[:160]}', case)
            return
        finally:
            xfm_funcs._get_coordinates_map.cache_clear()
        G = grid_payload(x)
        r2 = (v3_tok(np.asarray(second.offset, dtype=float)), v3_tok(pitch_of(second)), vox_tok(np.asarray(second.grid)))
        r1 = (v3_tok(np.asarray(first.offset, dtype=float)), v3_tok(pitch_of(first)), vox_tok(np.asarray(first.grid)))
        res = ctx.ask(f'c16.imgcheck {fa_payload(mats)} | 0 | {G} | {r2[0]} | {r2[1]} | {r2[2]}')
        # fixed in navis (34c1a13: the cache key includes the sequence's modification counter): regression case
        stale = res != 'ok=1' and r2 == r1
        ctx.oracle(res == 'ok=1',
                   'xform(VoxelNeuron, seq) after seq.append(...) on a TransformSequence that was used before: the image is '
                   + ('the one of the OLD sequence (coordinate map cached per sequence object)' if stale else 'not the transformed image')
                   + f' (offset {r2[0]}, voxel size {r2[1]})', case)
        rf = (v3_tok(np.asarray(fresh.offset, dtype=float)), v3_tok(pitch_of(fresh)), vox_tok(np.asarray(fresh.grid)))
        resf = ctx.ask(f'c16.imgcheck {fa_payload(mats)} | 0 | {G} | {rf[0]} | {rf[1]} | {rf[2]}')
        ctx.oracle(resf == 'ok=1', 'xform(VoxelNeuron, fresh TransformSequence) is not the transformed image', case)
        return
    # connectors
    cn = pd.DataFrame({'connector_id': np.arange(len(case['conns']), dtype=np.int64),
                       'x': [float(c[0]) for c in case['conns']], 'y': [float(c[1]) for c in case['conns']],
                       'z': [float(c[2]) for c in case['conns']], 'type': np.zeros(len(case['conns']), dtype=np.int64)})
    x.connectors = cn
    before = B.snap(x)
    cn_before = x.connectors.copy()
    try:
        out = navis.xform(x, TransformSequence(*trs))
    except Exception as e:
        ctx.oracle(False, f'xform(VoxelNeuron with connectors) raises {type(e).__name__}: {str(e)[:160]}', case)
        return
    finally:
        xfm_funcs._get_coordinates_map.cache_clear()
    ctx.oracle(before == B.snap(x) and cn_before.equals(x.connectors), 'navis.xform modified its input (VoxelNeuron with connectors)', case)
    rows_in = B.arr_rows(cn_before[['x', 'y', 'z']].values)
    want = ctx.ask(f'c16.forward {fa_payload(mats)} | {B.pts_tok(rows_in)}')
    if not getattr(out, 'has_connectors', False):
        ctx.oracle(False, 'xform(VoxelNeuron with connectors) dropped the connector table', case)
        return
    got = B.pts_tok(B.arr_rows(out.connectors[['x', 'y', 'z']].values))
    untouched = got == B.pts_tok(rows_in)
    # fixed in navis (79e29ae: connectors are transformed as points): regression case, decided by Lean `checkTable`
    rows_out = B.arr_rows(out.connectors[['x', 'y', 'z']].values)
    lean_ok = ctx.ask(f"c16.checkt {fa_payload(mats)} | {B.rows_tok([q + ('_',) for q in rows_in])} | "
                      f"{B.rows_tok([q + ('_',) for q in rows_out])}") == 'ok=1'
    ctx.oracle(got == want and lean_ok, 'xform(VoxelNeuron with connectors): connector coordinates are '
               + ('left untransformed' if untouched else 'not the transform of the raw connector coordinates')
               + f' (got {got[:80]}, want {want[:80]})', case)
    other = [c for c in cn_before.columns if c not in 'xyz']
    ctx.oracle(all(list(out.connectors[c]) == list(cn_before[c]) for c in other), 'xform(VoxelNeuron): other connector columns changed', case)
    # the image itself: resampled relative to the grid, not to a connector-inflated bounding box
    x0 = B.make_obj(spec)
    G = grid_payload(x0)
    r = (v3_tok(np.asarray(out.offset, dtype=float)), v3_tok(pitch_of(out)), vox_tok(np.asarray(out.grid)))
    res = ctx.ask(f'c16.imgcheck {fa_payload(mats)} | 0 | {G} | {r[0]} | {r[1]} | {r[2]}')
    bb = np.asarray(x0.bbox, dtype=float)
    xyz = cn_before[['x', 'y', 'z']].values
    outside = bool(np.any(xyz < bb[:, 0]) or np.any(xyz > bb[:, 1]))
    # fixed in navis (64129b2: the resampling grid comes from offset / shape / voxel size, not from `x.bbox`): regression case
    ctx.oracle(res == 'ok=1', 'xform(VoxelNeuron with connectors): the image is not the transformed image of the grid'
               + (' (connectors outside the grid inflate the bounding box used for resampling)' if outside else ''), case)


# ---------------------------------------------------------------------------------------------
# generators
# ---------------------------------------------------------------------------------------------
P2 = [0.25, 0.5, 1, 2, 4, 8]


def g_scale(r, signed=True):
    d = [r.choice(P2) * (r.choice([1, 1, 1, -1]) if signed else 1) for _ in range(3)]
    if r.random() < 0.4:
        d = [d[0]] * 3
    return ['A', [d[0], 0, 0, 0, 0, d[1], 0, 0, 0, 0, d[2], 0], 'scale']


def g_shift(r):
    t = [r.choice([0, 1, -2, 12, -4, 0.5, 10.25, -7.75, 100, 3]) for _ in range(3)]
    if not any(t):
        t[r.randrange(3)] = 5
    return ['A', [1, 0, 0, t[0], 0, 1, 0, t[1], 0, 0, 1, t[2]], 'shift']


def g_scale_shift(r):
    a = g_scale(r)[1]
    t = g_shift(r)[1]
    a[3], a[7], a[11] = t[3], t[7], t[11]
    return ['A', a, 'affine']


def g_perm(r):
    p = r.choice([[1, 0, 2], [2, 1, 0], [0, 2, 1], [1, 2, 0], [2, 0, 1]])
    a = [0.0] * 12
    for i in range(3):
        a[4 * i + p[i]] = r.choice([1, 1, -1, 2, 0.5])
    return ['A', a, 'perm']


def g_shear(r):
    a = [1.0, 0, 0, 0, 0, 1, 0, 0, 0, 0, 1, 0]
    a[r.choice([1, 2, 4, 6, 8, 9])] = r.choice([0.5, -0.5, 1, -1, 2, 0.25])
    return ['A', a, 'shear']


def g_flip(r):
    ax = r.randrange(3)
    a = [1.0, 0, 0, 0, 0, 1, 0, 0, 0, 0, 1, 0]
    a[5 * ax] = -1.0
    a[4 * ax + 3] = r.choice([0, 10, 64, 7.5, -3])
    return ['A', a, 'flip']


def g_nondyadic(r):
    d = r.choice([3, 10, 1000, 0.001, 1.5, 5, 0.1, 7])
    t = [r.choice([0, 0, 1, 16, -250.5]) for _ in range(3)]
    return ['A', [d, 0, 0, t[0], 0, d, 0, t[1], 0, 0, d, t[2]], 'scale10']


def inverse_member(m, kind):
    return ['A', [float(v) for v in inv12(F12(m[1]))], kind]


def gen_members(r, grid_pow2):
    """2–4 members, not all commuting; interpolating members (perm / shear) only on power-of-two grids."""
    u = r.random()
    if u < 0.3:
        ms = [g_scale(r), g_shift(r)]
        if r.random() < 0.5:
            ms.reverse()
    elif u < 0.5:
        ms = [g_scale_shift(r), g_scale_shift(r)]
    elif u < 0.65:
        ms = [g_scale(r), g_shift(r), g_flip(r)]
        r.shuffle(ms)
    elif u < 0.8 and grid_pow2:
        ms = [g_scale(r), g_shift(r), g_perm(r)]
        r.shuffle(ms)
    elif grid_pow2:
        ms = [g_shear(r), g_shift(r), g_scale(r, signed=False)]
        r.shuffle(ms)
        if r.random() < 0.4:
            ms.append(g_shift(r))
    else:
        ms = [g_shift(r), g_scale(r), g_shift(r), g_scale(r)]
    return ms


def gen_identity_members(r):
    u = r.random()
    if u < 0.2:
        s = g_scale(r, signed=False)
        return [s, inverse_member(s, 'scale')], 'commuting'
    if u < 0.35:
        t = g_shift(r)
        return [t, inverse_member(t, 'shift')], 'commuting'
    if u < 0.5:
        f = g_flip(r)
        return [f, copy.deepcopy(f)], 'commuting'
    # [S, T, S^-1, T'] with T' = the shift that undoes what is left: composition is the identity, members do not commute
    s, t = g_scale(r, signed=(u < 0.75)), g_shift(r)
    si = inverse_member(s, 'scale')
    rest = compose_all([F12(s[1]), F12(t[1]), F12(si[1])])
    t2 = ['A', [float(v) for v in inv12(rest)], 'shift']
    ms = [s, t, si, t2]
    return ms, 'non-commuting'


def all_inverses_exact(members):
    mats = [m[1] for m in members]
    comp = compose_all([F12(a) for a in mats])
    if not is_exact(comp) or any(abs(v) > 2 ** 20 for v in comp):
        return False
    return all(np_inv_is_exact(a) for a in mats) and np_inv_is_exact([float(v) for v in comp])


def gen_grid(r, pow2, dark_border=False, dtype=None):
    if pow2:
        shape = [r.choice([2, 4, 8]), r.choice([2, 4, 8]), r.choice([2, 4])]
    else:
        shape = [r.choice([3, 5, 6, 8, 10, 12]), r.choice([2, 4, 5, 7, 9]), r.choice([2, 3, 4, 6])]
    if dark_border:
        shape = [max(s, 4) for s in shape]
    vals = [1, 2, 0.5, 3, 0.75, 1.5]
    dtype = dtype or r.choice(['float32', 'float32', 'float32', 'float64'])
    if dtype in ('uint8', 'int16'):
        vals = [1, 2, 7, 100, 200]
    blocks = []
    lo = 1 if dark_border else 0
    for _ in range(r.choice([1, 2, 2, 3])):
        b = []
        for s in shape:
            hi = s - lo
            a = r.randrange(lo, hi)
            e = min(hi, a + r.choice([1, 1, 2, 3, 4]))
            b += [a, e]
        blocks.append(b + [r.choice(vals)])
    units = r.choice(['1 nm', '2 nm', '1 um', '4 nm', '0.5 um', ['2 nm', '4 nm', '1 nm'], ['0.5 um', '0.5 um', '2 um'], None])
    conns = None
    if r.random() < 0.3:     # connectors: inside the grid, outside it, far away
        conns = [[100 + i, 0, r.choice([0, 1]), B.q4(r, -60, 60), B.q4(r), B.q4(r, -10, 30), r.choice(['a', 'b'])]
                 for i in range(r.choice([1, 2, 4]))]
    return {'type': 'voxel', 'shape': shape, 'blocks': blocks, 'vox': [], 'from_voxels': r.random() < 0.25, 'conns': conns,
            'offset': [r.choice([0, 3, 10, -4, 2.5]), r.choice([0, 5, -8]), r.choice([0, 7, 0.25])],
            'units': units, 'dtype': dtype, 'name': r.choice(['vx', 'img A']), 'id': r.choice([3, 2 ** 40 + 1])}


def gen_bridge(r, n):
    """split the n members into >= 2 registrations (n >= 2): each covers 1–2 members (2: registered as a
    TransformSequence), is registered forward or the other way round (then navis walks the inverse edge, for a
    registered sequence through `TransformSequence.__neg__`), optionally behind an alias edge"""
    if n <= 1:
        sizes = [n]
    else:
        while True:
            sizes, left = [], n
            while left:
                k = min(left, r.choice([1, 1, 2]))
                sizes.append(k)
                left -= k
            if len(sizes) >= 2:
                break
    segs = [{'n': k, 'dir': r.choice(['fwd', 'fwd', 'inv']), 'as_seq': (k > 1 or r.random() < 0.2),
             'alias_before': r.random() < 0.15, 'w': 1} for k in sizes]
    return {'segments': segs, 'decoys': [[r.randrange(len(segs) + 1), i] for i in range(r.choice([0, 1, 2]))]}


def gen_cases(ctx):
    r = ctx.rng
    # --- hand-written: the demo of the seeded change ------------------------------------------------
    S = ['A', [2, 0, 0, 0, 0, 2, 0, 0, 0, 0, 2, 0], 'scale']
    T = ['A', [1, 0, 0, 12, 0, 1, 0, 0, 0, 0, 1, -4], 'shift']
    demo = {'type': 'voxel', 'shape': [20, 16, 12], 'blocks': [[4, 9, 3, 7, 2, 6, 1], [12, 15, 10, 13, 7, 10, 2]], 'vox': [],
            'offset': [3, 5, 7], 'units': '1 nm', 'dtype': 'float32'}
    yield 'image', {'obj': demo, 'members': [S, T], 'mode': 'exact', 'stream': 'image',
                    'bridge': {'segments': [{'n': 1, 'dir': 'fwd'}, {'n': 1, 'dir': 'fwd'}]}}
    yield 'image', {'obj': demo, 'members': [T, S], 'mode': 'exact', 'stream': 'image', 'wrap': 'list',
                    'bridge': {'segments': [{'n': 1, 'dir': 'inv'}, {'n': 1, 'dir': 'fwd'}]}}
    yield 'image', {'obj': demo, 'members': [S, inverse_member(S, 'scale')], 'mode': 'exact', 'control': 'commuting', 'stream': 'image-control'}
    n_img = ctx.budget(34, 700)
    made = 0
    while made < n_img:
        pow2 = r.random() < 0.5
        ms = gen_members(r, pow2)
        if not all_inverses_exact(ms):
            ctx.count('image_gen', 'rejected: some numpy inverse not exact')
            continue
        interp = any(m[2] in ('perm', 'shear') for m in ms)
        dtype = None if interp else r.choice([None, None, 'uint8', 'int16'])
        c = {'obj': gen_grid(r, pow2, dtype=dtype), 'members': ms, 'mode': 'exact', 'stream': 'image',
             'wrap': r.choice(['seq', 'seq', 'list'])}
        if interp:      # a neuron built from voxel coordinates has shape = max index + 1: not a power of two any more
            c['obj']['from_voxels'] = False
        if r.random() < 0.75:
            c['bridge'] = gen_bridge(r, len(ms))
            # inverse-registered members need an exact inverse matrix
            if not all(is_exact(inv12(F12(m[1]))) for m in ms):
                continue
            # and numpy must invert THOSE exactly, too
            if not all(np_inv_is_exact([float(v) for v in inv12(F12(m[1]))]) for m in ms):
                continue
        made += 1
        yield 'image', c
    for i in range(ctx.budget(10, 200)):
        ms, kind = gen_identity_members(r)
        if not all_inverses_exact(ms):
            continue
        yield 'image', {'obj': gen_grid(r, r.random() < 0.5), 'members': ms, 'mode': 'exact', 'control': kind,
                        'stream': 'image-control', 'bridge': gen_bridge(r, len(ms)) if r.random() < 0.5 else None}
    for i in range(ctx.budget(8, 200)):
        ms = [g_nondyadic(r), r.choice([g_shift, g_scale_shift, g_nondyadic])(r)]
        if r.random() < 0.5:
            ms.reverse()
        if r.random() < 0.3:
            ms.append(g_shift(r))
        # (grid-built only: a neuron built from voxel coordinates ends at its last occupied voxel - no dark border)
        yield 'image', {'obj': dict(gen_grid(r, False, dark_border=True, dtype=r.choice(['float32', 'float64'])), from_voxels=False), 'members': ms,
                        'mode': 'tol', 'stream': 'image-tolerance',
                        'bridge': {'segments': [{'n': 1, 'dir': 'fwd'}] + [{'n': 1, 'dir': 'fwd'} for _ in ms[1:]]}}
    for i in range(ctx.budget(5, 80)):
        ms = gen_members(r, False)
        if not all_inverses_exact(ms):
            continue
        k = r.choice([2, 2, 3])
        same_geom = r.random() < 0.5
        g0 = gen_grid(r, False)
        items = []
        for j in range(k):
            g = gen_grid(r, False)
            if same_geom:   # same bbox / shape / spacing: the cached coordinate map is re-used for different content
                g.update(shape=g0['shape'], offset=g0['offset'], units=g0['units'])
                g['blocks'] = [[min(b[0], s0 - 1), min(max(b[1], min(b[0], s0 - 1) + 1), s0),
                                min(b[2], s1 - 1), min(max(b[3], min(b[2], s1 - 1) + 1), s1),
                                min(b[4], s2 - 1), min(max(b[5], min(b[4], s2 - 1) + 1), s2), b[6]]
                               for b in g['blocks'] for (s0, s1, s2) in [g0['shape']]]
            g['id'] = 100 + j
            items.append(g)
        if r.random() < 0.3:     # a mixed list: the mesh goes through the point path, the images through the image path
            items.insert(r.randrange(len(items) + 1), dict(B.gen_mesh(r), id=999))
        c = {'items': items, 'members': ms, 'caching': r.random() < 0.5, 'affine_fallback': r.random() < 0.5,
             'stream': 'image-list'}
        if i % 2 == 0:
            ext = [g_shift(r)]
            if all_inverses_exact(ms + ext):
                c['extend'] = ext
        yield 'imagelist', c
    # --- known findings -----------------------------------------------------------------------------
    for i in range(ctx.budget(2, 12)):
        ms = [g_scale(r, signed=False), g_shift(r)]
        if not all_inverses_exact(ms):
            continue
        yield 'imagekf', {'which': 'stale-cache', 'obj': gen_grid(r, False), 'members': ms, 'stream': 'image-known-findings'}
    for i in range(ctx.budget(3, 16)):
        ms = [g_scale(r, signed=False), g_shift(r)]
        if not all_inverses_exact(ms):
            continue
        g = gen_grid(r, False)
        pit = [1.0, 1.0, 1.0]
        g['units'] = '1 nm'
        inside = i % 2 == 0
        conns = []
        for _ in range(r.choice([1, 2, 3])):
            c = [g['offset'][a] + r.randrange(0, g['shape'][a] + 1) * pit[a] for a in range(3)]
            if not inside:
                a = r.randrange(3)
                c[a] = g['offset'][a] - r.choice([1, 3, 8])
            conns.append(c)
        yield 'imagekf', {'which': 'connectors-inside' if inside else 'connectors-outside', 'obj': g, 'members': ms,
                          'conns': conns, 'stream': 'image-known-findings'}


RUNNERS = {'image': run_image, 'imagelist': run_imagelist, 'imagekf': run_imagekf}
